import RF.Model.MacroFmt
import RF.Lemmas.CharClasses
/-!
Helper lemmas for `RF/Props/MacroFmt.lean`.

Part 1  the matcher formatter keeps the tokens: `Arg.toks` (the tokens an argument stands for),
        `rewriteArg_toks` / `wrapLoop_toks` (the rewrite emits exactly those), the parser invariant
        (`stepTT_inv` / `parseList_inv`: result ++ pending ++ rest = input) and `parse_toks`.
Part 2  `replaceAll`: the first-occurrence lemma and the scan over a region without occurrence.
-/
namespace RF.MacroFmt
open RF.Shape

/-! ## Pieces -/

theorem toks_append (a b : List Piece) : toks (a ++ b) = toks a ++ toks b := by
  induction a with
  | nil => rfl
  | cons p ps ih => cases p <;> simp [toks, ih]

@[simp] theorem toks_nil : toks [] = [] := rfl
@[simp] theorem toks_sp : toks [sp] = [] := rfl
@[simp] theorem toks_ws (cs : List Char) : toks [.ws cs] = [] := rfl
@[simp] theorem toks_ptok (t : Tok) : toks [ptok t] = [.t t] := rfl
@[simp] theorem toks_cons_ft (t : FTok) (ps : List Piece) : toks (.ft t :: ps) = t :: toks ps := rfl
@[simp] theorem toks_cons_ws (cs : List Char) (ps : List Piece) : toks (.ws cs :: ps) = toks ps := rfl
@[simp] theorem toks_cons_ptok (t : Tok) (ps : List Piece) : toks (ptok t :: ps) = .t t :: toks ps := rfl
@[simp] theorem toks_cons_sp (ps : List Piece) : toks (sp :: ps) = toks ps := rfl

theorem popChar_sp (xs : List Piece) : popChar (xs ++ [sp]) = xs := by
  simp [popChar, sp]

/-! ## The tokens an argument stands for -/

mutual
def Arg.toks : Arg → List FTok
  | .metaVar ty name => .t dollar :: (toks name ++ [.t colon, .t ⟨.Ident, ty⟩])
  | .repeat d args another tok =>
    .t dollar :: .o d :: (argsToks args ++ .c d :: (toks (another.getD []) ++ [.t tok]))
  | .delimited d args => .o d :: (argsToks args ++ [.c d])
  | .separator s pre => toks pre ++ toks s
  | .other inner pre => toks pre ++ toks inner
def argsToks : List Arg → List FTok
  | [] => []
  | a :: as => a.toks ++ argsToks as
end

theorem argsToks_append (a b : List Arg) : argsToks (a ++ b) = argsToks a ++ argsToks b := by
  induction a with
  | nil => simp [argsToks]
  | cons x xs ih => simp [argsToks, ih]

@[simp] theorem argsToks_nil : argsToks [] = [] := by simp [argsToks]
@[simp] theorem argsToks_single (a : Arg) : argsToks [a] = a.toks := by simp [argsToks]
@[simp] theorem argsToks_cons (a : Arg) (as : List Arg) : argsToks (a :: as) = a.toks ++ argsToks as := by
  simp [argsToks]

/-! ## The rewrite emits exactly these tokens -/

theorem retry_ok {α : Type} {a : R α} {b : Unit → R α} {x : α} (h : retry a b = .ok x) :
    a = .ok x ∨ b () = .ok x := by
  unfold retry at h
  split at h
  · exact Or.inr h
  · exact Or.inl h

theorem delimTokenToStr_toks {config : Config} {d : Delim} {shape : Shape} {multi ie : Bool}
    {lhs rhs : List Piece} (h : delimTokenToStr config d shape multi ie = .ok (lhs, rhs)) :
    toks lhs = [.o d] ∧ toks rhs = [.c d] := by
  have hpad : ∀ b : Bool, toks (if b then [sp] else []) = [] := by intro b; cases b <;> rfl
  unfold delimTokenToStr at h
  simp only at h
  split at h
  · split at h
    · cases h
    · split at h
      · cases h
      · injection h with h
        injection h with h1 h2
        subst h1; subst h2
        simp [toks_append, hpad]
  · injection h with h
    injection h with h1 h2
    subst h1; subst h2
    simp [toks_append, hpad]

theorem wrapInnerWith_toks {config : Config} {shape : Shape} {multi : Bool}
    {loop : List Char → R (List Piece)} {T : List FTok} {ps : List Piece}
    (hl : ∀ s ps, loop s = .ok ps → toks ps = T)
    (h : wrapInnerWith config shape multi loop = .ok ps) : toks ps = T := by
  unfold wrapInnerWith at h
  split at h
  · cases h
  · split at h
    · cases h
    · rename_i s _ result hr
      split at h
      · cases h
      · injection h with h
        subst h
        exact hl _ _ hr

theorem rewriteDelimitedWith_toks {config : Config} {shape : Shape} {d : Delim}
    {wrap : Shape → R (List Piece)} {T : List FTok} {ps : List Piece}
    (hw : ∀ sh ps, wrap sh = .ok ps → toks ps = T)
    (h : rewriteDelimitedWith config shape d wrap = .ok ps) : toks ps = .o d :: (T ++ [.c d]) := by
  unfold rewriteDelimitedWith at h
  split at h
  · cases h
  · rename_i inner hi
    split at h
    · cases h
    · rename_i lhs rhs hd
      have ⟨hl, hr⟩ := delimTokenToStr_toks hd
      split at h
      · injection h with h
        subst h
        simp [toks_append, hl, hr, hw _ _ hi]
      · split at h
        · cases h
        · rename_i lhs2 rhs2 hd2
          have ⟨hl2, hr2⟩ := delimTokenToStr_toks hd2
          split at h
          · cases h
          · rename_i inner2 hi2
            injection h with h
            subst h
            simp [toks_append, hl2, hr2, hw _ _ hi2]

theorem wrapGlue_toks' (multi : Bool) (ind : List Char) (arg : Arg) (next : Option Arg)
    (X : List Piece) (hX : arg.endsWithSpace = true → ∃ Y, X = Y ++ [sp]) :
    toks (wrapGlue multi ind arg next X) = toks X := by
  unfold wrapGlue
  by_cases he : arg.endsWithSpace = true
  · obtain ⟨Y, rfl⟩ := hX he
    cases multi <;> cases next <;> simp [he, popChar_sp, toks_append]
    all_goals (try split)
    all_goals (try simp [toks_append])
  · have he' : arg.endsWithSpace = false := by simpa using he
    cases multi <;> cases next <;> simp [he']
    all_goals (try split)
    all_goals (try split)
    all_goals (try simp [toks_append])

theorem wrapGlue_toks (multi : Bool) (ind : List Char) (arg : Arg) (next : Option Arg)
    (config : Config) (shape : Shape) (acc r : List Piece)
    (hr : rewriteArg config shape arg = .ok r) :
    toks (wrapGlue multi ind arg next (acc ++ r)) = toks acc ++ toks r := by
  rw [wrapGlue_toks', toks_append]
  intro he
  cases arg <;> simp [Arg.endsWithSpace] at he
  rename_i s pre
  simp [rewriteArg] at hr
  subst hr
  exact ⟨acc ++ pre ++ s, by simp⟩

mutual
theorem rewriteArg_toks (config : Config) :
    ∀ (a : Arg) (shape : Shape) (ps : List Piece), rewriteArg config shape a = .ok ps → toks ps = a.toks
  | .metaVar ty name, shape, ps, h => by
    simp [rewriteArg] at h
    subst h
    simp [Arg.toks, toks_append]
  | .repeat d args another tok, shape, ps, h => by
    simp only [rewriteArg] at h
    split at h
    · cases h
    · rename_i b hb
      injection h with h
      subst h
      have hT : toks b = .o d :: (argsToks args ++ [.c d]) := by
        refine rewriteDelimitedWith_toks (T := argsToks args) ?_ hb
        intro sh ps hps
        rcases retry_ok hps with h1 | h1
        · exact wrapInnerWith_toks (fun s ps hl => by simpa using wrapLoop_toks config args sh false s [] ps hl) h1
        · exact wrapInnerWith_toks (fun s ps hl => by simpa using wrapLoop_toks config args sh true s [] ps hl) h1
      simp [Arg.toks, toks_append, hT]
  | .delimited d args, shape, ps, h => by
    simp only [rewriteArg] at h
    have hT : toks ps = .o d :: (argsToks args ++ [.c d]) := by
      refine rewriteDelimitedWith_toks (T := argsToks args) ?_ h
      intro sh ps hps
      rcases retry_ok hps with h1 | h1
      · exact wrapInnerWith_toks (fun s ps hl => by simpa using wrapLoop_toks config args sh false s [] ps hl) h1
      · exact wrapInnerWith_toks (fun s ps hl => by simpa using wrapLoop_toks config args sh true s [] ps hl) h1
    simp [Arg.toks, hT]
  | .separator s pre, shape, ps, h => by
    simp [rewriteArg] at h
    subst h
    simp [Arg.toks, toks_append]
  | .other inner pre, shape, ps, h => by
    simp [rewriteArg] at h
    subst h
    simp [Arg.toks, toks_append]
theorem wrapLoop_toks (config : Config) :
    ∀ (args : List Arg) (shape : Shape) (multi : Bool) (ind : List Char) (acc ps : List Piece),
      wrapLoop config shape multi ind acc args = .ok ps → toks ps = toks acc ++ argsToks args
  | [], shape, multi, ind, acc, ps, h => by
    simp [wrapLoop] at h
    subst h
    simp
  | arg :: rest, shape, multi, ind, acc, ps, h => by
    simp only [wrapLoop] at h
    split at h
    · cases h
    · rename_i r hr
      have ih := wrapLoop_toks config rest shape multi ind _ ps h
      rw [ih, wrapGlue_toks multi ind arg rest.head? config shape acc r hr,
        rewriteArg_toks config arg shape r hr]
      simp [argsToks]
end

theorem wrapMacroArgs_toks {config : Config} {shape : Shape} {args : List Arg} {ps : List Piece}
    (h : wrapMacroArgs config shape args = .ok ps) : toks ps = argsToks args := by
  unfold wrapMacroArgs at h
  rcases retry_ok h with h1 | h1
  · exact wrapInnerWith_toks (fun s ps hl => by simpa using wrapLoop_toks config args shape false s [] ps hl) h1
  · exact wrapInnerWith_toks (fun s ps hl => by simpa using wrapLoop_toks config args shape true s [] ps hl) h1


/-! ## The parser keeps the tokens: result ++ pending ++ rest = input -/

theorem render_append (a b : List Piece) : render (a ++ b) = render a ++ render b := by
  induction a with
  | nil => rfl
  | cons p ps ih => simp [render, ih]

theorem Tok.ok_text {t : Tok} (h : t.ok = true) : t.text ≠ [] := by
  intro he
  have : (RF.Comment.trim []).isEmpty = true := by decide
  simp [Tok.ok, he, this] at h

theorem Tok.ok_trim {t : Tok} (h : t.ok = true) : (RF.Comment.trim t.text).isEmpty = false := by
  simp [Tok.ok] at h
  simpa using h.1.1

theorem Tok.ok_dollar {t : Tok} (h : t.ok = true) (hk : t.kind = .Dollar) : t = dollar := by
  cases t with
  | mk k x =>
    simp [Tok.ok] at h
    simp at hk
    subst hk
    simp [dollar]
    simpa using h.1.2

theorem Tok.ok_colon {t : Tok} (h : t.ok = true) (hk : t.kind = .Colon) : t = colon := by
  cases t with
  | mk k x =>
    simp [Tok.ok] at h
    simp at hk
    subst hk
    simp [colon]
    simpa using h.2

/-- The tokens already read that are not yet in `result`. -/
def PState.pending (s : PState) : List FTok :=
  match s.mode with
  | .normal => (if s.isMetaVar then [.t dollar] else []) ++ toks s.buf
  | .frag _ => .t dollar :: (toks s.buf ++ [.t colon])
  | .rep d args buffer =>
    .t dollar :: .o d :: (argsToks args ++ .c d :: (match buffer with | some b => [.t b] | none => []))

/-- An empty buffer holds no token; a separator kept by `add_repeat` is a real token. -/
def PState.good (s : PState) : Prop :=
  (s.bufEmpty = true → toks s.buf = []) ∧
  (match s.mode with
   | .rep _ _ b => toks s.buf = [] ∧ (match b with | some x => x.ok = true | none => True)
   | _ => True)

theorem PState.toks_pre (s : PState) : toks s.pre = [] := by
  unfold PState.pre
  split <;> rfl

theorem good_init : PState.good {} := by
  constructor
  · intro _; rfl
  · trivial


theorem bufEmpty_snoc (buf : List Piece) (t : Tok) (ht : t.ok = true) (mid : List Piece) :
    (render (buf ++ mid ++ [ptok t])).isEmpty = false := by
  have := Tok.ok_text ht
  simp [render_append, render, ptok, Piece.text, FTok.text, this]

theorem updateBuffer_spec (s : PState) (t : Tok) :
    ∃ mid, (s.updateBuffer t).buf = s.buf ++ mid ++ [ptok t] ∧ toks mid = [] ∧
      (s.updateBuffer t).result = s.result ∧ (s.updateBuffer t).mode = s.mode ∧
      (s.updateBuffer t).isMetaVar = s.isMetaVar ∧ (mid = [] ∨ mid = [sp]) := by
  unfold PState.updateBuffer
  split
  · exact ⟨[], by simp, rfl, rfl, rfl, rfl, Or.inl rfl⟩
  · split
    · exact ⟨[sp], by simp, rfl, rfl, rfl, rfl, Or.inr rfl⟩
    · exact ⟨[], by simp, rfl, rfl, rfl, rfl, Or.inl rfl⟩

theorem stepTok_inv {s s' : PState} {t : Tok} (ht : t.ok = true) (hg : s.good)
    (h : stepTok s t = some s') :
    s'.good ∧ argsToks s'.result ++ s'.pending = argsToks s.result ++ s.pending ++ [.t t] := by
  obtain ⟨buf, startTok, isMetaVar, lastTok, result, mode⟩ := s
  obtain ⟨hg1, hg2⟩ := hg
  cases mode with
  | frag c =>
    simp only [stepTok] at h
    split at h
    · rename_i hk
      injection h with h
      subst h
      refine ⟨⟨fun _ => rfl, trivial⟩, ?_⟩
      have : ⟨.Ident, t.text⟩ = t := by
        cases t with
        | mk k x => simp at hk; simp [hk]
      simp [PState.pending, argsToks_append, Arg.toks]
      exact this
    · cases h
  | rep d args buffer =>
    obtain ⟨hgb, hgx⟩ := hg2
    simp at hgb
    cases buffer with
    | none =>
      simp only [stepTok] at h
      split at h
      · simp at h
        subst h
        exact ⟨⟨hg1, trivial⟩, by simp [PState.pending, argsToks_append, Arg.toks, hgb]⟩
      · split at h
        · cases h
        · simp at h
          subst h
          exact ⟨⟨hg1, hgb, ht⟩, by simp [PState.pending]⟩
    | some b =>
      have hb : b.ok = true := hgx
      have hb' : RF.Comment.trim b.text ≠ [] := by
        have := Tok.ok_trim hb
        simpa using this
      simp only [stepTok] at h
      split at h
      · split at h
        · cases h
        · simp at h
          subst h
          exact ⟨⟨hg1, trivial⟩, by simp [PState.pending, argsToks_append, Arg.toks, hb', hgb]⟩
      · split at h
        · cases h
        · simp at h
  | normal =>
    simp only [stepTok] at h
    split at h
    · rename_i hk
      have hd : t = dollar := Tok.ok_dollar ht (by simpa using hk)
      split at h
      · cases h
      · rename_i hm
        injection h with h
        subst h
        have hm' : isMetaVar = false := by simpa using hm
        subst hm'
        by_cases hb : (PState.bufEmpty ⟨buf, startTok, false, lastTok, result, .normal⟩) = true
        · have hbt := hg1 hb
          simp [hb] at hbt ⊢
          refine ⟨⟨fun _ => hbt, trivial⟩, ?_⟩
          simp [PState.pending, hbt, hd]
        · have hb' : (PState.bufEmpty ⟨buf, startTok, false, lastTok, result, .normal⟩) = false := by simpa using hb
          simp [hb', PState.addSeparator]
          refine ⟨⟨fun _ => rfl, trivial⟩, ?_⟩
          simp [PState.pending, argsToks_append, Arg.toks, PState.toks_pre, hd]
    · split at h
      · rename_i _ hc
        injection h with h
        subst h
        simp at hc
        have hcol : t = colon := Tok.ok_colon ht hc.1
        refine ⟨⟨hg1, trivial⟩, ?_⟩
        simp [PState.pending, hc.2, hcol]
      · split at h
        · cases h
        · injection h with h
          subst h
          obtain ⟨mid, hbuf, hmid, hres, hmode, hmv, _⟩ :=
            updateBuffer_spec ⟨buf, startTok, isMetaVar, lastTok, result, .normal⟩ t
          generalize PState.updateBuffer ⟨buf, startTok, isMetaVar, lastTok, result, .normal⟩ t = u at *
          obtain ⟨ubuf, ust, umv, ult, ures, umode⟩ := u
          simp at hbuf hres hmode hmv
          subst hbuf hres hmode hmv
          refine ⟨⟨?_, trivial⟩, ?_⟩
          · intro he
            have := bufEmpty_snoc buf t ht mid
            simp [PState.bufEmpty] at he
            simp [he] at this
          · simp [PState.pending, toks_append, hmid]


theorem stepDelim_inv {s s' : PState} {d : Delim} {sub : Option (List Arg)} {inner : List FTok}
    (hsub : ∀ args, sub = some args → argsToks args = inner) (hg : s.good)
    (h : stepDelim s d sub = some s') :
    s'.good ∧
      argsToks s'.result ++ s'.pending = argsToks s.result ++ s.pending ++ (.o d :: (inner ++ [.c d])) := by
  obtain ⟨buf, startTok, isMetaVar, lastTok, result, mode⟩ := s
  obtain ⟨hg1, hg2⟩ := hg
  cases mode with
  | frag c => simp [stepDelim] at h
  | rep d args buffer => simp [stepDelim] at h
  | normal =>
    cases sub with
    | none =>
      simp only [stepDelim] at h
      split at h <;> simp_all
    | some args =>
      have ha := hsub args rfl
      by_cases hb : (PState.bufEmpty ⟨buf, startTok, isMetaVar, lastTok, result, .normal⟩) = true
      · have hbt := hg1 hb
        simp at hbt
        cases isMetaVar with
        | true =>
          simp [stepDelim, hb] at h
          subst h
          exact ⟨⟨hg1, hbt, trivial⟩, by simp [PState.pending, hbt, ha]⟩
        | false =>
          simp [stepDelim, hb] at h
          subst h
          exact ⟨⟨hg1, trivial⟩, by simp [PState.pending, hbt, ha, argsToks_append, Arg.toks]⟩
      · have hb' : (PState.bufEmpty ⟨buf, startTok, isMetaVar, lastTok, result, .normal⟩) = false := by
          simpa using hb
        cases isMetaVar with
        | true => simp [stepDelim, hb'] at h
        | false =>
          by_cases hn : nextSpace lastTok = .always
          · simp [stepDelim, hb', hn, PState.addSeparator] at h
            subst h
            exact ⟨⟨fun _ => rfl, trivial⟩,
              by simp [PState.pending, ha, argsToks_append, Arg.toks, PState.toks_pre]⟩
          · simp [stepDelim, hb', hn, PState.addOther] at h
            subst h
            exact ⟨⟨fun _ => rfl, trivial⟩,
              by simp [PState.pending, ha, argsToks_append, Arg.toks, PState.toks_pre]⟩

theorem finish_inv {s : PState} {args : List Arg} (hg : s.good) (h : finish s = some args) :
    argsToks args = argsToks s.result ++ s.pending := by
  obtain ⟨buf, startTok, isMetaVar, lastTok, result, mode⟩ := s
  obtain ⟨hg1, _⟩ := hg
  cases mode with
  | frag c => simp [finish] at h
  | rep d a b => simp [finish] at h
  | normal =>
    simp only [finish] at h
    split at h
    · cases h
    · rename_i hm
      simp at hm
      split at h
      · injection h with h
        subst h
        simp [PState.addOther, PState.pending, hm, argsToks_append, Arg.toks, PState.toks_pre]
      · rename_i hb
        injection h with h
        subst h
        have hbt := hg1 (by simpa using hb)
        simp at hbt
        simp [PState.pending, hm, hbt]

mutual
theorem stepTT_inv : ∀ (t : TT) (s s' : PState), t.ok = true → s.good → stepTT s t = some s' →
    s'.good ∧ argsToks s'.result ++ s'.pending = argsToks s.result ++ s.pending ++ t.flat
  | .tok t, s, s', ht, hg, h => by
    simp only [stepTT] at h
    simp only [TT.ok] at ht
    simpa [TT.flat] using stepTok_inv ht hg h
  | .delim d inner, s, s', ht, hg, h => by
    simp only [stepTT] at h
    simp only [TT.ok] at ht
    refine stepDelim_inv (inner := flatList inner) ?_ hg h
    intro args hargs
    split at hargs
    · cases hargs
    · rename_i sub hsub
      have ⟨hgs, hinv⟩ := parseList_inv inner {} sub ht good_init hsub
      have := finish_inv hgs hargs
      rw [this, hinv]
      simp [PState.pending]
theorem parseList_inv : ∀ (ts : List TT) (s s' : PState), okList ts = true → s.good →
    parseList s ts = some s' →
    s'.good ∧ argsToks s'.result ++ s'.pending = argsToks s.result ++ s.pending ++ flatList ts
  | [], s, s', _, hg, h => by
    simp [parseList] at h
    subst h
    exact ⟨hg, by simp [flatList]⟩
  | t :: ts, s, s', ht, hg, h => by
    simp only [parseList] at h
    simp only [okList, Bool.and_eq_true] at ht
    split at h
    · cases h
    · rename_i s1 h1
      have ⟨hg1, hi1⟩ := stepTT_inv t s s1 ht.1 hg h1
      have ⟨hg2, hi2⟩ := parseList_inv ts s1 s' ht.2 hg1 h
      exact ⟨hg2, by rw [hi2, hi1]; simp [flatList]⟩
end

/-- The parsed arguments stand for exactly the tokens of the stream. -/
theorem parse_toks {ts : List TT} {args : List Arg} (hok : okList ts = true)
    (h : parseMatcher ts = some args) : argsToks args = flatList ts := by
  unfold parseMatcher at h
  split at h
  · cases h
  · rename_i s hs
    have ⟨hg, hinv⟩ := parseList_inv ts {} s hok good_init hs
    rw [finish_inv hg h, hinv]
    simp [PState.pending]


/-! ## Part 2: `str::replace` as a scan, and the undoing loop over a segmented text -/

theorem isPrefix_append_right {p s : List Char} (x : List Char) (h : isPrefix p s = true) :
    isPrefix p (s ++ x) = true := by
  induction p generalizing s with
  | nil => simp [isPrefix]
  | cons a as ih =>
    cases s with
    | nil => simp [isPrefix] at h
    | cons c cs =>
      simp [isPrefix] at h ⊢
      exact ⟨h.1, ih h.2⟩

theorem isPrefix_split {p s : List Char} (h : isPrefix p s = true) : ∃ t, s = p ++ t := by
  induction p generalizing s with
  | nil => exact ⟨s, rfl⟩
  | cons a as ih =>
    cases s with
    | nil => simp [isPrefix] at h
    | cons c cs =>
      simp [isPrefix] at h
      obtain ⟨t, rfl⟩ := ih h.2
      exact ⟨t, by simp [h.1]⟩

/-- `x` is `y`, or a `$` that took its place. -/
def Rel (x y : Char) : Prop := x = y ∨ x = '$'

/-- `Rel` character by character. -/
inductive RelL : List Char → List Char → Prop where
  | nil : RelL [] []
  | cons {x y : Char} {xs ys : List Char} : Rel x y → RelL xs ys → RelL (x :: xs) (y :: ys)

theorem rel_refl (xs : List Char) : RelL xs xs := by
  induction xs with
  | nil => exact .nil
  | cons x xs ih => exact .cons (Or.inl rfl) ih

theorem relL_append {a b c d : List Char} (h1 : RelL a b) (h2 : RelL c d) : RelL (a ++ c) (b ++ d) := by
  induction h1 with
  | nil => simpa using h2
  | cons h _ ih => exact .cons h ih

/-- A pattern without `$` that occurs in a text where some characters were overwritten by `$`
occurs in the original text. -/
theorem isPrefix_mono {P xs ys : List Char} (hP : '$' ∉ P) (h : RelL xs ys)
    (hp : isPrefix P xs = true) : isPrefix P ys = true := by
  induction P generalizing xs ys with
  | nil => simp [isPrefix]
  | cons p ps ih =>
    cases h with
    | nil => simp [isPrefix] at hp
    | cons hxy hrest =>
      simp [isPrefix] at hp ⊢
      simp at hP
      refine ⟨?_, ih hP.2 hrest hp.2⟩
      rcases hxy with rfl | rfl
      · exact hp.1
      · exact absurd hp.1.symm (by simpa using hP.1)

theorem noOcc_mono {P reg reg' rest rest' : List Char} (hP : '$' ∉ P)
    (h1 : RelL reg reg') (h2 : RelL rest rest')
    (h : noOcc P reg' rest' = true) : noOcc P reg rest = true := by
  induction h1 with
  | nil => simp [noOcc]
  | @cons a b as bs hab has ih =>
    simp [noOcc] at h ⊢
    refine ⟨?_, ih h.2⟩
    cases hp : isPrefix P (a :: (as ++ rest)) with
    | false => rfl
    | true =>
      have := isPrefix_mono hP (.cons hab (relL_append has h2)) hp
      simp [this] at h

theorem noOcc_suffix {P a b rest : List Char} (h : noOcc P (a ++ b) rest = true) :
    noOcc P b rest = true := by
  induction a with
  | nil => simpa using h
  | cons x xs ih =>
    simp [noOcc] at h
    exact ih h.2

theorem replaceGo_noOcc {P R reg rest : List Char} (h : noOcc P reg rest = true) :
    replaceGo P R 0 (reg ++ rest) = reg ++ replaceGo P R 0 rest := by
  induction reg with
  | nil => simp
  | cons c cs ih =>
    simp [noOcc] at h
    simp [replaceGo, h.1, ih h.2]

theorem replaceGo_skip (P R : List Char) (xs rest : List Char) :
    replaceGo P R xs.length (xs ++ rest) = replaceGo P R 0 rest := by
  induction xs with
  | nil => simp
  | cons x xs ih => simp [replaceGo, ih]

theorem flatD_rel (D : List Char → Bool) (segs : List Seg) :
    RelL (flatD D segs) (flatZ segs) := by
  induction segs with
  | nil => exact .nil
  | cons s ss ih =>
    cases s with
    | lit c => exact .cons (Or.inl rfl) ih
    | var k name =>
      simp only [flatD, Seg.flat]
      refine relL_append (relL_append (rel_refl _) ?_) ih
      refine .cons ?_ (rel_refl _)
      cases D name
      · exact Or.inl rfl
      · exact Or.inr rfl

theorem isPrefix_self (l : List Char) : isPrefix l l = true := by
  induction l with
  | nil => rfl
  | cons a as ih => simp [isPrefix, ih]

theorem undo_step (n : List Char) (hn : '$' ∉ n) (D : List Char → Bool) :
    ∀ (segs : List Seg), singles segs = true → safeFor n segs = true →
      replaceGo ('z' :: n) ('$' :: n) 0 (flatD D segs) = flatD (fun m => D m || isPrefix n m) segs
  | [], _, _ => by simp [flatD, replaceGo]
  | .lit c :: tl, hs, hsafe => by
    simp [safeFor] at hsafe
    simp only [singles] at hs
    have hP : '$' ∉ 'z' :: n := by simp [hn]
    have hno : isPrefix ('z' :: n) (c :: flatD D tl) = false := by
      cases hp : isPrefix ('z' :: n) (c :: flatD D tl) with
      | false => rfl
      | true =>
        have := isPrefix_mono hP (RelL.cons (Or.inl rfl) (flatD_rel D tl)) hp
        simp [this] at hsafe
    have ih := undo_step n hn D tl hs hsafe.2
    simp only [flatD, Seg.flat, List.singleton_append]
    rw [replaceGo, hno]
    simp [ih]
  | .var k m :: tl, hs, hsafe => by
    simp [safeFor] at hsafe
    simp [singles] at hs
    obtain ⟨hk, hs⟩ := hs
    subst hk
    have hP : '$' ∉ 'z' :: n := by simp [hn]
    have ih := undo_step n hn D tl hs hsafe.2
    have hnoD : noOcc ('z' :: n) m (flatD D tl) = true :=
      noOcc_mono hP (rel_refl m) (flatD_rel D tl) hsafe.1.2
    simp only [flatD, Seg.flat, Nat.sub_self, List.replicate_zero, List.nil_append]
    by_cases hD : D m = true
    · simp only [hD, Bool.true_or, ite_true, List.cons_append]
      rw [replaceGo]
      simp only [isPrefix]
      simp [replaceGo_noOcc hnoD, ih]
    · have hD' : D m = false := by simpa using hD
      by_cases hpre : isPrefix n m = true
      · obtain ⟨m', rfl⟩ := isPrefix_split hpre
        simp only [hD', Bool.false_or, hpre, ite_true, List.cons_append, Bool.false_eq_true, ite_false]
        rw [replaceGo]
        have : isPrefix ('z' :: n) ('z' :: (n ++ m' ++ flatD D tl)) = true := by
          simp [isPrefix]
          exact isPrefix_append_right _ (isPrefix_self n)
        rw [this]
        simp only [ite_true, List.length_cons, Nat.add_sub_cancel, List.cons_append, List.append_assoc]
        rw [replaceGo_skip, replaceGo_noOcc (noOcc_suffix hnoD), ih]
      · have hpre' : isPrefix n m = false := by simpa using hpre
        simp only [hD', Bool.false_or, hpre', Bool.false_eq_true, ite_false, List.cons_append]
        have hno : isPrefix ('z' :: n) ('z' :: (m ++ flatD D tl)) = false := by
          cases hp : isPrefix ('z' :: n) ('z' :: (m ++ flatD D tl)) with
          | false => rfl
          | true =>
            have := isPrefix_mono hP
              (RelL.cons (Or.inl rfl) (relL_append (rel_refl m) (flatD_rel D tl))) hp
            simp [hpre'] at hsafe
            simp [this] at hsafe
        rw [replaceGo, hno]
        simp [replaceGo_noOcc hnoD, ih]


theorem flatD_congr {D D' : List Char → Bool} :
    ∀ (segs : List Seg), (∀ k m, Seg.var k m ∈ segs → D m = D' m) → flatD D segs = flatD D' segs
  | [], _ => rfl
  | .lit c :: tl, h => by
    simp only [flatD, Seg.flat]
    rw [flatD_congr tl (fun k m hm => h k m (List.mem_cons_of_mem _ hm))]
  | .var k m :: tl, h => by
    simp only [flatD, Seg.flat]
    rw [flatD_congr tl (fun k m hm => h k m (List.mem_cons_of_mem _ hm)), h k m (List.mem_cons_self)]

/-- The undoing loop, in any order, on a text in which some names are already back: every name
that begins with one of the names of `order` is back afterwards, nothing else changed. -/
theorem undo_fold (oldBody : List Char) (segs : List Seg) (hs : singles segs = true) :
    ∀ (order : List Subst) (D : List Char → Bool) (out : List Char),
      (∀ e ∈ order, e.dollars = 1 ∧ '$' ∉ e.name ∧ safeFor e.name segs = true) →
      undo oldBody order (flatD D segs) = some out →
      out = flatD (fun m => D m || order.any (fun e => isPrefix e.name m)) segs
  | [], D, out, _, h => by
    simp [undo] at h
    subst h
    simp
  | e :: rest, D, out, he, h => by
    obtain ⟨hd, hn, hsafe⟩ := he e List.mem_cons_self
    simp only [undo] at h
    split at h
    · cases h
    · have hnew : e.new = 'z' :: e.name := by simp [Subst.new, hd]
      have hold : e.old = '$' :: e.name := by simp [Subst.old, hd]
      rw [hnew, hold] at h
      have hstep : replaceAll ('z' :: e.name) ('$' :: e.name) (flatD D segs) =
          flatD (fun m => D m || isPrefix e.name m) segs := by
        simp only [replaceAll, List.isEmpty_cons, Bool.false_eq_true, ite_false]
        exact undo_step e.name hn D segs hs hsafe
      rw [hstep] at h
      have := undo_fold oldBody segs hs rest _ out (fun x hx => he x (List.mem_cons_of_mem _ hx)) h
      rw [this]
      apply flatD_congr
      intro k m _
      simp [Bool.or_assoc]


/-! ## `replace_names` as a segmentation of its input -/

theorem flatD_append (D : List Char → Bool) (a b : List Seg) :
    flatD D (a ++ b) = flatD D a ++ flatD D b := by
  induction a with
  | nil => rfl
  | cons x xs ih => simp [flatD, ih]

/-- white space erased -/
abbrev nws (s : List Char) : List Char := s.filter (fun c => !RF.Comment.isWs c)

/-- the part of the input read but not yet written: the `$`s and the name being collected -/
def RState.pend (s : RState) : List Char := List.replicate s.dollarCount '$' ++ s.curName

structure RState.wf (s : RState) : Prop where
  zero : s.dollarCount = 0 → s.curName = []
  name : '$' ∉ s.curName
  substs : ∀ e ∈ s.substs, '$' ∉ e.name

theorem isAlnum_dollar : isAlnum '$' = false := by decide

theorem replicate_snoc (n : Nat) (c : Char) : List.replicate n c ++ [c] = List.replicate (n + 1) c := by
  induction n with
  | zero => rfl
  | succ k ih => simp [List.replicate_succ, ih]

theorem register_spec (s : RState) :
    s.register.result = s.result ++ flatZ [.var s.dollarCount s.curName] ∧
    (⟨s.dollarCount, s.curName⟩ : Subst) ∈ s.register.substs ∧
    (∀ e ∈ s.substs, e ∈ s.register.substs) ∧
    (∀ e ∈ s.register.substs, e ∈ s.substs ∨ e = ⟨s.dollarCount, s.curName⟩) ∧
    s.register.dollarCount = s.dollarCount ∧ s.register.curName = s.curName := by
  unfold RState.register
  simp only
  refine ⟨by simp [flatD, Seg.flat, Subst.new], ?_, ?_, ?_, by simp⟩
  · split
    · rename_i h
      simpa using h
    · simp
  · intro e he
    split
    · exact he
    · simp [he]
  · intro e he
    split at he
    · exact Or.inl he
    · simp at he
      exact he

theorem rstep_inv {s s' : RState} {kc : RF.CharClasses.Kind × Char} (hw : s.wf)
    (h : rstep s kc = some s') :
    s'.result = s.result ++ flatZ (stepSegs s kc) ∧
    nws (s.pend ++ [kc.2]) = nws (flatS (stepSegs s kc) ++ s'.pend) ∧
    s'.wf ∧
    (∀ k m, Seg.var k m ∈ stepSegs s kc → (⟨k, m⟩ : Subst) ∈ s'.substs) ∧
    (∀ e ∈ s.substs, e ∈ s'.substs) ∧
    (∀ e ∈ s'.substs, e ∈ s.substs ∨ Seg.var e.dollars e.name ∈ stepSegs s kc) := by
  obtain ⟨kind, c⟩ := kc
  unfold rstep at h
  unfold stepSegs
  simp only at h ⊢
  by_cases hk : (kind != RF.CharClasses.Kind.normal) = true
  · simp only [hk, ite_true] at h ⊢
    split at h
    · cases h
    · rename_i hd
      have hd0 : s.dollarCount = 0 := by omega
      injection h with h
      subst h
      refine ⟨by simp [flatD, Seg.flat], ?_, ⟨hw.zero, hw.name, hw.substs⟩, by simp, fun e he => he, fun e he => Or.inl he⟩
      simp [RState.pend, hd0, hw.zero hd0, flatD, Seg.flat]
  · simp only [hk, Bool.false_eq_true, ite_false] at h ⊢
    by_cases hc : (c == '$') = true
    · simp only [hc, ite_true] at h ⊢
      split at h
      · cases h
      · rename_i hn
        have hn' : s.curName = [] := by simpa using hn
        injection h with h
        subst h
        refine ⟨by simp [flatD], ?_, ⟨by simp [hn'], hw.name, hw.substs⟩, by simp, fun e he => he, fun e he => Or.inl he⟩
        have : c = '$' := by simpa using hc
        subst this
        simp [RState.pend, hn', flatD, replicate_snoc]
    · simp only [hc, Bool.false_eq_true, ite_false] at h ⊢
      have hc' : c ≠ '$' := by simpa using hc
      by_cases hz : (s.dollarCount == 0) = true
      · simp only [hz, ite_true] at h ⊢
        have hd0 : s.dollarCount = 0 := by simpa using hz
        injection h with h
        subst h
        refine ⟨by simp [flatD, Seg.flat], ?_, ⟨hw.zero, hw.name, hw.substs⟩, by simp, fun e he => he, fun e he => Or.inl he⟩
        simp [RState.pend, hd0, hw.zero hd0, flatD, Seg.flat]
      · simp only [hz, Bool.false_eq_true, ite_false] at h ⊢
        have hdpos : 0 < s.dollarCount := by
          have : s.dollarCount ≠ 0 := by simpa using hz
          omega
        by_cases ht : (!isAlnum c && !s.curName.isEmpty) = true
        · simp only [ht, ite_true] at h ⊢
          obtain ⟨hr, hin, hsub, hsub', hdc, hcn⟩ := register_spec s
          injection h with h
          subst h
          refine ⟨?_, ?_, ⟨fun _ => rfl, by simp, ?_⟩, ?_, ?_, ?_⟩
          · simp [hr, flatD, Seg.flat]
          · have : List.replicate (s.dollarCount - 1) '$' ++ ['$'] = List.replicate s.dollarCount '$' := by
              rw [replicate_snoc]
              congr 1
              omega
            simp only [RState.pend, flatD, Seg.flat, ite_true, List.append_nil, List.replicate_zero,
              List.nil_append]
            rw [show List.replicate (s.dollarCount - 1) '$' ++ '$' :: s.curName ++ [c]
                = (List.replicate (s.dollarCount - 1) '$' ++ ['$']) ++ s.curName ++ [c] by simp, this]
          · intro e he
            rcases hsub' e he with h1 | h1
            · exact hw.substs e h1
            · subst h1
              exact hw.name
          · intro k m hm
            simp at hm
            obtain ⟨rfl, rfl⟩ := hm
            exact hin
          · intro e he
            exact hsub e he
          · intro e he
            rcases hsub' e he with h1 | h1
            · exact Or.inl h1
            · subst h1
              exact Or.inr (by simp)
        · simp only [ht, Bool.false_eq_true, ite_false] at h ⊢
          split at h
          · cases h
          · split at h
            · rename_i hpush
              injection h with h
              subst h
              refine ⟨by simp [flatD], ?_, ⟨fun hd => by simp at hd; omega, ?_, hw.substs⟩, by simp, fun e he => he, fun e he => Or.inl he⟩
              · simp [RState.pend, flatD]
              · have hwn := hw.name
                simp only [List.mem_append, List.mem_singleton, not_or]
                exact ⟨hwn, fun heq => hc' heq.symm⟩
            · split at h
              · cases h
              · rename_i hws
                injection h with h
                subst h
                refine ⟨by simp [flatD], ?_, hw, by simp, fun e he => he, fun e he => Or.inl he⟩
                have : RF.Comment.isWs c = true := by simpa using hws
                simp [RState.pend, flatD, this]


theorem flatS_append (a b : List Seg) : flatS (a ++ b) = flatS a ++ flatS b := flatD_append _ a b
theorem flatZ_append (a b : List Seg) : flatZ (a ++ b) = flatZ a ++ flatZ b := flatD_append _ a b

theorem nws_append (a b : List Char) : nws (a ++ b) = nws a ++ nws b := by simp [nws]

theorem rloop_inv : ∀ (cls : List (RF.CharClasses.Kind × Char)) (s s' : RState), s.wf →
    rloop s cls = some s' →
    s'.result = s.result ++ flatZ (loopSegs s cls) ∧
    nws (s.pend ++ cls.map (·.2)) = nws (flatS (loopSegs s cls) ++ s'.pend) ∧
    s'.wf ∧
    (∀ k m, Seg.var k m ∈ loopSegs s cls → (⟨k, m⟩ : Subst) ∈ s'.substs) ∧
    (∀ e ∈ s.substs, e ∈ s'.substs) ∧
    (∀ e ∈ s'.substs, e ∈ s.substs ∨ Seg.var e.dollars e.name ∈ loopSegs s cls)
  | [], s, s', hw, h => by
    simp [rloop] at h
    subst h
    simp [loopSegs, flatD, hw]
  | kc :: rest, s, s', hw, h => by
    simp only [rloop] at h
    split at h
    · cases h
    · rename_i s1 h1
      obtain ⟨r1, n1, w1, v1, m1, b1⟩ := rstep_inv hw h1
      obtain ⟨r2, n2, w2, v2, m2, b2⟩ := rloop_inv rest s1 s' w1 h
      simp only [loopSegs, h1]
      refine ⟨by rw [r2, r1, flatZ_append]; simp, ?_, w2, ?_, fun e he => m2 e (m1 e he), ?_⟩
      · have : s.pend ++ List.map (·.2) (kc :: rest) = (s.pend ++ [kc.2]) ++ rest.map (·.2) := by simp
        rw [this, nws_append, n1, flatS_append]
        have e1 : nws (flatS (stepSegs s kc) ++ s1.pend) ++ nws (List.map (·.2) rest)
            = nws (flatS (stepSegs s kc)) ++ nws (s1.pend ++ List.map (·.2) rest) := by
          simp [nws_append]
        rw [e1, n2]
        simp [nws_append]
      · intro k m hm
        simp only [List.mem_append] at hm
        rcases hm with hm | hm
        · exact m2 _ (v1 k m hm)
        · exact v2 k m hm
      · intro e he
        rcases b2 e he with h2 | h2
        · rcases b1 e h2 with h3 | h3
          · exact Or.inl h3
          · exact Or.inr (by simp [h3])
        · exact Or.inr (by simp [h2])

theorem wf_init : RState.wf {} := ⟨fun _ => rfl, by simp, by simp⟩

/-- `replace_names` in terms of the segmentation of its input. -/
theorem replaceNames_segs {input r : List Char} {substs : List Subst}
    (h : replaceNames input = some (r, substs)) :
    r = flatZ (segsOf input) ∧ nws input = nws (flatS (segsOf input)) ∧
    (∀ k m, Seg.var k m ∈ segsOf input → (⟨k, m⟩ : Subst) ∈ substs) ∧
    (∀ e ∈ substs, '$' ∉ e.name ∧ Seg.var e.dollars e.name ∈ segsOf input) := by
  unfold replaceNames at h
  unfold segsOf
  cases hs : rloop {} (RF.CharClasses.classes input) with
  | none => rw [hs] at h; cases h
  | some s =>
    rw [hs] at h
    simp only at h ⊢
    obtain ⟨r1, n1, w1, v1, _, b1⟩ := rloop_inv _ _ _ wf_init hs
    have hin : List.map (·.2) (RF.CharClasses.classes input) = input :=
      RF.Lemmas.CharClasses.classes_map_snd input
    simp only [RState.pend, List.replicate_zero, List.nil_append, hin] at n1
    by_cases hc : (!s.curName.isEmpty) = true
    · simp only [hc, ite_true] at h ⊢
      obtain ⟨hr, hin', hsub, hsub', _, _⟩ := register_spec s
      injection h with h
      injection h with h1 h2
      subst h1 h2
      have hne : s.curName ≠ [] := by simpa using hc
      have hpos : 0 < s.dollarCount := by
        rcases Nat.eq_zero_or_pos s.dollarCount with h0 | h0
        · exact absurd (w1.zero h0) hne
        · exact h0
      refine ⟨by rw [hr, r1, flatZ_append]; simp, ?_, ?_, ?_⟩
      · have e : flatS [Seg.var s.dollarCount s.curName] = List.replicate s.dollarCount '$' ++ s.curName := by
          have : List.replicate (s.dollarCount - 1) '$' ++ ['$'] = List.replicate s.dollarCount '$' := by
            rw [replicate_snoc]
            congr 1
            omega
          simp only [flatD, Seg.flat, ite_true, List.append_nil]
          rw [show List.replicate (s.dollarCount - 1) '$' ++ '$' :: s.curName
              = (List.replicate (s.dollarCount - 1) '$' ++ ['$']) ++ s.curName by simp, this]
        rw [n1, flatS_append, e]
      · intro k m hm
        simp only [List.mem_append, List.mem_singleton] at hm
        rcases hm with hm | hm
        · exact hsub _ (v1 k m hm)
        · injection hm with hk hm'
          subst hk hm'
          exact hin'
      · intro e he
        rcases hsub' e he with h3 | h3
        · refine ⟨w1.substs e h3, ?_⟩
          rcases b1 e h3 with h4 | h4
          · simp at h4
          · simp [h4]
        · subst h3
          exact ⟨w1.name, by simp⟩
    · simp only [hc, Bool.false_eq_true, ite_false, List.append_nil] at h ⊢
      split at h
      · cases h
      · rename_i hd
        have hd0 : s.dollarCount = 0 := by omega
        injection h with h
        injection h with h1 h2
        subst h1 h2
        refine ⟨by rw [r1]; simp, ?_, v1, ?_⟩
        · rw [n1]
          simp [RState.pend, hd0, w1.zero hd0]
        · intro e he
          refine ⟨w1.substs e he, ?_⟩
          rcases b1 e he with h4 | h4
          · simp at h4
          · exact h4


/-! ## Part 3: what the formatter adds between the tokens is white space -/

def blankChar (c : Char) : Prop := c = ' ' ∨ c = '\n' ∨ c = '\t'

/-- every white-space piece consists of blanks, line feeds and tabs -/
def wsOk (ps : List Piece) : Prop := ∀ cs, Piece.ws cs ∈ ps → ∀ c ∈ cs, blankChar c

theorem wsOk_nil : wsOk [] := by intro cs h; cases h
theorem wsOk_append {a b : List Piece} : wsOk (a ++ b) ↔ wsOk a ∧ wsOk b := by
  unfold wsOk
  constructor
  · intro h
    exact ⟨fun cs hc => h cs (List.mem_append_left _ hc), fun cs hc => h cs (List.mem_append_right _ hc)⟩
  · intro ⟨h1, h2⟩ cs hc
    rcases List.mem_append.mp hc with hc | hc
    · exact h1 cs hc
    · exact h2 cs hc
theorem wsOk_cons_ft (t : FTok) {ps : List Piece} : wsOk (.ft t :: ps) ↔ wsOk ps := by
  unfold wsOk
  constructor
  · intro h cs hc; exact h cs (List.mem_cons_of_mem _ hc)
  · intro h cs hc
    rcases List.mem_cons.mp hc with hc | hc
    · cases hc
    · exact h cs hc
theorem wsOk_cons_ws (cs : List Char) {ps : List Piece} :
    wsOk (.ws cs :: ps) ↔ (∀ c ∈ cs, blankChar c) ∧ wsOk ps := by
  unfold wsOk
  constructor
  · intro h
    exact ⟨h cs List.mem_cons_self, fun x hx => h x (List.mem_cons_of_mem _ hx)⟩
  · intro ⟨h1, h2⟩ x hx
    rcases List.mem_cons.mp hx with hx | hx
    · injection hx with hx; subst hx; exact h1
    · exact h2 x hx
theorem wsOk_sp : wsOk [sp] := by
  rw [sp, wsOk_cons_ws]
  exact ⟨by intro c hc; simp at hc; exact Or.inl hc, wsOk_nil⟩
theorem wsOk_ptok (t : Tok) : wsOk [ptok t] := by
  rw [ptok, wsOk_cons_ft]; exact wsOk_nil
theorem wsOk_ptokc (d : Delim) : wsOk [.ft (.c d)] := by
  rw [wsOk_cons_ft]; exact wsOk_nil
theorem wsOk_single_ws {cs : List Char} (h : ∀ c ∈ cs, blankChar c) : wsOk [.ws cs] := by
  rw [wsOk_cons_ws]; exact ⟨h, wsOk_nil⟩

theorem mem_of_mem_dropLast {α : Type} {a : α} : ∀ {l : List α}, a ∈ l.dropLast → a ∈ l
  | [], h => by cases h
  | [_], h => by cases h
  | x :: y :: rest, h => by
    simp only [List.dropLast_cons₂] at h
    rcases List.mem_cons.mp h with h | h
    · exact h ▸ List.mem_cons_self
    · exact List.mem_cons_of_mem _ (mem_of_mem_dropLast h)

theorem wsOk_dropLast {ps : List Piece} (h : wsOk ps) : wsOk ps.dropLast := by
  intro cs hc
  exact h cs (mem_of_mem_dropLast hc)

theorem wsOk_popChar {ps : List Piece} (h : wsOk ps) : wsOk (popChar ps) := by
  unfold popChar
  split
  · exact wsOk_nil
  · rename_i cs hl
    split
    · exact wsOk_dropLast h
    · rw [wsOk_append]
      refine ⟨wsOk_dropLast h, wsOk_single_ws ?_⟩
      intro c hc
      exact h cs (List.mem_of_getLast? hl) c (mem_of_mem_dropLast hc)
  · split
    · exact wsOk_dropLast h
    · rw [wsOk_append]
      refine ⟨wsOk_dropLast h, ?_⟩
      rw [wsOk_cons_ft]; exact wsOk_nil
  · exact wsOk_dropLast h

theorem indent_blank {self : Indent} {config : Config} {offset : Nat} {s : List Char}
    (h : self.to_string_inner config offset = .ok s) : ∀ c ∈ s, blankChar c := by
  unfold Indent.to_string_inner at h
  simp only at h
  split at h
  · cases h
  · split at h
    · unfold sliceInclusive at h
      split at h
      · injection h with h
        subst h
        intro c hc
        have := List.mem_of_mem_drop (List.mem_of_mem_take hc)
        simp [INDENT_BUFFER] at this
        rcases this with h1 | h1
        · exact Or.inr (Or.inl h1)
        · exact Or.inl h1
      · cases h
    · injection h with h
      subst h
      intro c hc
      simp only [List.mem_append, List.mem_replicate] at hc
      rcases hc with (hc | hc) | hc
      · split at hc
        · simp at hc; exact Or.inr (Or.inl hc)
        · cases hc
      · exact Or.inr (Or.inr hc.2)
      · exact Or.inl hc.2

theorem liftPanic_indent_blank {self : Indent} {config : Config} {s : List Char}
    (h : liftPanic (self.to_string_with_newline config) = .ok s) : ∀ c ∈ s, blankChar c := by
  unfold liftPanic at h
  split at h
  · rename_i a ha
    injection h with h
    subst h
    exact indent_blank ha
  · cases h

mutual
def Arg.wsOk : Arg → Prop
  | .metaVar _ name => RF.MacroFmt.wsOk name
  | .repeat _ args another _ => argsWsOk args ∧ RF.MacroFmt.wsOk (another.getD [])
  | .delimited _ args => argsWsOk args
  | .separator s pre => RF.MacroFmt.wsOk s ∧ RF.MacroFmt.wsOk pre
  | .other inner pre => RF.MacroFmt.wsOk inner ∧ RF.MacroFmt.wsOk pre
def argsWsOk : List Arg → Prop
  | [] => True
  | a :: as => a.wsOk ∧ argsWsOk as
end

theorem argsWsOk_append {a b : List Arg} : argsWsOk (a ++ b) ↔ argsWsOk a ∧ argsWsOk b := by
  induction a with
  | nil => simp [argsWsOk]
  | cons x xs ih => simp [argsWsOk, ih, and_assoc]

theorem delimTokenToStr_ws {config : Config} {d : Delim} {shape : Shape} {multi ie : Bool}
    {lhs rhs : List Piece} (h : delimTokenToStr config d shape multi ie = .ok (lhs, rhs)) :
    wsOk lhs ∧ wsOk rhs := by
  have hpad : ∀ b : Bool, wsOk (if b then [sp] else []) := by
    intro b; cases b
    · exact wsOk_nil
    · exact wsOk_sp
  unfold delimTokenToStr at h
  simp only at h
  split at h
  · split at h
    · cases h
    · rename_i ind hind
      split at h
      · cases h
      · rename_i nested hnested
        injection h with h
        injection h with h1 h2
        subst h1; subst h2
        constructor
        · rw [wsOk_append, wsOk_cons_ft]
          exact ⟨hpad _, wsOk_single_ws (liftPanic_indent_blank hnested)⟩
        · rw [wsOk_cons_ws, wsOk_append]
          exact ⟨liftPanic_indent_blank hind, hpad _, wsOk_ptokc d⟩
  · injection h with h
    injection h with h1 h2
    subst h1; subst h2
    constructor
    · rw [wsOk_cons_ft]; exact hpad _
    · rw [wsOk_append]; exact ⟨hpad _, wsOk_ptokc d⟩


theorem wrapInnerWith_ws {config : Config} {shape : Shape} {multi : Bool}
    {loop : List Char → R (List Piece)} {ps : List Piece}
    (hl : ∀ s ps, (∀ c ∈ s, blankChar c) → loop s = .ok ps → wsOk ps)
    (h : wrapInnerWith config shape multi loop = .ok ps) : wsOk ps := by
  unfold wrapInnerWith at h
  split at h
  · cases h
  · rename_i ind hind
    split at h
    · cases h
    · rename_i result hr
      split at h
      · cases h
      · injection h with h
        subst h
        exact hl _ _ (liftPanic_indent_blank hind) hr

theorem rewriteDelimitedWith_ws {config : Config} {shape : Shape} {d : Delim}
    {wrap : Shape → R (List Piece)} {ps : List Piece}
    (hw : ∀ sh ps, wrap sh = .ok ps → wsOk ps)
    (h : rewriteDelimitedWith config shape d wrap = .ok ps) : wsOk ps := by
  unfold rewriteDelimitedWith at h
  split at h
  · cases h
  · rename_i inner hi
    split at h
    · cases h
    · rename_i lhs rhs hd
      have ⟨hl, hr⟩ := delimTokenToStr_ws hd
      split at h
      · injection h with h
        subst h
        rw [wsOk_append, wsOk_append]
        exact ⟨⟨hl, hw _ _ hi⟩, hr⟩
      · split at h
        · cases h
        · rename_i lhs2 rhs2 hd2
          have ⟨hl2, hr2⟩ := delimTokenToStr_ws hd2
          split at h
          · cases h
          · rename_i inner2 hi2
            injection h with h
            subst h
            rw [wsOk_append, wsOk_append]
            exact ⟨⟨hl2, hw _ _ hi2⟩, hr2⟩

theorem wrapGlue_ws (multi : Bool) (ind : List Char) (arg : Arg) (next : Option Arg)
    (X : List Piece) (hind : ∀ c ∈ ind, blankChar c) (hX : wsOk X) :
    wsOk (wrapGlue multi ind arg next X) := by
  have h1 : wsOk ((if arg.endsWithSpace = true then popChar X else X) ++ [Piece.ws ind]) := by
    rw [wsOk_append]
    refine ⟨?_, wsOk_single_ws hind⟩
    split
    · exact wsOk_popChar hX
    · exact hX
  have h2 : wsOk (X ++ [sp]) := wsOk_append.mpr ⟨hX, wsOk_sp⟩
  unfold wrapGlue
  cases next with
  | none =>
    simp only
    split
    · exact h1
    · exact hX
  | some n =>
    simp only
    split
    · exact h1
    · split
      · exact h2
      · exact hX

mutual
theorem rewriteArg_ws (config : Config) :
    ∀ (a : Arg) (shape : Shape) (ps : List Piece), a.wsOk → rewriteArg config shape a = .ok ps → wsOk ps
  | .metaVar ty name, shape, ps, ha, h => by
    simp [rewriteArg] at h
    subst h
    simp only [Arg.wsOk] at ha
    rw [ptok, wsOk_cons_ft, wsOk_append]
    exact ⟨ha, by rw [ptok, wsOk_cons_ft]; exact wsOk_ptok _⟩
  | .repeat d args another tok, shape, ps, ha, h => by
    simp only [rewriteArg] at h
    simp only [Arg.wsOk] at ha
    split at h
    · cases h
    · rename_i b hb
      injection h with h
      subst h
      have hT : wsOk b := by
        refine rewriteDelimitedWith_ws ?_ hb
        intro sh ps hps
        rcases retry_ok hps with h1 | h1
        · exact wrapInnerWith_ws (fun s ps hs hl => wrapLoop_ws config args sh false s [] ps ha.1 hs wsOk_nil hl) h1
        · exact wrapInnerWith_ws (fun s ps hs hl => wrapLoop_ws config args sh true s [] ps ha.1 hs wsOk_nil hl) h1
      rw [ptok, wsOk_cons_ft, wsOk_append, wsOk_append]
      exact ⟨⟨hT, ha.2⟩, wsOk_ptok _⟩
  | .delimited d args, shape, ps, ha, h => by
    simp only [rewriteArg] at h
    simp only [Arg.wsOk] at ha
    refine rewriteDelimitedWith_ws ?_ h
    intro sh ps hps
    rcases retry_ok hps with h1 | h1
    · exact wrapInnerWith_ws (fun s ps hs hl => wrapLoop_ws config args sh false s [] ps ha hs wsOk_nil hl) h1
    · exact wrapInnerWith_ws (fun s ps hs hl => wrapLoop_ws config args sh true s [] ps ha hs wsOk_nil hl) h1
  | .separator s pre, shape, ps, ha, h => by
    simp [rewriteArg] at h
    subst h
    simp only [Arg.wsOk] at ha
    rw [wsOk_append, wsOk_append]
    exact ⟨ha.2, ha.1, wsOk_sp⟩
  | .other inner pre, shape, ps, ha, h => by
    simp [rewriteArg] at h
    subst h
    simp only [Arg.wsOk] at ha
    rw [wsOk_append]
    exact ⟨ha.2, ha.1⟩
theorem wrapLoop_ws (config : Config) :
    ∀ (args : List Arg) (shape : Shape) (multi : Bool) (ind : List Char) (acc ps : List Piece),
      argsWsOk args → (∀ c ∈ ind, blankChar c) → wsOk acc →
      wrapLoop config shape multi ind acc args = .ok ps → wsOk ps
  | [], shape, multi, ind, acc, ps, _, _, hacc, h => by
    simp [wrapLoop] at h
    subst h
    exact hacc
  | arg :: rest, shape, multi, ind, acc, ps, ha, hind, hacc, h => by
    simp only [wrapLoop] at h
    simp only [argsWsOk] at ha
    split at h
    · cases h
    · rename_i r hr
      have hr' := rewriteArg_ws config arg shape r ha.1 hr
      exact wrapLoop_ws config rest shape multi ind _ ps ha.2 hind
        (wrapGlue_ws multi ind arg rest.head? _ hind (wsOk_append.mpr ⟨hacc, hr'⟩)) h
end

theorem wrapMacroArgs_ws {config : Config} {shape : Shape} {args : List Arg} {ps : List Piece}
    (ha : argsWsOk args) (h : wrapMacroArgs config shape args = .ok ps) : wsOk ps := by
  unfold wrapMacroArgs at h
  rcases retry_ok h with h1 | h1
  · exact wrapInnerWith_ws (fun s ps hs hl => wrapLoop_ws config args shape false s [] ps ha hs wsOk_nil hl) h1
  · exact wrapInnerWith_ws (fun s ps hs hl => wrapLoop_ws config args shape true s [] ps ha hs wsOk_nil hl) h1

/-- the parser state holds only blanks between its tokens -/
def PState.wsGood (s : PState) : Prop :=
  wsOk s.buf ∧ argsWsOk s.result ∧
  (match s.mode with | .rep _ args _ => argsWsOk args | _ => True)

theorem PState.wsOk_pre (s : PState) : wsOk s.pre := by
  unfold PState.pre
  split
  · exact wsOk_sp
  · exact wsOk_nil

theorem wsGood_init : PState.wsGood {} := ⟨wsOk_nil, trivial, trivial⟩

theorem stepTok_ws {s s' : PState} {t : Tok} (hg : s.wsGood) (h : stepTok s t = some s') :
    s'.wsGood := by
  obtain ⟨buf, startTok, isMetaVar, lastTok, result, mode⟩ := s
  obtain ⟨hb, hr, hm⟩ := hg
  simp only at hb hr hm
  cases mode with
  | frag c =>
    simp only [stepTok] at h
    split at h
    · injection h with h
      subst h
      exact ⟨wsOk_nil, argsWsOk_append.mpr ⟨hr, ⟨hb, trivial⟩⟩, trivial⟩
    · cases h
  | rep d args buffer =>
    cases buffer with
    | none =>
      simp only [stepTok] at h
      split at h
      · simp at h
        subst h
        exact ⟨hb, argsWsOk_append.mpr ⟨hr, ⟨⟨hm, wsOk_nil⟩, trivial⟩⟩, trivial⟩
      · split at h
        · cases h
        · simp at h
          subst h
          exact ⟨hb, hr, hm⟩
    | some b =>
      simp only [stepTok] at h
      split at h
      · split at h
        · cases h
        · simp at h
          subst h
          refine ⟨hb, argsWsOk_append.mpr ⟨hr, ⟨⟨hm, ?_⟩, trivial⟩⟩, trivial⟩
          split
          · exact wsOk_nil
          · exact wsOk_ptok b
      · split at h
        · cases h
        · simp at h
  | normal =>
    simp only [stepTok] at h
    split at h
    · split at h
      · cases h
      · injection h with h
        subst h
        split
        · exact ⟨wsOk_nil, argsWsOk_append.mpr ⟨hr, ⟨⟨hb, PState.wsOk_pre _⟩, trivial⟩⟩, trivial⟩
        · exact ⟨hb, hr, trivial⟩
    · split at h
      · injection h with h
        subst h
        exact ⟨hb, hr, trivial⟩
      · split at h
        · cases h
        · injection h with h
          subst h
          obtain ⟨mid, hbuf, hmid, hres, hmode, _, hmid2⟩ :=
            updateBuffer_spec ⟨buf, startTok, isMetaVar, lastTok, result, .normal⟩ t
          have hmid' : wsOk mid := by
            rcases hmid2 with rfl | rfl
            · exact wsOk_nil
            · exact wsOk_sp
          generalize PState.updateBuffer ⟨buf, startTok, isMetaVar, lastTok, result, .normal⟩ t = u at *
          obtain ⟨ubuf, ust, umv, ult, ures, umode⟩ := u
          simp at hbuf hres hmode
          subst hbuf hres hmode
          exact ⟨wsOk_append.mpr ⟨hb, wsOk_append.mpr ⟨hmid', wsOk_ptok t⟩⟩, hr, trivial⟩

theorem stepDelim_ws {s s' : PState} {d : Delim} {sub : Option (List Arg)}
    (hsub : ∀ args, sub = some args → argsWsOk args) (hg : s.wsGood)
    (h : stepDelim s d sub = some s') : s'.wsGood := by
  obtain ⟨buf, startTok, isMetaVar, lastTok, result, mode⟩ := s
  obtain ⟨hb, hr, _⟩ := hg
  simp only at hb hr
  cases mode with
  | frag c => simp [stepDelim] at h
  | rep d args buffer => simp [stepDelim] at h
  | normal =>
    cases sub with
    | none =>
      simp only [stepDelim] at h
      split at h <;> simp_all
    | some args =>
      have ha := hsub args rfl
      by_cases hbe : (PState.bufEmpty ⟨buf, startTok, isMetaVar, lastTok, result, .normal⟩) = true
      · cases isMetaVar with
        | true =>
          simp [stepDelim, hbe] at h
          subst h
          exact ⟨hb, hr, ha⟩
        | false =>
          simp [stepDelim, hbe] at h
          subst h
          exact ⟨hb, argsWsOk_append.mpr ⟨hr, ⟨ha, trivial⟩⟩, trivial⟩
      · have hb' : (PState.bufEmpty ⟨buf, startTok, isMetaVar, lastTok, result, .normal⟩) = false := by
          simpa using hbe
        cases isMetaVar with
        | true => simp [stepDelim, hb'] at h
        | false =>
          by_cases hn : nextSpace lastTok = .always
          · simp [stepDelim, hb', hn, PState.addSeparator] at h
            subst h
            exact ⟨wsOk_nil, by
              simp only [argsWsOk_append, argsWsOk, Arg.wsOk]
              exact ⟨hr, ⟨hb, PState.wsOk_pre _⟩, ha, trivial⟩, trivial⟩
          · simp [stepDelim, hb', hn, PState.addOther] at h
            subst h
            exact ⟨wsOk_nil, by
              simp only [argsWsOk_append, argsWsOk, Arg.wsOk]
              exact ⟨hr, ⟨hb, PState.wsOk_pre _⟩, ha, trivial⟩, trivial⟩

theorem finish_ws {s : PState} {args : List Arg} (hg : s.wsGood) (h : finish s = some args) :
    argsWsOk args := by
  obtain ⟨buf, startTok, isMetaVar, lastTok, result, mode⟩ := s
  obtain ⟨hb, hr, _⟩ := hg
  simp only at hb hr
  cases mode with
  | frag c => simp [finish] at h
  | rep d a b => simp [finish] at h
  | normal =>
    simp only [finish] at h
    split at h
    · cases h
    · split at h
      · injection h with h
        subst h
        simp only [PState.addOther, argsWsOk_append, argsWsOk, Arg.wsOk]
        exact ⟨hr, ⟨hb, PState.wsOk_pre _⟩, trivial⟩
      · injection h with h
        subst h
        exact hr

mutual
theorem stepTT_ws : ∀ (t : TT) (s s' : PState), s.wsGood → stepTT s t = some s' → s'.wsGood
  | .tok t, s, s', hg, h => by
    simp only [stepTT] at h
    exact stepTok_ws hg h
  | .delim d inner, s, s', hg, h => by
    simp only [stepTT] at h
    refine stepDelim_ws ?_ hg h
    intro args hargs
    split at hargs
    · cases hargs
    · rename_i sub hsub
      exact finish_ws (parseList_ws inner {} sub wsGood_init hsub) hargs
theorem parseList_ws : ∀ (ts : List TT) (s s' : PState), s.wsGood → parseList s ts = some s' → s'.wsGood
  | [], s, s', hg, h => by
    simp [parseList] at h
    subst h
    exact hg
  | t :: ts, s, s', hg, h => by
    simp only [parseList] at h
    split at h
    · cases h
    · rename_i s1 h1
      exact parseList_ws ts s1 s' (stepTT_ws t s s1 hg h1) h
end

theorem parse_ws {ts : List TT} {args : List Arg} (h : parseMatcher ts = some args) : argsWsOk args := by
  unfold parseMatcher at h
  split at h
  · cases h
  · rename_i s hs
    exact finish_ws (parseList_ws ts {} s wsGood_init hs) h

end RF.MacroFmt
