import RF.Model.StringFmt
import RF.Lemmas.Shape
/-!
Helper lemmas for `RF/Props/StringFmt.lean`: index facts of `break_string` (every index the Rust code
slices with is in range, every step consumes at least one grapheme), and the shape of what
`break_string` returns.
-/
namespace RF.Lemmas.StringFmt
open RF.StringFmt

/-! ## `position` / `rposition` -/

theorem position_lt {p : Char → Bool} : ∀ {l : List Char} {i : Nat}, position p l = some i → i < l.length
  | [], i, h => by simp [position] at h
  | c :: r, i, h => by
    unfold position at h
    split at h
    · cases h; simp
    · cases hr : position p r with
      | none => simp [hr] at h
      | some j =>
        simp [hr] at h
        have := position_lt hr
        subst h
        simp; omega

/-- the element found satisfies `p`, nothing before it does -/
theorem position_spec {p : Char → Bool} : ∀ {l : List Char} {i : Nat}, position p l = some i →
    (∃ c, l[i]? = some c ∧ p c = true) ∧ ∀ j, j < i → ∀ c, l[j]? = some c → p c = false
  | [], i, h => by simp [position] at h
  | c :: r, i, h => by
    unfold position at h
    split at h
    · rename_i hc
      cases h
      exact ⟨⟨c, by simp, hc⟩, by intro j hj; omega⟩
    · rename_i hc
      cases hr : position p r with
      | none => simp [hr] at h
      | some j =>
        simp [hr] at h
        subst h
        obtain ⟨⟨d, hd, hpd⟩, hbefore⟩ := position_spec hr
        refine ⟨⟨d, by simpa using hd, hpd⟩, ?_⟩
        intro k hk e he
        cases k with
        | zero => simp at he; subst he; simpa using hc
        | succ k => exact hbefore k (by omega) e (by simpa using he)

theorem position_none {p : Char → Bool} : ∀ {l : List Char}, position p l = none → ∀ c ∈ l, p c = false
  | [], _, c, hc => by simp at hc
  | d :: r, h, c, hc => by
    unfold position at h
    split at h
    · simp at h
    · rename_i hd
      cases hr : position p r with
      | some j => simp [hr] at h
      | none =>
        rcases List.mem_cons.mp hc with rfl | hc'
        · simpa using hd
        · exact position_none hr c hc'

theorem rposition_lt {p : Char → Bool} : ∀ {l : List Char} {i : Nat}, rposition p l = some i → i < l.length
  | [], i, h => by simp [rposition] at h
  | c :: r, i, h => by
    unfold rposition at h
    cases hr : rposition p r with
    | some j =>
      simp [hr] at h
      have := rposition_lt hr
      subst h; simp; omega
    | none =>
      simp [hr] at h
      obtain ⟨_, rfl⟩ := h
      simp

/-- the element found satisfies `p`, nothing after it does -/
theorem rposition_spec {p : Char → Bool} : ∀ {l : List Char} {i : Nat}, rposition p l = some i →
    (∃ c, l[i]? = some c ∧ p c = true) ∧ ∀ j, i < j → ∀ c, l[j]? = some c → p c = false
  | [], i, h => by simp [rposition] at h
  | c :: r, i, h => by
    unfold rposition at h
    cases hr : rposition p r with
    | some j =>
      simp [hr] at h
      subst h
      obtain ⟨⟨d, hd, hpd⟩, hafter⟩ := rposition_spec hr
      refine ⟨⟨d, by simpa using hd, hpd⟩, ?_⟩
      intro k hk e he
      cases k with
      | zero => omega
      | succ k => exact hafter k (by omega) e (by simpa using he)
    | none =>
      simp [hr] at h
      obtain ⟨hc, rfl⟩ := h
      refine ⟨⟨c, by simp, hc⟩, ?_⟩
      intro k hk e he
      cases k with
      | zero => omega
      | succ k =>
        have hn := rposition_none hr
        have : e ∈ r := List.mem_of_getElem? (by simpa using he)
        exact hn e this
where
  rposition_none {p : Char → Bool} : ∀ {l : List Char}, rposition p l = none → ∀ c ∈ l, p c = false
    | [], _, c, hc => by simp at hc
    | d :: r, h, c, hc => by
      unfold rposition at h
      cases hr : rposition p r with
      | some j => simp [hr] at h
      | none =>
        simp [hr] at h
        rcases List.mem_cons.mp hc with rfl | hc'
        · simpa using h
        · exact rposition_none hr c hc'

theorem rposition_none {p : Char → Bool} {l : List Char} (h : rposition p l = none) : ∀ c ∈ l, p c = false :=
  rposition_spec.rposition_none h

/-! ## `scanRight` -/

/-- white space that is not a line feed: what `break_at` skips on both sides of the break -/
def blank (c : Char) : Bool := isWs c && !isNl c

theorem notWsExceptLf_false {c : Char} : notWsExceptLf c = false ↔ blank c = true := by
  unfold notWsExceptLf blank
  cases isNl c <;> cases isWs c <;> simp

theorem scanRight_stop {te : Bool} : ∀ {l : List Char} {k i : Nat}, scanRight te l k = .stop i →
    ∃ ws c rest, l = ws ++ c :: rest ∧ i = k + ws.length ∧ ws.all blank = true ∧
      notWsExceptLf c = true ∧ (te = false → isNl c = false)
  | [], k, i, h => by simp [scanRight] at h
  | g :: r, k, i, h => by
    unfold scanRight at h
    split at h
    · cases h
    · rename_i h1
      split at h
      · rename_i h2
        cases h
        refine ⟨[], g, r, rfl, by simp, by simp, h2, ?_⟩
        intro hte
        subst hte
        simpa using h1
      · rename_i h2
        obtain ⟨ws, c, rest, rfl, hi, hws, hc, hnl⟩ := scanRight_stop h
        refine ⟨g :: ws, c, rest, rfl, by simp; omega, ?_, hc, hnl⟩
        have : blank g = true := notWsExceptLf_false.mp (by simpa using h2)
        simp [this, hws]

theorem scanRight_feed {te : Bool} : ∀ {l : List Char} {k i : Nat}, scanRight te l k = .feed i →
    ∃ ws rest, l = ws ++ '\n' :: rest ∧ i = k + ws.length ∧ ws.all blank = true ∧ te = false
  | [], k, i, h => by simp [scanRight] at h
  | g :: r, k, i, h => by
    unfold scanRight at h
    split at h
    · rename_i h1
      cases h
      simp only [Bool.and_eq_true, Bool.not_eq_eq_eq_not, Bool.not_true] at h1
      obtain ⟨hte, hg⟩ := h1
      have : g = '\n' := by simpa [isNl] using hg
      subst this
      exact ⟨[], r, rfl, by simp, by simp, hte⟩
    · rename_i h1
      split at h
      · cases h
      · rename_i h2
        obtain ⟨ws, rest, rfl, hi, hws, hte⟩ := scanRight_feed h
        refine ⟨g :: ws, rest, rfl, by simp; omega, ?_, hte⟩
        have : blank g = true := notWsExceptLf_false.mp (by simpa using h2)
        simp [this, hws]

theorem scanRight_exhausted {te : Bool} : ∀ {l : List Char} {k : Nat}, scanRight te l k = .exhausted →
    l.all blank = true
  | [], _, _ => by simp
  | g :: r, k, h => by
    unfold scanRight at h
    split at h
    · cases h
    · split at h
      · cases h
      · rename_i h2
        have : blank g = true := notWsExceptLf_false.mp (by simpa using h2)
        simp [this, scanRight_exhausted h]

/-! ## `max_width_index_in_input` -/

theorem maxWidthIndexGo_range (mw : Nat) : ∀ (l : List Char) (i w ci : Nat), l ≠ [] →
    i ≤ maxWidthIndexGo mw l i w ci ∧ maxWidthIndexGo mw l i w ci < i + l.length
  | [], _, _, _, h => absurd rfl h
  | g :: r, i, w, ci, _ => by
    unfold maxWidthIndexGo
    split
    · simp
    · cases r with
      | nil => simp [maxWidthIndexGo]
      | cons g' r' =>
        have := maxWidthIndexGo_range mw (g' :: r') (i + 1) (w + cw g) i (by simp)
        simp only [List.length_cons] at this ⊢
        omega

theorem maxWidthIndex_lt (mw : Nat) (l : List Char) (h : l ≠ []) : maxWidthIndex mw l < l.length := by
  have := maxWidthIndexGo_range mw l 0 0 0 h
  unfold maxWidthIndex
  omega

theorem maxWidthIndex_nil (mw : Nat) : maxWidthIndex mw [] = 0 := rfl

/-- a non-zero index means a non-empty input -/
theorem ne_nil_of_maxWidthIndex {mw : Nat} {l : List Char} (h : maxWidthIndex mw l ≠ 0) : l ≠ [] := by
  intro hl; subst hl; exact h rfl

/-! ## the boundary searches -/

theorem lastValidBelow_lt {input : List Char} : ∀ {n i : Nat}, lastValidBelow input n = some i →
    i < n ∧ isValidLinebreak input i = true
  | 0, _, h => by simp [lastValidBelow] at h
  | n + 1, i, h => by
    unfold lastValidBelow at h
    split at h
    · rename_i hv
      cases h
      exact ⟨by omega, hv⟩
    · have := lastValidBelow_lt h
      exact ⟨by omega, this.2⟩

theorem firstValidFrom_range {input : List Char} : ∀ {count pos i : Nat}, firstValidFrom input pos count = some i →
    pos ≤ i ∧ i < pos + count ∧ isValidLinebreak input i = true
  | 0, _, _, h => by simp [firstValidFrom] at h
  | count + 1, pos, i, h => by
    unfold firstValidFrom at h
    split at h
    · rename_i hv
      cases h
      exact ⟨by omega, by omega, hv⟩
    · have := firstValidFrom_range h
      exact ⟨by omega, by omega, this.2.2⟩

/-! ## `detect_url` -/

theorem detectUrl_some {s : List Char} {index e : Nat} (h : detectUrl s index = some e) :
    (∃ pos, position isWs (s.drop index) = some pos ∧ e = index + pos - 1) ∨
      (position isWs (s.drop index) = none ∧ e = s.length - 1) := by
  unfold detectUrl at h
  simp at h
  obtain ⟨_, _, h⟩ := h
  cases hp : position isWs (s.drop index) with
  | none => rw [hp] at h; right; exact ⟨rfl, by cases h; rfl⟩
  | some pos => rw [hp] at h; left; exact ⟨pos, rfl, by cases h; rfl⟩

theorem detectUrl_lt {s : List Char} {index e : Nat} (hi : index < s.length) (h : detectUrl s index = some e) :
    e < s.length := by
  rcases detectUrl_some h with ⟨pos, hp, rfl⟩ | ⟨_, rfl⟩
  · have := position_lt hp
    simp at this
    omega
  · omega

/-- the grapheme after the end of a detected URL, if there is one, is white space -/
theorem detectUrl_next_ws {s : List Char} {index e : Nat} (hi : 1 ≤ index) (h : detectUrl s index = some e) :
    ∀ c, s[e + 1]? = some c → isWs c = true := by
  rcases detectUrl_some h with ⟨pos, hp, rfl⟩ | ⟨_, rfl⟩
  · obtain ⟨⟨d, hd, hpd⟩, _⟩ := position_spec hp
    intro c hc
    have he : index + pos - 1 + 1 = index + pos := by omega
    rw [he] at hc
    rw [List.getElem?_drop] at hd
    rw [hd] at hc
    cases hc
    exact hpd
  · intro c hc
    rcases List.getElem?_eq_some_iff.mp hc with ⟨hlt, _⟩
    omega

/-! ## `break_at` -/

theorem take_succ_of_getElem? {l : List Char} {i : Nat} {c : Char} (h : l[i]? = some c) :
    l.take (i + 1) = l.take i ++ [c] := by
  rw [List.take_add_one, h]; rfl

theorem drop_eq_cons_of_getElem? {l : List Char} {i : Nat} {c : Char} (h : l[i]? = some c) :
    l.drop i = c :: l.drop (i + 1) := by
  rcases List.getElem?_eq_some_iff.mp h with ⟨hlt, rfl⟩
  exact List.drop_eq_getElem_cons hlt

/-- `input.drop a = ws ++ rest` gives the corresponding `take`s -/
theorem take_add_of_drop_eq {l ws rest : List Char} {a : Nat} (ha : a ≤ l.length) (h : l.drop a = ws ++ rest) :
    l.take (a + ws.length) = l.take a ++ ws ∧ l.drop (a + ws.length) = rest := by
  have hl : l = l.take a ++ (ws ++ rest) := by rw [← h, List.take_append_drop]
  have hlen : (l.take a).length = a := by simp [Nat.min_eq_left ha]
  constructor
  · conv => lhs; rw [hl]
    rw [← List.append_assoc, List.take_append_of_le_length (by simp [hlen])]
    rw [List.take_of_length_le (by simp [hlen])]
  · conv => lhs; rw [hl]
    rw [← List.append_assoc, List.drop_append_of_le_length (by simp [hlen])]
    rw [List.drop_of_length_le (by simp [hlen])]
    simp

/-- The outcomes of the right half of `break_at`. -/
theorem breakAtRight_cases (te : Bool) (input : List Char) (index imw : Nat) (hi : index < input.length) :
    (∃ ws rest, input.drop (index + 1) = ws ++ '\n' :: rest ∧ ws.all blank = true ∧ te = false ∧
        breakAtRight te input index imw =
          .endWithLineFeed (input.take (index + 1) ++ ws ++ ['\n']) (index + 1 + ws.length + 1)) ∨
    (∃ ws c rest, input.drop (index + 1) = ws ++ c :: rest ∧ ws.all blank = true ∧ notWsExceptLf c = true ∧
        (te = false → isNl c = false) ∧
        breakAtRight te input index imw =
          .lineEnd (if te then input.take (imw + 1) else input.take (index + 1) ++ ws) (index + 1 + ws.length)) ∨
    ((input.drop (index + 1)).all blank = true ∧
        breakAtRight te input index imw =
          if te then .endOfInput (input.take (imw + 1)) else .endOfInput input) := by
  unfold breakAtRight
  cases hs : scanRight te (input.drop (index + 1)) 0 with
  | feed i =>
    left
    obtain ⟨ws, rest, hd, hi', hws, hte⟩ := scanRight_feed hs
    refine ⟨ws, rest, hd, hws, hte, ?_⟩
    have h1 := take_add_of_drop_eq (by omega) (show input.drop (index + 1) = ws ++ ('\n' :: rest) from hd)
    have h2 : input[index + 1 + ws.length]? = some '\n' := by
      have := congrArg (fun l => l[0]?) h1.2
      simpa [List.getElem?_drop] using this
    simp only [Nat.zero_add] at hi'
    subst hi'
    simp only
    rw [take_succ_of_getElem? h2, h1.1]
    congr 1
    omega
  | stop i =>
    right; left
    obtain ⟨ws, c, rest, hd, hi', hws, hc, hnl⟩ := scanRight_stop hs
    refine ⟨ws, c, rest, hd, hws, hc, hnl, ?_⟩
    have h1 := take_add_of_drop_eq (by omega) (show input.drop (index + 1) = ws ++ (c :: rest) from hd)
    simp only [Nat.zero_add] at hi'
    subst hi'
    cases te with
    | true => simp; omega
    | false =>
      simp only [Bool.false_eq_true, if_false]
      have : index + ws.length + 1 = index + 1 + ws.length := by omega
      rw [this, h1.1]
  | exhausted =>
    right; right
    exact ⟨scanRight_exhausted hs, by cases te <;> simp⟩

/-- `input[0..=index]` has a first line feed at `i`, or none. -/
theorem position_isNl_spec {l : List Char} {i : Nat} (h : position isNl l = some i) :
    l[i]? = some '\n' ∧ ∀ c ∈ l.take i, isNl c = false := by
  obtain ⟨⟨c, hc, hpc⟩, hb⟩ := position_spec h
  have : c = '\n' := by simpa [isNl] using hpc
  subst this
  refine ⟨hc, ?_⟩
  intro d hd
  obtain ⟨j, hj, rfl⟩ := List.getElem_of_mem hd
  have hj' : j < i := by simp at hj; omega
  apply hb j hj'
  rw [List.getElem_take]
  exact List.getElem?_eq_getElem _

/-- `index_minus_ws` of `break_at`. -/
def indexMinusWs (input : List Char) (index : Nat) : Nat :=
  (rposition notWsExceptLf (input.take (index + 1))).getD index

theorem indexMinusWs_le (input : List Char) (index : Nat) (hi : index < input.length) :
    indexMinusWs input index ≤ index := by
  unfold indexMinusWs
  cases h : rposition notWsExceptLf (input.take (index + 1)) with
  | none => simp
  | some j =>
    have := rposition_lt h
    simp at this
    simp; omega

/-- everything between `index_minus_ws` and `index` is blank -/
theorem indexMinusWs_blank (input : List Char) (index : Nat) :
    ((input.take (index + 1)).drop (indexMinusWs input index + 1)).all blank = true := by
  unfold indexMinusWs
  cases h : rposition notWsExceptLf (input.take (index + 1)) with
  | none =>
    have hn := rposition_none h
    simp only [Option.getD_none]
    rw [List.all_eq_true]
    intro c hc
    exact notWsExceptLf_false.mp (hn c (List.mem_of_mem_drop hc))
  | some j =>
    obtain ⟨_, hafter⟩ := rposition_spec h
    simp only [Option.getD_some]
    rw [List.all_eq_true]
    intro c hc
    obtain ⟨k, hk, rfl⟩ := List.getElem_of_mem hc
    apply notWsExceptLf_false.mp
    apply hafter (j + 1 + k) (by omega)
    rw [List.getElem_drop]
    exact List.getElem?_eq_getElem _

/-- The outcomes of `break_at`: a line feed in `input[0..=index]` ends the line there; otherwise the
white space to the right is taken in. -/
theorem breakAt_cases (te : Bool) (input : List Char) (index : Nat) (hi : index < input.length) :
    (∃ i, i ≤ indexMinusWs input index ∧ input[i]? = some '\n' ∧ (∀ c ∈ input.take i, isNl c = false) ∧
        breakAt te input index =
          .endWithLineFeed ((if te then trimEndWs (input.take i) else input.take i) ++ ['\n']) (i + 1)) ∨
    ((∀ c ∈ input.take (index + 1), isNl c = false) ∧
        breakAt te input index = breakAtRight te input index (indexMinusWs input index)) := by
  unfold breakAt
  simp only
  cases hp : position isNl (input.take (index + 1)) with
  | none =>
    right
    exact ⟨position_none hp, rfl⟩
  | some i =>
    left
    obtain ⟨hnl, hbefore⟩ := position_isNl_spec hp
    have hilt := position_lt hp
    simp at hilt
    have hi1 : i < index + 1 := by omega
    have hnl' : input[i]? = some '\n' := by
      rw [List.getElem?_take] at hnl
      simpa [hi1] using hnl
    have hbefore' : ∀ c ∈ input.take i, isNl c = false := by
      intro c hc
      apply hbefore c
      rw [List.take_take]
      rwa [Nat.min_eq_left (by omega)]
    -- the line feed is itself `not_whitespace_except_line_feed`, so `index_minus_ws` is at or after it
    have hle : i ≤ indexMinusWs input index := by
      unfold indexMinusWs
      cases hr : rposition notWsExceptLf (input.take (index + 1)) with
      | none =>
        have := rposition_none hr '\n' (List.mem_of_getElem? hnl)
        simp [notWsExceptLf, isNl] at this
      | some j =>
        obtain ⟨_, hafter⟩ := rposition_spec hr
        simp only [Option.getD_some]
        by_cases hji : j < i
        · have := hafter i hji '\n' hnl
          simp [notWsExceptLf, isNl] at this
        · omega
    refine ⟨i, hle, hnl', hbefore', ?_⟩
    have : i ≤ (rposition notWsExceptLf (List.take (index + 1) input)).getD index := hle
    simp [this]

/-! ## `break_string` -/

/-- Where `break_string` calls `break_at`: at a boundary grapheme, or directly before white space (or
at the last grapheme). -/
def CallSite (input : List Char) (index : Nat) : Prop :=
  isValidLinebreak input index = true ∨ ∀ c, input[index + 1]? = some c → isWs c = true

theorem isValidLinebreak_of_isWs {input : List Char} {i : Nat} {c : Char} (h : input[i]? = some c)
    (hc : isWs c = true) : isValidLinebreak input i = true := by
  unfold isValidLinebreak
  simp [h, hc]

theorem searchRight_cases (te : Bool) (input : List Char) (mwi : Nat) :
    searchRight te input mwi = .endOfInput input ∨
      ∃ index, index < input.length ∧ CallSite input index ∧ searchRight te input mwi = breakAt te input index := by
  unfold searchRight
  cases h : firstValidFrom input mwi (input.length - mwi) with
  | none => left; rfl
  | some index =>
    right
    obtain ⟨h1, h2, h3⟩ := firstValidFrom_range h
    exact ⟨index, by omega, Or.inl h3, rfl⟩

theorem searchPunct_cases (te : Bool) (input : List Char) (mwi : Nat) (hm : mwi < input.length) :
    searchPunct te input mwi = .endOfInput input ∨
      ∃ index, index < input.length ∧ CallSite input index ∧ searchPunct te input mwi = breakAt te input index := by
  unfold searchPunct
  cases h : lastValidBelow input mwi with
  | none => exact searchRight_cases te input mwi
  | some index =>
    obtain ⟨h1, h2⟩ := lastValidBelow_lt h
    simp only
    split
    · right; exact ⟨index, by omega, Or.inl h2, rfl⟩
    · exact searchRight_cases te input mwi

theorem searchBreak_cases (te : Bool) (input : List Char) (mwi : Nat) (hm : mwi < input.length) :
    searchBreak te input mwi = .endOfInput input ∨
      ∃ index, index < input.length ∧ CallSite input index ∧ searchBreak te input mwi = breakAt te input index := by
  unfold searchBreak
  cases h : rposition isWs (input.take mwi) with
  | none => exact searchPunct_cases te input mwi hm
  | some index =>
    have h1 := rposition_lt h
    simp only [List.length_take] at h1
    have h1' : index < mwi := by omega
    obtain ⟨⟨c, hc, hws⟩, _⟩ := rposition_spec h
    rw [List.getElem?_take] at hc
    simp only [h1', if_true] at hc
    simp only
    split
    · right; exact ⟨index, by omega, Or.inl (isValidLinebreak_of_isWs hc hws), rfl⟩
    · exact searchPunct_cases te input mwi hm

/-- `break_string` either gives up (`EndOfInput` with the whole input) or calls `break_at` at an index
inside the input: no slice of string.rs is out of range. -/
theorem breakString_cases (mw : Nat) (te : Bool) (le input : List Char) :
    breakString mw te le input = .endOfInput input ∨
      ∃ index, index < input.length ∧ CallSite input index ∧
        breakString mw te le input = breakAt te input index := by
  unfold breakString
  simp only
  split
  · left; rfl
  · rename_i hm
    have hne := ne_nil_of_maxWidthIndex hm
    have hlt := maxWidthIndex_lt mw input hne
    split
    · rename_i hcond
      right
      refine ⟨maxWidthIndex mw input - 1, by omega, Or.inr ?_, rfl⟩
      intro c hc
      have h1 : maxWidthIndex mw input - 1 + 1 = maxWidthIndex mw input := by omega
      rw [h1] at hc
      have : input.getD (maxWidthIndex mw input) ' ' = c := by simp [List.getD, hc]
      simp only [Bool.and_eq_true] at hcond
      rw [← this]
      exact hcond.2
    · cases hu : detectUrl input (maxWidthIndex mw input) with
      | some urlEnd =>
        right
        refine ⟨urlEnd, detectUrl_lt hlt hu, Or.inr ?_, rfl⟩
        exact detectUrl_next_ws (by omega) hu
      | none => exact searchBreak_cases te input _ hlt

/-- What one call of `break_string` returns, relative to its input (`te` = `trim_end`). -/
inductive Step (te : Bool) (input : List Char) : Snippet → Prop
  /-- the input cannot be broken -/
  | eoi : Step te input (.endOfInput input)
  /-- `trim_end`: only blanks follow the break point: the input without them, no next line -/
  | eoiTrim (m : Nat) : te = true → (input.drop m).all blank = true →
      Step te input (.endOfInput (input.take m))
  /-- `trim_end`: the line up to the first line feed, trimmed -/
  | feedTrim (i : Nat) : te = true → input[i]? = some '\n' → (∀ c ∈ input.take i, isNl c = false) →
      Step te input (.endWithLineFeed (trimEndWs (input.take i) ++ ['\n']) (i + 1))
  /-- no `trim_end`: the first `n` graphemes, the last of which is a line feed -/
  | feed (n : Nat) : te = false → 1 ≤ n → input[n - 1]? = some '\n' →
      Step te input (.endWithLineFeed (input.take n) n)
  /-- `trim_end`: `n` graphemes are read, the first `m` of them are the line, the others are blank;
  the line holds no line feed; the cut is next to a blank or a boundary -/
  | lineTrim (m n : Nat) : te = true → m ≤ n → 1 ≤ n → n ≤ input.length →
      ((input.take n).drop m).all blank = true → (∀ c ∈ input.take m, isNl c = false) →
      (m < n ∨ CallSite input (n - 1)) →
      Step te input (.lineEnd (input.take m) n)
  /-- no `trim_end`: the first `n` graphemes, without a line feed, not ending in a backslash, and the
  next grapheme is not white space -/
  | line (n : Nat) : te = false → 1 ≤ n → (∀ c ∈ input.take n, isNl c = false) →
      (∃ c, input[n - 1]? = some c ∧ c ≠ '\\') → (∃ d, input[n]? = some d ∧ isWs d = false) →
      Step te input (.lineEnd (input.take n) n)

theorem all_blank_no_nl {l : List Char} (h : l.all blank = true) : ∀ c ∈ l, isNl c = false := by
  intro c hc
  have := List.all_eq_true.mp h c hc
  unfold blank at this
  simp at this
  exact this.2

theorem isWs_backslash : isWs '\\' = false := by decide

theorem blank_ne_backslash {c : Char} (h : blank c = true) : c ≠ '\\' := by
  intro hc; subst hc; simp [blank, isWs_backslash] at h

theorem valid_ne_backslash {input : List Char} {i : Nat} {c : Char} (h : input[i]? = some c)
    (hv : isValidLinebreak input i = true) : c ≠ '\\' := by
  intro hc; subst hc
  unfold isValidLinebreak at hv
  simp [h, isWs_backslash] at hv

theorem drop_split (l : List Char) (a b : Nat) (hab : a ≤ b) (hb : b ≤ l.length) :
    l.drop a = (l.take b).drop a ++ l.drop b := by
  have h : (l.take b ++ l.drop b).drop a = (l.take b).drop a ++ l.drop b :=
    List.drop_append_of_le_length (by simp; omega)
  rwa [List.take_append_drop] at h

theorem mem_take_of_le {l : List Char} {a b : Nat} {d : Char} (hab : a ≤ b) (h : d ∈ l.take a) : d ∈ l.take b := by
  have : l.take a = (l.take b).take a := by rw [List.take_take, Nat.min_eq_left hab]
  rw [this] at h
  exact List.mem_of_mem_take h

theorem exists_concat_of_ne_nil {l : List Char} (h : l ≠ []) : ∃ l' z, l = l' ++ [z] :=
  ⟨l.dropLast, l.getLast h, (List.dropLast_concat_getLast h).symm⟩

theorem breakAt_step (te : Bool) (input : List Char) (index : Nat) (hi : index < input.length)
    (hcs : CallSite input index) : Step te input (breakAt te input index) := by
  rcases breakAt_cases te input index hi with ⟨i, hle, hnl, hbefore, heq⟩ | ⟨hnonl, heq⟩
  · rw [heq]
    cases te with
    | true => simpa using Step.feedTrim i rfl hnl hbefore
    | false =>
      simp only [Bool.false_eq_true, if_false]
      rw [← take_succ_of_getElem? hnl]
      exact Step.feed (i + 1) rfl (by omega) (by simpa using hnl)
  · rw [heq]
    have himw := indexMinusWs_le input index hi
    have hblank := indexMinusWs_blank input index
    rcases breakAtRight_cases te input index (indexMinusWs input index) hi with
      ⟨ws, rest, hd, hws, hte, heq2⟩ | ⟨ws, c, rest, hd, hws, hc, hcnl, heq2⟩ | ⟨hall, heq2⟩
    · -- a line feed behind blanks
      rw [heq2]
      subst hte
      have h1 := take_add_of_drop_eq (by omega) (show input.drop (index + 1) = ws ++ ('\n' :: rest) from hd)
      have h2 : input[index + 1 + ws.length]? = some '\n' := by
        have := congrArg (fun l => l[0]?) h1.2
        simpa [List.getElem?_drop] using this
      have h3 : input.take (index + 1 + ws.length + 1) = input.take (index + 1) ++ ws ++ ['\n'] := by
        rw [take_succ_of_getElem? h2, h1.1]
      rw [← h3]
      exact Step.feed _ rfl (by omega) (by simpa using h2)
    · rw [heq2]
      have h1 := take_add_of_drop_eq (by omega) (show input.drop (index + 1) = ws ++ (c :: rest) from hd)
      have h2 : input[index + 1 + ws.length]? = some c := by
        have := congrArg (fun l => l[0]?) h1.2
        simpa [List.getElem?_drop] using this
      have hlen : index + 1 + ws.length < input.length := (List.getElem?_eq_some_iff.mp h2).1
      cases te with
      | true =>
        simp only [if_true]
        refine Step.lineTrim (indexMinusWs input index + 1) (index + 1 + ws.length) rfl (by omega) (by omega)
          (by omega) ?_ ?_ ?_
        · -- the dropped part: blanks before `index`, then `ws`
          rw [h1.1, List.drop_append_of_le_length (by simp; omega), List.all_append, hblank, hws]; rfl
        · intro d hd'
          apply hnonl d
          exact mem_take_of_le (by omega) hd'
        · by_cases hw : ws.length = 0
          · by_cases hm : indexMinusWs input index < index
            · left; omega
            · right
              have : index + 1 + ws.length - 1 = index := by omega
              rw [this]; exact hcs
          · left; omega
      | false =>
        simp only [Bool.false_eq_true, if_false]
        rw [← h1.1]
        have hcws : isWs c = false := by
          have := hcnl rfl
          unfold notWsExceptLf at hc
          simpa [this] using hc
        refine Step.line _ rfl (by omega) ?_ ?_ ⟨c, h2, hcws⟩
        · intro d hd'
          rw [h1.1] at hd'
          rcases List.mem_append.mp hd' with h | h
          · exact hnonl d h
          · exact all_blank_no_nl hws d h
        · -- the last grapheme of the line is not a backslash
          by_cases hw : ws = []
          · subst hw
            simp only [List.length_nil, Nat.add_zero, Nat.add_sub_cancel]
            obtain ⟨e, he, _⟩ := List.getElem?_eq_some_iff.mpr ⟨hi, rfl⟩ |> fun h => (⟨input[index], h, trivial⟩ : ∃ e, input[index]? = some e ∧ True)
            refine ⟨e, he, ?_⟩
            rcases hcs with hv | hn
            · exact valid_ne_backslash he hv
            · have := hn c (by simpa using h2)
              rw [hcws] at this; cases this
          · obtain ⟨l', z, rfl⟩ := exists_concat_of_ne_nil hw
            refine ⟨z, ?_, blank_ne_backslash (by rw [List.all_append] at hws; have := (Bool.and_eq_true _ _ ▸ hws).2; simpa using this)⟩
            have h4 := congrArg (fun l => l[index + 1 + l'.length]?) h1.1
            rw [List.getElem?_take] at h4
            simp only [List.length_append, List.length_cons, List.length_nil] at h4 ⊢
            have hlt : index + 1 + l'.length < index + 1 + (l'.length + (0 + 1)) := by omega
            simp only [hlt, if_true] at h4
            have h5 : index + 1 + (l'.length + (0 + 1)) - 1 = index + 1 + l'.length := by omega
            rw [h5, h4]
            have hlen2 : (input.take (index + 1)).length = index + 1 := by simp; omega
            rw [List.getElem?_append_right (by omega), hlen2]
            simp
    · rw [heq2]
      cases te with
      | true =>
        simp only [if_true]
        refine Step.eoiTrim (indexMinusWs input index + 1) rfl ?_
        rw [drop_split input (indexMinusWs input index + 1) (index + 1) (by omega) (by omega),
          List.all_append, hblank, hall]; rfl
      | false => simpa using Step.eoi

/-- Every answer of `break_string` is one of the five shapes of `Step`. -/
theorem breakString_step (mw : Nat) (te : Bool) (le input : List Char) :
    Step te input (breakString mw te le input) := by
  rcases breakString_cases mw te le input with h | ⟨index, hi, hcs, h⟩
  · rw [h]; exact Step.eoi
  · rw [h]; exact breakAt_step te input index hi hcs

/-! ## progress and termination of the loop of `rewrite_string` -/

/-- `EndOfInput` carries the whole input (under `trim_end`: without the blanks at its end); the length read by the other two is at least one grapheme and
at most the input (`graphemes[cur_start..]` of the next turn is in range). -/
def lenOk (input : List Char) : Snippet → Prop
  | .endOfInput l => ∃ m, l = input.take m ∧ (input.drop m).all blank = true
  | .lineEnd _ n => 1 ≤ n ∧ n ≤ input.length
  | .endWithLineFeed _ n => 1 ≤ n ∧ n ≤ input.length

theorem Step.len_bounds {te : Bool} {input : List Char} {s : Snippet} (h : Step te input s) : lenOk input s := by
  cases h with
  | eoi => exact ⟨input.length, by simp, by simp⟩
  | eoiTrim m _ hb => exact ⟨m, rfl, hb⟩
  | feedTrim i _ hnl _ =>
    have := (List.getElem?_eq_some_iff.mp hnl).1
    exact ⟨by omega, by omega⟩
  | feed n _ h1 hnl =>
    have := (List.getElem?_eq_some_iff.mp hnl).1
    exact ⟨h1, by omega⟩
  | lineTrim m n _ _ h1 h2 _ _ _ => exact ⟨h1, h2⟩
  | line n _ h1 _ _ hd' =>
    obtain ⟨d, hd, _⟩ := hd'
    have := (List.getElem?_eq_some_iff.mp hd).1
    exact ⟨h1, by omega⟩

/-- The loop of `rewrite_string` ends before the fuel does: every turn consumes a grapheme. -/
theorem loop_isSome (k : LoopCfg) : ∀ (fuel : Nat) (rem acc : List Char) (curMax : Nat),
    rem.length < fuel → (loop k fuel rem acc curMax).isSome = true
  | 0, _, _, _, h => by omega
  | fuel + 1, rem, acc, curMax, h => by
    unfold loop
    split
    · rfl
    · have hs := breakString_step curMax k.trimEnd k.lineEnd rem
      have hb := hs.len_bounds
      split
      · rename_i line len heq
        rw [heq] at hb
        apply loop_isSome
        simp only [List.length_drop]
        simp only [lenOk] at hb
        omega
      · rename_i line len heq
        rw [heq] at hb
        simp only [lenOk] at hb
        split <;> (apply loop_isSome; simp only [List.length_drop]; omega)
      · rfl

/-! ## the value of a re-broken string literal -/

/-- one character of the scanner `strValueGo`: what it emits and the next state -/
def valStep : ValState → Char → List Char × ValState
  | .normal, c => if c == '\\' then ([], .esc) else ([c], .normal)
  | .esc, c => if c == '\n' then ([], .skip) else (['\\', c], .normal)
  | .skip, c => if isContWs c then ([], .skip) else if c == '\\' then ([], .esc) else ([c], .normal)

def valOut : ValState → List Char → List Char
  | _, [] => []
  | st, c :: r => (valStep st c).1 ++ valOut (valStep st c).2 r

def valEnd : ValState → List Char → ValState
  | st, [] => st
  | st, c :: r => valEnd (valStep st c).2 r

theorem strValueGo_cons (st : ValState) (c : Char) (r : List Char) :
    strValueGo st (c :: r) = (valStep st c).1 ++ strValueGo (valStep st c).2 r := by
  cases st <;> simp only [strValueGo, valStep] <;> (repeat' split) <;> simp_all

theorem strValueGo_append (st : ValState) (x y : List Char) :
    strValueGo st (x ++ y) = valOut st x ++ strValueGo (valEnd st x) y := by
  induction x generalizing st with
  | nil => simp [valOut, valEnd]
  | cons c r ih =>
    simp only [List.cons_append, strValueGo_cons, valOut, valEnd, ih, List.append_assoc]

theorem valEnd_append (st : ValState) (x y : List Char) : valEnd st (x ++ y) = valEnd (valEnd st x) y := by
  induction x generalizing st with
  | nil => rfl
  | cons c r ih => simp only [List.cons_append, valEnd, ih]

/-- after a character other than a backslash the scanner is not inside an escape -/
theorem valStep_ne_esc (st : ValState) {c : Char} (hc : c ≠ '\\') : (valStep st c).2 ≠ .esc := by
  cases st <;> simp only [valStep] <;> (repeat' split) <;> simp_all

theorem valEnd_ne_esc (st : ValState) {x : List Char} {c : Char} (hc : c ≠ '\\') :
    valEnd st (x ++ [c]) ≠ .esc := by
  rw [valEnd_append]
  simp only [valEnd]
  exact valStep_ne_esc _ hc

theorem isWs_of_isContWs {c : Char} (h : isContWs c = true) : isWs c = true := by
  unfold isContWs at h
  simp only [Bool.or_eq_true, beq_iff_eq] at h
  rcases h with ((rfl | rfl) | rfl) | rfl <;> decide

/-- in the white space a continuation swallows, more of it changes nothing -/
theorem strValueGo_skip_ws (ws y : List Char) (h : ws.all isContWs = true) :
    strValueGo .skip (ws ++ y) = strValueGo .skip y := by
  induction ws with
  | nil => rfl
  | cons c r ih =>
    simp only [List.all_cons, Bool.and_eq_true] at h
    simp only [List.cons_append, strValueGo, h.1, if_true, ih h.2]

/-- A line continuation (backslash, line feed, white space) read outside an escape denotes nothing. -/
theorem strValueGo_continuation {st : ValState} (hst : st ≠ .esc) (ws y : List Char)
    (h : ws.all isContWs = true) : strValueGo st ('\\' :: '\n' :: (ws ++ y)) = strValueGo .skip y := by
  cases st with
  | esc => exact absurd rfl hst
  | normal => simp [strValueGo, strValueGo_skip_ws ws y h]
  | skip =>
    have : isContWs '\\' = false := by decide
    simp [strValueGo, this, strValueGo_skip_ws ws y h]

/-- before a character that a continuation does not swallow, "skipping" is the same as "normal" -/
theorem strValueGo_skip_eq {st : ValState} (hst : st ≠ .esc) {y : List Char}
    (hy : ∀ d r, y = d :: r → isContWs d = false) : strValueGo .skip y = strValueGo st y := by
  cases st with
  | esc => exact absurd rfl hst
  | skip => rfl
  | normal =>
    cases y with
    | nil => rfl
    | cons d r => simp [strValueGo, hy d r rfl]

/-- The format of a string literal as far as the loop is concerned: nothing is trimmed, a line ends in a
backslash, the next one starts after a line feed and blanks or tabs. -/
structure StringLike (k : LoopCfg) : Prop where
  trim : k.trimEnd = false
  lineEnd : k.lineEnd = ['\\']
  bare : k.bareOk = true
  indent : ∃ t, k.indentNl = '\n' :: t ∧ t.all isContWs = true
  lineStart : k.lineStart.all isContWs = true

theorem pushFit_verbatim (k : LoopCfg) (ht : k.trimEnd = false) (hb : k.bareOk = true) :
    ∀ (rem acc : List Char), pushFit k rem acc = rem.reverse ++ acc
  | [], acc => by simp [pushFit]
  | g :: r, acc => by
    unfold pushFit
    split
    · rename_i hg
      have hg' : g = '\n' := by simpa [isNl] using hg
      simp only [trimEndButLf, ht, hb]
      simp only [Bool.false_eq_true, if_false, Bool.not_true, Bool.false_and]
      rw [pushFit_verbatim k ht hb]
      simp [hg']
    · rw [pushFit_verbatim k ht hb]
      simp

/-- The loop of `rewrite_string` in the format of a string literal: what it appends to the buffer has the
value of what was left of the input, from any state of the scanner outside an escape. -/
theorem loop_value (k : LoopCfg) (hk : StringLike k) : ∀ (fuel : Nat) (rem acc : List Char) (curMax : Nat)
    (acc' : List Char), loop k fuel rem acc curMax = some acc' →
    ∃ mid, acc' = mid.reverse ++ acc ∧ ∀ st, st ≠ .esc → strValueGo st mid = strValueGo st rem
  | 0, _, _, _, _, h => by simp [loop] at h
  | fuel + 1, rem, acc, curMax, acc', h => by
    unfold loop at h
    split at h
    · -- everything fits
      cases h
      refine ⟨rem, ?_, fun _ _ => rfl⟩
      rw [pushFit_verbatim k hk.trim hk.bare]
      simp [trimEndButLf, hk.trim]
    · have hs := breakString_step curMax k.trimEnd k.lineEnd rem
      rw [hk.trim] at hs
      split at h
      · rename_i line len heq
        rw [hk.trim] at heq
        rw [heq] at hs
        cases hs with
        | lineTrim _ _ hte => cases hte
        | line _ _ h1 hnonl hlast hnext =>
          obtain ⟨mid', hacc, hval⟩ := loop_value k hk fuel _ _ _ _ h
          obtain ⟨t, hnl, ht⟩ := hk.indent
          refine ⟨rem.take len ++ ('\\' :: '\n' :: (t ++ k.lineStart ++ mid')), ?_, ?_⟩
          · rw [hacc, hk.lineEnd, hnl]
            simp [pushStr]
          · intro st hst
            obtain ⟨c, hc, hcb⟩ := hlast
            obtain ⟨d, hd, hdws⟩ := hnext
            have hn : len - 1 + 1 = len := by omega
            have htake : rem.take len = rem.take (len - 1) ++ [c] := by
              have := take_succ_of_getElem? hc
              rwa [hn] at this
            have hs1 : valEnd st (rem.take len) ≠ .esc := by
              rw [htake]; exact valEnd_ne_esc st hcb
            have hdrop : rem.drop len = d :: rem.drop (len + 1) := drop_eq_cons_of_getElem? hd
            rw [strValueGo_append]
            have hall : (t ++ k.lineStart).all isContWs = true := by
              rw [List.all_append, ht, hk.lineStart]; rfl
            rw [strValueGo_continuation hs1 (t ++ k.lineStart) mid' hall]
            rw [hval .skip (by simp)]
            rw [strValueGo_skip_eq hs1 (y := rem.drop len) (by
              intro d' r' hd'
              rw [hdrop] at hd'
              cases hd'
              cases hcw : isContWs d with
              | false => rfl
              | true => rw [isWs_of_isContWs hcw] at hdws; cases hdws)]
            rw [← strValueGo_append, List.take_append_drop]
      · rename_i line len heq
        rw [hk.trim] at heq
        rw [heq] at hs
        cases hs with
        | feedTrim _ hte => cases hte
        | feed _ _ h1 hnl =>
          simp only [hk.bare, if_true] at h
          obtain ⟨mid', hacc, hval⟩ := loop_value k hk fuel _ _ _ _ h
          refine ⟨rem.take len ++ mid', ?_, ?_⟩
          · rw [hacc]
            simp [feedAcc, hk.trim, pushStr]
          · intro st hst
            have hn : len - 1 + 1 = len := by omega
            have htake : rem.take len = rem.take (len - 1) ++ ['\n'] := by
              have := take_succ_of_getElem? hnl
              rwa [hn] at this
            have hs1 : valEnd st (rem.take len) ≠ .esc := by
              rw [htake]; exact valEnd_ne_esc st (by decide)
            rw [strValueGo_append, hval _ hs1, ← strValueGo_append, List.take_append_drop]
      · rename_i line heq
        rw [hk.trim] at heq
        rw [heq] at hs
        cases h
        cases hs with
        | eoi => exact ⟨rem, by simp [pushStr], fun _ _ => rfl⟩
        | eoiTrim _ hte _ => cases hte

/-! ## the regex against Rust's reading of a line continuation -/

/-- How the matcher (`stripGo`), the scanner over what the matcher has emitted (`vo`) and the scanner over
the original text (`vi`) stand to each other between two characters. -/
inductive StripRel : ReState → ValState → ValState → Prop
  | start (v : ValState) : StripRel .start v v
  | even (v : ValState) : v ≠ .esc → StripRel .even v v
  | odd (v : ValState) : v ≠ .esc → StripRel .odd v .esc
  | space (v : ValState) : v ≠ .esc → StripRel .space v .skip
  | spaceBs (v : ValState) : v ≠ .esc → StripRel .spaceBs v .esc

theorem isContWs_backslash : isContWs '\\' = false := by decide
theorem isContWs_nl : isContWs '\n' = true := by decide

/-- Stripping the continuations the regex finds does not change the value, as long as there is no bare
carriage return (the regex takes backslash-CR for a continuation, Rust does not). -/
theorem strip_sim : ∀ (s : List Char), (∀ c ∈ s, c ≠ '\r') → ∀ (rs : ReState) (vo vi : ValState),
    StripRel rs vo vi → strValueGo vo (stripGo rs s) = strValueGo vi s
  | [], _, rs, vo, vi, hr => by
    cases hr with
    | start _ => cases vo <;> rfl
    | even _ _ => cases vo <;> rfl
    | odd _ hv => cases vo <;> first | rfl | exact absurd rfl hv
    | space _ hv => cases vo <;> first | rfl | exact absurd rfl hv
    | spaceBs _ hv => cases vo <;> first | rfl | exact absurd rfl hv
  | c :: r, hcr, rs, vo, vi, hr => by
    have hc : c ≠ '\r' := hcr c (by simp)
    have hr' : ∀ d ∈ r, d ≠ '\r' := fun d hd => hcr d (by simp [hd])
    have ih := fun rs vo vi h => strip_sim r hr' rs vo vi h
    by_cases h1 : c = '\\'
    · subst h1
      cases hr with
      | start _ =>
        simp only [stripGo, beq_self_eq_true, if_true]
        cases vo with
        | normal => simp only [strValueGo, beq_self_eq_true, if_true]; exact ih _ _ _ (.start _)
        | esc =>
          have : ('\\' == '\n') = false := by decide
          simp only [strValueGo, this, Bool.false_eq_true, if_false]
          rw [ih _ _ _ (.start _)]
        | skip =>
          simp only [strValueGo, isContWs_backslash, Bool.false_eq_true, if_false, beq_self_eq_true, if_true]
          exact ih _ _ _ (.start _)
      | even _ hv =>
        simp only [stripGo, beq_self_eq_true, if_true]
        cases vo with
        | normal => simp only [strValueGo, beq_self_eq_true, if_true]; exact ih _ _ _ (.odd _ hv)
        | esc => exact absurd rfl hv
        | skip =>
          simp only [strValueGo, isContWs_backslash, Bool.false_eq_true, if_false, beq_self_eq_true, if_true]
          exact ih _ _ _ (.odd _ hv)
      | odd _ hv =>
        have h2 : ('\\' == '\n') = false := by decide
        simp only [stripGo, beq_self_eq_true, if_true]
        cases vo with
        | normal =>
          simp only [strValueGo, beq_self_eq_true, if_true, h2, Bool.false_eq_true, if_false]
          rw [ih _ _ _ (.even _ (by simp))]
        | esc => exact absurd rfl hv
        | skip =>
          simp only [strValueGo, isContWs_backslash, Bool.false_eq_true, if_false, beq_self_eq_true, if_true, h2]
          rw [ih _ _ _ (.even _ (by simp))]
      | space _ hv =>
        simp only [stripGo, isContWs_backslash, Bool.false_eq_true, if_false, beq_self_eq_true, if_true]
        simp only [strValueGo, isContWs_backslash, Bool.false_eq_true, if_false, beq_self_eq_true, if_true]
        exact ih _ _ _ (.spaceBs _ hv)
      | spaceBs _ hv =>
        have h2 : ('\\' == '\n') = false := by decide
        have h3 : ('\\' == '\r') = false := by decide
        simp only [stripGo, h2, h3, Bool.or_self, Bool.false_eq_true, if_false, beq_self_eq_true, if_true]
        cases vo with
        | normal =>
          simp only [strValueGo, beq_self_eq_true, if_true, h2, Bool.false_eq_true, if_false]
          rw [ih _ _ _ (.start _)]
        | esc => exact absurd rfl hv
        | skip =>
          simp only [strValueGo, isContWs_backslash, Bool.false_eq_true, if_false, beq_self_eq_true, if_true, h2]
          rw [ih _ _ _ (.start _)]
    · have hb : (c == '\\') = false := by simpa using h1
      by_cases h2 : c = '\n'
      · subst h2
        have hnr : ('\n' == '\r') = false := by decide
        cases hr with
        | start _ =>
          simp only [stripGo, hb, Bool.false_eq_true, if_false]
          cases vo with
          | normal => simp only [strValueGo, hb, Bool.false_eq_true, if_false]; rw [ih _ _ _ (.even _ (by simp))]
          | esc => simp only [strValueGo, beq_self_eq_true, if_true]; exact ih _ _ _ (.even _ (by simp))
          | skip => simp only [strValueGo, isContWs_nl, if_true]; exact ih _ _ _ (.even _ (by simp))
        | even _ hv =>
          simp only [stripGo, hb, Bool.false_eq_true, if_false]
          cases vo with
          | normal => simp only [strValueGo, hb, Bool.false_eq_true, if_false]; rw [ih _ _ _ (.even _ (by simp))]
          | esc => exact absurd rfl hv
          | skip => simp only [strValueGo, isContWs_nl, if_true]; exact ih _ _ _ (.even _ (by simp))
        | odd _ hv =>
          simp only [stripGo, hb, Bool.false_eq_true, if_false, beq_self_eq_true, Bool.true_or, if_true]
          simp only [strValueGo, beq_self_eq_true, if_true]
          exact ih _ _ _ (.space _ hv)
        | space _ hv =>
          simp only [stripGo, isContWs_nl, if_true]
          simp only [strValueGo, isContWs_nl, if_true]
          exact ih _ _ _ (.space _ hv)
        | spaceBs _ hv =>
          simp only [stripGo, beq_self_eq_true, Bool.true_or, if_true]
          simp only [strValueGo, beq_self_eq_true, if_true]
          exact ih _ _ _ (.space _ hv)
      · have hn : (c == '\n') = false := by simpa using h2
        have hcr' : (c == '\r') = false := by simpa using hc
        cases hr with
        | start _ =>
          simp only [stripGo, hb, Bool.false_eq_true, if_false]
          cases vo with
          | normal => simp only [strValueGo, hb, Bool.false_eq_true, if_false]; rw [ih _ _ _ (.even _ (by simp))]
          | esc =>
            simp only [strValueGo, hn, Bool.false_eq_true, if_false]
            rw [ih _ _ _ (.even _ (by simp))]
          | skip =>
            cases hw : isContWs c with
            | true => simp only [strValueGo, hw, if_true]; exact ih _ _ _ (.even _ (by simp))
            | false =>
              simp only [strValueGo, hw, hb, Bool.false_eq_true, if_false]
              rw [ih _ _ _ (.even _ (by simp))]
        | even _ hv =>
          simp only [stripGo, hb, Bool.false_eq_true, if_false]
          cases vo with
          | normal => simp only [strValueGo, hb, Bool.false_eq_true, if_false]; rw [ih _ _ _ (.even _ (by simp))]
          | esc => exact absurd rfl hv
          | skip =>
            cases hw : isContWs c with
            | true => simp only [strValueGo, hw, if_true]; exact ih _ _ _ (.even _ (by simp))
            | false =>
              simp only [strValueGo, hw, hb, Bool.false_eq_true, if_false]
              rw [ih _ _ _ (.even _ (by simp))]
        | odd _ hv =>
          simp only [stripGo, hb, hn, hcr', Bool.false_eq_true, if_false, Bool.or_self]
          cases vo with
          | normal =>
            simp only [strValueGo, beq_self_eq_true, if_true, hn, Bool.false_eq_true, if_false]
            rw [ih _ _ _ (.even _ (by simp))]
          | esc => exact absurd rfl hv
          | skip =>
            simp only [strValueGo, isContWs_backslash, beq_self_eq_true, if_true, hn, Bool.false_eq_true, if_false]
            rw [ih _ _ _ (.even _ (by simp))]
        | space _ hv =>
          cases hw : isContWs c with
          | true =>
            simp only [stripGo, hw, if_true]
            simp only [strValueGo, hw, if_true]
            exact ih _ _ _ (.space _ hv)
          | false =>
            simp only [stripGo, hw, hb, Bool.false_eq_true, if_false]
            cases vo with
            | normal =>
              simp only [strValueGo, hb, hw, Bool.false_eq_true, if_false]
              rw [ih _ _ _ (.even _ (by simp))]
            | esc => exact absurd rfl hv
            | skip =>
              simp only [strValueGo, hb, hw, Bool.false_eq_true, if_false]
              rw [ih _ _ _ (.even _ (by simp))]
        | spaceBs _ hv =>
          simp only [stripGo, hb, hn, hcr', Bool.false_eq_true, if_false, Bool.or_self]
          cases vo with
          | normal =>
            simp only [strValueGo, beq_self_eq_true, if_true, hn, Bool.false_eq_true, if_false]
            rw [ih _ _ _ (.even _ (by simp))]
          | esc => exact absurd rfl hv
          | skip =>
            simp only [strValueGo, isContWs_backslash, beq_self_eq_true, if_true, hn, Bool.false_eq_true, if_false]
            rw [ih _ _ _ (.even _ (by simp))]

theorem strValue_strip (s : List Char) (h : ∀ c ∈ s, c ≠ '\r') : strValue (stripLineBreaks s) = strValue s :=
  strip_sim s h .start .normal .normal (.start _)

/-! ## nothing but white space and decoration is added or removed -/

/-- `b` is `a` with blocks from `ds` inserted. -/
inductive Woven {α : Type} (ds : List (List α)) : List α → List α → Prop
  | nil : Woven ds [] []
  | keep (c : α) {a b : List α} : Woven ds a b → Woven ds (c :: a) (c :: b)
  | ins (d : List α) {a b : List α} : d ∈ ds → Woven ds a b → Woven ds a (d ++ b)

theorem Woven.refl {α : Type} (ds : List (List α)) : ∀ a, Woven ds a a
  | [] => .nil
  | c :: a => .keep c (Woven.refl ds a)

theorem Woven.append {α : Type} {ds : List (List α)} {a1 b1 a2 b2 : List α} (h1 : Woven ds a1 b1)
    (h2 : Woven ds a2 b2) : Woven ds (a1 ++ a2) (b1 ++ b2) := by
  induction h1 with
  | nil => simpa using h2
  | keep c _ ih => simpa using Woven.keep c ih
  | ins d hd _ ih => simpa [List.append_assoc] using Woven.ins d hd ih

theorem payload_append (a b : List Char) : payload (a ++ b) = payload a ++ payload b := by
  simp [payload]

theorem payload_reverse (a : List Char) : payload a.reverse = (payload a).reverse := by
  simp [payload, List.filter_reverse]

theorem payload_of_all_ws {a : List Char} (h : a.all isWs = true) : payload a = [] := by
  induction a with
  | nil => rfl
  | cons c r ih =>
    simp only [List.all_cons, Bool.and_eq_true] at h
    have := ih h.2
    simp only [payload] at this ⊢
    simp [h.1, this]

theorem payload_of_all_blank {a : List Char} (h : a.all blank = true) : payload a = [] := by
  apply payload_of_all_ws
  rw [List.all_eq_true] at h ⊢
  intro c hc
  have := h c hc
  unfold blank at this
  simp at this
  exact this.1

/-- dropping leading white space (of the reversed buffer: trailing white space) keeps the payload -/
theorem payload_dropWhile {q : Char → Bool} (hq : ∀ c, q c = true → isWs c = true) :
    ∀ l : List Char, payload (l.dropWhile q) = payload l
  | [] => rfl
  | c :: r => by
    simp only [List.dropWhile]
    cases hc : q c with
    | true =>
      simp only [payload_dropWhile hq r]
      simp [payload, hq c hc]
    | false => rfl

theorem payload_trimEndButLf (te : Bool) (acc : List Char) : payload (trimEndButLf te acc) = payload acc := by
  unfold trimEndButLf
  split
  · exact payload_dropWhile (by intro c hc; simp at hc; exact hc.1) acc
  · rfl

theorem payload_trimEndWs (l : List Char) : payload (trimEndWs l) = payload l := by
  unfold trimEndWs
  rw [payload_reverse, payload_dropWhile (fun _ h => h), payload_reverse, List.reverse_reverse]

theorem payload_pushStr (acc s : List Char) : payload (pushStr acc s).reverse = payload acc.reverse ++ payload s := by
  simp [pushStr, payload_append]

/-- the two decorations of a format: what stands between two lines, as payload -/
def decorations (k : LoopCfg) : List (List Char) :=
  [payload k.lineEnd ++ payload k.lineStart, payload k.lineStart]

/-- the indentation strings carry no payload -/
structure BlankIndent (k : LoopCfg) : Prop where
  nl : k.indentNl.all isWs = true
  noNl : k.indentNoNl.all isWs = true

theorem pushFit_payload (k : LoopCfg) (hk : BlankIndent k) : ∀ (rem acc : List Char),
    ∃ X, payload (pushFit k rem acc).reverse = payload acc.reverse ++ X ∧ Woven (decorations k) (payload rem) X
  | [], acc => ⟨[], by simp [pushFit], .nil⟩
  | g :: r, acc => by
    unfold pushFit
    split
    · rename_i hg
      have hgws : isWs g = true := by
        have : g = '\n' := by simpa [isNl] using hg
        subst this; decide
      have hp : payload (g :: r) = payload r := by simp [payload, hgws]
      have hnl : payload ('\n' :: trimEndButLf k.trimEnd acc).reverse = payload acc.reverse := by
        rw [payload_reverse]
        have : payload ('\n' :: trimEndButLf k.trimEnd acc) = payload acc := by
          have h0 : isWs '\n' = true := by decide
          simp only [payload, List.filter_cons, h0, Bool.not_true, Bool.false_eq_true, if_false]
          exact payload_trimEndButLf _ _
        rw [this, payload_reverse]
      simp only
      split
      · obtain ⟨X, hX, hW⟩ := pushFit_payload k hk r
          (pushStr (pushStr ('\n' :: trimEndButLf k.trimEnd acc) k.indentNoNl) k.lineStart)
        refine ⟨payload k.lineStart ++ X, ?_, ?_⟩
        · rw [hX, payload_pushStr, payload_pushStr, hnl, payload_of_all_ws hk.noNl]
          simp
        · rw [hp]
          exact Woven.ins _ (by simp [decorations]) hW
      · obtain ⟨X, hX, hW⟩ := pushFit_payload k hk r ('\n' :: trimEndButLf k.trimEnd acc)
        exact ⟨X, by rw [hX, hnl], by rw [hp]; exact hW⟩
    · obtain ⟨X, hX, hW⟩ := pushFit_payload k hk r (g :: acc)
      by_cases hgws : isWs g = true
      · refine ⟨X, ?_, ?_⟩
        · rw [hX]; simp [payload, hgws]
        · have hp : payload (g :: r) = payload r := by simp [payload, hgws]
          rw [hp]; exact hW
      · refine ⟨g :: X, ?_, ?_⟩
        · rw [hX]; simp [payload, hgws]
        · have hp : payload (g :: r) = g :: payload r := by simp [payload, hgws]
          rw [hp]; exact Woven.keep g hW

/-- the payload of the line a step returns is the payload of what it read -/
def payloadOk (input : List Char) : Snippet → Prop
  | .endOfInput l => payload l = payload input
  | .lineEnd l n => payload l = payload (input.take n)
  | .endWithLineFeed l n => payload l = payload (input.take n)

theorem Step.payload_line {te : Bool} {input : List Char} {s : Snippet} (h : Step te input s) :
    payloadOk input s := by
  cases h with
  | eoi => rfl
  | eoiTrim m _ hb =>
    simp only [payloadOk]
    conv => rhs; rw [← List.take_append_drop m input]
    rw [payload_append, payload_of_all_blank hb]; simp
  | feedTrim i _ hnl _ =>
    simp only [payloadOk]
    rw [take_succ_of_getElem? hnl, payload_append, payload_append, payload_trimEndWs]
  | feed n _ _ _ => rfl
  | lineTrim m n _ hmn _ hn hblank _ _ =>
    simp only [payloadOk]
    have : input.take n = input.take m ++ (input.take n).drop m := by
      have h1 : input.take m = (input.take n).take m := by rw [List.take_take, Nat.min_eq_left hmn]
      rw [h1, List.take_append_drop]
    rw [this, payload_append, payload_of_all_blank hblank]
    simp
  | line n _ _ _ _ _ => rfl

theorem payload_take_drop (l : List Char) (n : Nat) : payload (l.take n) ++ payload (l.drop n) = payload l := by
  rw [← payload_append, List.take_append_drop]

/-- The loop of `rewrite_string`, any format: the payload it appends to the buffer is the payload of what
was left of the input, with decorations woven in. -/
theorem loop_payload (k : LoopCfg) (hk : BlankIndent k) : ∀ (fuel : Nat) (rem acc : List Char) (curMax : Nat)
    (acc' : List Char), loop k fuel rem acc curMax = some acc' →
    ∃ X, payload acc'.reverse = payload acc.reverse ++ X ∧ Woven (decorations k) (payload rem) X
  | 0, _, _, _, _, h => by simp [loop] at h
  | fuel + 1, rem, acc, curMax, acc', h => by
    unfold loop at h
    split at h
    · cases h
      obtain ⟨X, hX, hW⟩ := pushFit_payload k hk rem acc
      exact ⟨X, by rw [payload_reverse, payload_trimEndButLf, ← payload_reverse, hX], hW⟩
    · have hs := (breakString_step curMax k.trimEnd k.lineEnd rem).payload_line
      split at h
      · rename_i line len heq
        rw [heq] at hs
        simp only [payloadOk] at hs
        obtain ⟨X, hX, hW⟩ := loop_payload k hk fuel _ _ _ _ h
        refine ⟨payload (rem.take len) ++ ((payload k.lineEnd ++ payload k.lineStart) ++ X), ?_, ?_⟩
        · rw [hX, payload_pushStr, payload_pushStr, payload_pushStr, payload_pushStr, hs,
            payload_of_all_ws hk.nl]
          simp
        · rw [← payload_take_drop rem len]
          exact Woven.append (Woven.refl _ _) (Woven.ins _ (by simp [decorations]) hW)
      · rename_i line len heq
        rw [heq] at hs
        simp only [payloadOk] at hs
        have hfeed : payload (feedAcc k acc line).reverse = payload acc.reverse ++ payload (rem.take len) := by
          unfold feedAcc
          rw [payload_pushStr, hs]
          split
          · rw [payload_reverse, payload_dropWhile (fun _ h => h), ← payload_reverse]
          · rfl
        split at h
        · obtain ⟨X, hX, hW⟩ := loop_payload k hk fuel _ _ _ _ h
          refine ⟨payload (rem.take len) ++ X, ?_, ?_⟩
          · rw [hX, hfeed]; simp
          · rw [← payload_take_drop rem len]
            exact Woven.append (Woven.refl _ _) hW
        · obtain ⟨X, hX, hW⟩ := loop_payload k hk fuel _ _ _ _ h
          refine ⟨payload (rem.take len) ++ (payload k.lineStart ++ X), ?_, ?_⟩
          · rw [hX, payload_pushStr, payload_pushStr, hfeed, payload_of_all_ws hk.noNl]; simp
          · rw [← payload_take_drop rem len]
            exact Woven.append (Woven.refl _ _) (Woven.ins _ (by simp [decorations]) hW)
      · rename_i line heq
        rw [heq] at hs
        simp only [payloadOk] at hs
        cases h
        exact ⟨payload line, by rw [payload_pushStr], by rw [← hs]; exact Woven.refl _ _⟩

/-- `rewrite_string` before `wrap_str`: the payload of the result is the payload of the opener, of the
stripped input with decorations woven in, and of the closer. -/
theorem rewriteRaw_payload (k : LoopCfg) (hk : BlankIndent k) (opener closer orig r : List Char)
    (h : rewriteRaw k opener closer orig = some r) :
    ∃ X, payload r = payload opener ++ X ++ payload closer ∧
      Woven (decorations k) (payload (stripLineBreaks orig)) X := by
  unfold rewriteRaw at h
  simp only at h
  cases hl : loop k ((stripLineBreaks orig).length + 1) (stripLineBreaks orig) opener.reverse k.mwWith with
  | none => simp [hl] at h
  | some acc' =>
    simp only [hl, Option.some.injEq] at h
    obtain ⟨X, hX, hW⟩ := loop_payload k hk _ _ _ _ _ hl
    refine ⟨X, ?_, hW⟩
    rw [← h, payload_pushStr, hX]
    simp


/-! ## the lines fit, unless nothing can be done -/

theorem width_append (a b : List Char) : width (a ++ b) = width a + width b := by
  induction a with
  | nil => simp [width]
  | cons c r ih => simp [width, ih]; omega

/-- before `max_width_index_in_input` every prefix fits -/
theorem maxWidthIndexGo_fits (mw : Nat) : ∀ (l : List Char) (i w ci : Nat) (j : Nat), ci ≤ i →
    j < maxWidthIndexGo mw l i w ci - i → w + width (l.take (j + 1)) ≤ mw
  | [], i, w, ci, j, hci, h => by
    simp [maxWidthIndexGo] at h
    omega
  | g :: r, i, w, ci, j, hci, h => by
    unfold maxWidthIndexGo at h
    split at h
    · omega
    · rename_i hle
      cases j with
      | zero => simp [width]; omega
      | succ j =>
        have hr : r ≠ [] := by
          intro hr; subst hr; simp [maxWidthIndexGo] at h
        have hrange := maxWidthIndexGo_range mw r (i + 1) (w + cw g) i hr
        have := maxWidthIndexGo_fits mw r (i + 1) (w + cw g) i j (by omega) (by omega)
        simp only [List.take_succ_cons, width]
        omega

theorem maxWidthIndex_fits (mw : Nat) (l : List Char) (j : Nat) (h : j < maxWidthIndex mw l) :
    width (l.take (j + 1)) ≤ mw := by
  have := maxWidthIndexGo_fits mw l 0 0 0 j (by omega) (by simpa [maxWidthIndex] using h)
  omega

/-- the reasons for which a line may be longer than the width: a URL is detected at the limit, or there is
no boundary (white space, or punctuation outside `::`) between `MIN_STRING` and the limit -/
def Unbreakable (mw : Nat) (input : List Char) : Prop :=
  (detectUrl input (maxWidthIndex mw input)).isSome = true ∨
    ∀ p, MIN_STRING ≤ p → p < maxWidthIndex mw input → isValidLinebreak input p = false

theorem lastValidBelow_none {input : List Char} : ∀ {n : Nat}, lastValidBelow input n = none →
    ∀ p, p < n → isValidLinebreak input p = false
  | 0, _, p, hp => by omega
  | n + 1, h, p, hp => by
    unfold lastValidBelow at h
    split at h
    · cases h
    · rename_i hv
      by_cases hpn : p = n
      · subst hpn; simpa using hv
      · exact lastValidBelow_none h p (by omega)

theorem lastValidBelow_max {input : List Char} : ∀ {n i : Nat}, lastValidBelow input n = some i →
    ∀ p, i < p → p < n → isValidLinebreak input p = false
  | 0, _, h, _, _, _ => by simp [lastValidBelow] at h
  | n + 1, i, h, p, hip, hp => by
    unfold lastValidBelow at h
    split at h
    · cases h; omega
    · rename_i hv
      by_cases hpn : p = n
      · subst hpn; simpa using hv
      · exact lastValidBelow_max h p hip (by omega)

/-- `break_string` breaks before the limit, or the input is `Unbreakable` there. -/
theorem breakString_cases_fits (mw : Nat) (te : Bool) (le input : List Char) :
    breakString mw te le input = .endOfInput input ∨
      ∃ index, index < input.length ∧ (index < maxWidthIndex mw input ∨ Unbreakable mw input) ∧
        breakString mw te le input = breakAt te input index := by
  unfold breakString
  simp only
  split
  · left; rfl
  · rename_i hm
    have hne := ne_nil_of_maxWidthIndex hm
    have hlt := maxWidthIndex_lt mw input hne
    split
    · right
      exact ⟨maxWidthIndex mw input - 1, by omega, Or.inl (by omega), rfl⟩
    · cases hu : detectUrl input (maxWidthIndex mw input) with
      | some urlEnd =>
        right
        exact ⟨urlEnd, detectUrl_lt hlt hu, Or.inr (Or.inl (by simp [hu])), rfl⟩
      | none =>
        simp only
        have hright : searchRight te input (maxWidthIndex mw input) = .endOfInput input ∨
            ∃ index, index < input.length ∧ searchRight te input (maxWidthIndex mw input) = breakAt te input index := by
          rcases searchRight_cases te input (maxWidthIndex mw input) with h | ⟨i, hi, _, h⟩
          · exact Or.inl h
          · exact Or.inr ⟨i, hi, h⟩
        have hpunct : searchPunct te input (maxWidthIndex mw input) = .endOfInput input ∨
            ∃ index, index < input.length ∧ (index < maxWidthIndex mw input ∨ Unbreakable mw input) ∧
              searchPunct te input (maxWidthIndex mw input) = breakAt te input index := by
          unfold searchPunct
          cases hl : lastValidBelow input (maxWidthIndex mw input) with
          | none =>
            simp only
            rcases hright with h | ⟨i, hi, h⟩
            · exact Or.inl h
            · exact Or.inr ⟨i, hi, Or.inr (Or.inr (fun p _ hp => lastValidBelow_none hl p hp)), h⟩
          | some idx =>
            obtain ⟨h1, _⟩ := lastValidBelow_lt hl
            simp only
            split
            · exact Or.inr ⟨idx, by omega, Or.inl h1, rfl⟩
            · rename_i hmin
              rcases hright with h | ⟨i, hi, h⟩
              · exact Or.inl h
              · exact Or.inr ⟨i, hi, Or.inr (Or.inr (fun p hp1 hp2 => lastValidBelow_max hl p (by omega) hp2)), h⟩
        unfold searchBreak
        cases hr : rposition isWs (input.take (maxWidthIndex mw input)) with
        | none => exact hpunct
        | some idx =>
          have h1 := rposition_lt hr
          simp only [List.length_take] at h1
          simp only
          split
          · exact Or.inr ⟨idx, by omega, Or.inl (by omega), rfl⟩
          · exact hpunct

theorem trimEndWs_append_ws (a b : List Char) (hb : b.all isWs = true) : trimEndWs (a ++ b) = trimEndWs a := by
  unfold trimEndWs
  rw [List.reverse_append]
  have : ∀ (x y : List Char), x.all isWs = true → (x ++ y).dropWhile isWs = y.dropWhile isWs := by
    intro x y hx
    induction x with
    | nil => rfl
    | cons c r ih =>
      simp only [List.all_cons, Bool.and_eq_true] at hx
      simp [hx.1, ih hx.2]
  rw [this _ _ (by simpa using hb)]

theorem all_isWs_of_all_blank {b : List Char} (hb : b.all blank = true) : b.all isWs = true := by
  rw [List.all_eq_true] at hb ⊢
  intro c hc
  have := hb c hc
  unfold blank at this
  simp at this
  exact this.1

/-- `trim_end()` gives a prefix -/
theorem trimEndWs_prefix (a : List Char) : ∃ rest, a = trimEndWs a ++ rest := by
  unfold trimEndWs
  have : ∀ l : List Char, ∃ pre, l = pre ++ l.dropWhile isWs := by
    intro l
    exact ⟨l.takeWhile isWs, (List.takeWhile_append_dropWhile).symm⟩
  obtain ⟨pre, hpre⟩ := this a.reverse
  refine ⟨pre.reverse, ?_⟩
  have := congrArg List.reverse hpre
  simpa using this

theorem width_trimEndWs_le (a : List Char) : width (trimEndWs a) ≤ width a := by
  obtain ⟨rest, h⟩ := trimEndWs_prefix a
  have := congrArg width h
  rw [width_append] at this
  omega

theorem width_take_le (l : List Char) (a b : Nat) (h : a ≤ b) : width (l.take a) ≤ width (l.take b) := by
  have : l.take b = l.take a ++ (l.take b).drop a := by
    have h1 : l.take a = (l.take b).take a := by rw [List.take_take, Nat.min_eq_left h]
    rw [h1, List.take_append_drop]
  rw [this, width_append]
  omega

/-- The line `break_at(index)` returns is, up to trailing white space, a prefix of `input[0..=index]`. -/
theorem breakAt_line_width (te : Bool) (input : List Char) (index : Nat) (hi : index < input.length)
    (line : List Char) (len : Nat)
    (h : breakAt te input index = .lineEnd line len ∨ breakAt te input index = .endWithLineFeed line len) :
    width (trimEndWs line) ≤ width (input.take (index + 1)) := by
  have himw := indexMinusWs_le input index hi
  have hnlws : ['\n'].all isWs = true := by decide
  rcases breakAt_cases te input index hi with ⟨i, hle, hnl, _, heq⟩ | ⟨_, heq⟩
  · rw [heq] at h
    have hline : line = (if te then trimEndWs (input.take i) else input.take i) ++ ['\n'] := by
      rcases h with h | h <;> simp at h
      exact h.1.symm
    rw [hline, trimEndWs_append_ws _ _ hnlws]
    have h1 : width (input.take i) ≤ width (input.take (index + 1)) := width_take_le _ _ _ (by omega)
    cases te with
    | true =>
      simp only [if_true]
      have := width_trimEndWs_le (trimEndWs (input.take i))
      have := width_trimEndWs_le (input.take i)
      omega
    | false =>
      simp only [Bool.false_eq_true, if_false]
      have := width_trimEndWs_le (input.take i)
      omega
  · rw [heq] at h
    have h2 : width (input.take (indexMinusWs input index + 1)) ≤ width (input.take (index + 1)) :=
      width_take_le _ _ _ (by omega)
    rcases breakAtRight_cases te input index (indexMinusWs input index) hi with
      ⟨ws, rest, _, hws, _, heq2⟩ | ⟨ws, c, rest, _, hws, _, _, heq2⟩ | ⟨_, heq2⟩
    · rw [heq2] at h
      have hline : line = input.take (index + 1) ++ ws ++ ['\n'] := by
        rcases h with h | h <;> simp at h
        rw [List.append_assoc]; exact h.1.symm
      rw [hline, trimEndWs_append_ws _ _ hnlws, trimEndWs_append_ws _ _ (all_isWs_of_all_blank hws)]
      exact width_trimEndWs_le _
    · rw [heq2] at h
      have hline : line = if te then input.take (indexMinusWs input index + 1) else input.take (index + 1) ++ ws := by
        rcases h with h | h <;> simp at h
        exact h.1.symm
      rw [hline]
      cases te with
      | true =>
        simp only [if_true]
        have := width_trimEndWs_le (input.take (indexMinusWs input index + 1))
        omega
      | false =>
        simp only [Bool.false_eq_true, if_false]
        rw [trimEndWs_append_ws _ _ (all_isWs_of_all_blank hws)]
        exact width_trimEndWs_le _
    · rw [heq2] at h
      cases te <;> simp at h

/-- **A line that `break_string` returns fits into `max_width`** (its trailing white space apart), unless the
input is `Unbreakable` at the limit. -/
theorem breakString_line_fits (mw : Nat) (te : Bool) (le input line : List Char) (len : Nat)
    (h : breakString mw te le input = .lineEnd line len ∨ breakString mw te le input = .endWithLineFeed line len) :
    width (trimEndWs line) ≤ mw ∨ Unbreakable mw input := by
  rcases breakString_cases_fits mw te le input with heoi | ⟨index, hi, hreason, heq⟩
  · rw [heoi] at h; simp at h
  · rcases hreason with hlt | hu
    · left
      rw [heq] at h
      have h1 := breakAt_line_width te input index hi line len h
      have h2 := maxWidthIndex_fits mw input index hlt
      omega
    · exact Or.inr hu


/-! ## re-breaking a re-broken literal (C02) -/

/-- no backslash directly in front of a line feed or a carriage return: nothing for the continuation
regex to find -/
def noBsNl : List Char → Bool
  | [] => true
  | [_] => true
  | c :: d :: r => !(c == '\\' && (d == '\n' || d == '\r')) && noBsNl (d :: r)

/-- the text does not start with a line break (so a backslash in front of it is not a continuation) -/
def headNotNl : List Char → Bool
  | [] => true
  | c :: _ => !(c == '\n' || c == '\r')

/-- the text does not start with something a continuation swallows -/
def headNotContWs : List Char → Bool
  | [] => true
  | c :: _ => !isContWs c

theorem noBsNl_tail {c : Char} {r : List Char} (h : noBsNl (c :: r) = true) : noBsNl r = true := by
  cases r with
  | nil => rfl
  | cons d r' => simp [noBsNl] at h; exact h.2

theorem noBsNl_head_bs {r : List Char} (h : noBsNl ('\\' :: r) = true) : headNotNl r = true := by
  cases r with
  | nil => rfl
  | cons d r' =>
    simp only [noBsNl, beq_self_eq_true, Bool.true_and, Bool.and_eq_true, Bool.not_eq_eq_eq_not, Bool.not_true] at h
    simp [headNotNl, h.1]

theorem isContWs_of_nl {c : Char} (h : (c == '\n' || c == '\r') = true) : isContWs c = true := by
  simp only [Bool.or_eq_true, beq_iff_eq] at h
  rcases h with rfl | rfl <;> decide

theorem stripGo_start_cons (c : Char) (r : List Char) :
    stripGo .start (c :: r) = if c == '\\' then c :: stripGo .start r else c :: stripGo .even r := by
  rw [stripGo]
theorem stripGo_even_cons (c : Char) (r : List Char) :
    stripGo .even (c :: r) = if c == '\\' then stripGo .odd r else c :: stripGo .even r := by
  rw [stripGo]
theorem stripGo_odd_cons (c : Char) (r : List Char) :
    stripGo .odd (c :: r) = if c == '\\' then '\\' :: '\\' :: stripGo .even r
      else if c == '\n' || c == '\r' then stripGo .space r else '\\' :: c :: stripGo .even r := by
  rw [stripGo]
theorem stripGo_space_cons (c : Char) (r : List Char) :
    stripGo .space (c :: r) = if isContWs c then stripGo .space r
      else if c == '\\' then stripGo .spaceBs r else c :: stripGo .even r := by
  rw [stripGo]
theorem stripGo_spaceBs_cons (c : Char) (r : List Char) :
    stripGo .spaceBs (c :: r) = if c == '\n' || c == '\r' then stripGo .space r
      else if c == '\\' then '\\' :: '\\' :: stripGo .start r else '\\' :: c :: stripGo .even r := by
  rw [stripGo]

/-- On a text without backslash–line-break the matcher copies, whatever its state. -/
theorem strip_id : ∀ (l : List Char), noBsNl l = true →
    stripGo .start l = l ∧ stripGo .even l = l ∧
    (headNotNl l = true → stripGo .odd l = '\\' :: l ∧ stripGo .spaceBs l = '\\' :: l) ∧
    (headNotContWs l = true → stripGo .space l = l)
  | [], _ => by simp [stripGo]
  | c :: r, h => by
    have ih := strip_id r (noBsNl_tail h)
    by_cases hc : c = '\\'
    · subst hc
      have hr := noBsNl_head_bs h
      have hodd := ih.2.2.1 hr
      refine ⟨?_, ?_, ?_, ?_⟩
      · simp only [stripGo, beq_self_eq_true, if_true, ih.1]
      · simp only [stripGo, beq_self_eq_true, if_true, hodd.1]
      · intro _
        have h2 : ('\\' == '\n' || '\\' == '\r') = false := by decide
        simp only [stripGo, beq_self_eq_true, if_true, h2, Bool.false_eq_true, if_false, ih.1, ih.2.1, and_self]
      · intro _
        simp only [stripGo, isContWs_backslash, Bool.false_eq_true, if_false, beq_self_eq_true, if_true, hodd.2]
    · have hb : (c == '\\') = false := by simpa using hc
      refine ⟨?_, ?_, ?_, ?_⟩
      · simp only [stripGo, hb, Bool.false_eq_true, if_false, ih.2.1]
      · simp only [stripGo, hb, Bool.false_eq_true, if_false, ih.2.1]
      · intro hh
        have hnl : (c == '\n' || c == '\r') = false := by simpa [headNotNl] using hh
        simp only [stripGo, hb, hnl, Bool.false_eq_true, if_false, ih.2.1, and_self]
      · intro hh
        have hw : isContWs c = false := by simpa [headNotContWs] using hh
        simp only [stripGo, hw, hb, Bool.false_eq_true, if_false, ih.2.1]

/-- A piece without backslash–line-break that does not end in a backslash is copied and leaves the matcher
ready for a match (`even`), whatever comes behind it. -/
theorem strip_copy : ∀ (l x : List Char), noBsNl l = true → (∃ l' z, l = l' ++ [z] ∧ z ≠ '\\') →
    stripGo .start (l ++ x) = l ++ stripGo .even x ∧ stripGo .even (l ++ x) = l ++ stripGo .even x ∧
    (headNotNl l = true → stripGo .odd (l ++ x) = '\\' :: (l ++ stripGo .even x) ∧
      stripGo .spaceBs (l ++ x) = '\\' :: (l ++ stripGo .even x)) ∧
    (headNotContWs l = true → stripGo .space (l ++ x) = l ++ stripGo .even x)
  | [], x, _, hl => by
    obtain ⟨l', z, h, _⟩ := hl
    simp at h
  | [c], x, _, hl => by
    obtain ⟨l', z, h, hz⟩ := hl
    have hc : c ≠ '\\' := by
      cases l' with
      | nil => simp at h; subst h; exact hz
      | cons a l'' => simp at h
    have hb : (c == '\\') = false := by simpa using hc
    refine ⟨?_, ?_, ?_, ?_⟩
    · simp only [List.cons_append, List.nil_append, stripGo, hb, Bool.false_eq_true, if_false]
    · simp only [List.cons_append, List.nil_append, stripGo, hb, Bool.false_eq_true, if_false]
    · intro hh
      have hnl : (c == '\n' || c == '\r') = false := by simpa [headNotNl] using hh
      simp only [List.cons_append, List.nil_append, stripGo, hb, hnl, Bool.false_eq_true, if_false, and_self]
    · intro hh
      have hw : isContWs c = false := by simpa [headNotContWs] using hh
      simp only [List.cons_append, List.nil_append, stripGo, hw, hb, Bool.false_eq_true, if_false]
  | c :: d :: r, x, h, hl => by
    have hl' : ∃ l' z, d :: r = l' ++ [z] ∧ z ≠ '\\' := by
      obtain ⟨l', z, heq, hz⟩ := hl
      cases l' with
      | nil => simp at heq
      | cons a l'' =>
        simp only [List.cons_append, List.cons.injEq] at heq
        exact ⟨l'', z, heq.2, hz⟩
    have ih := strip_copy (d :: r) x (noBsNl_tail h) hl'
    have e1 : ('\\' :: d :: r) ++ x = '\\' :: ((d :: r) ++ x) := rfl
    have e2 : (c :: d :: r) ++ x = c :: ((d :: r) ++ x) := rfl
    by_cases hc : c = '\\'
    · subst hc
      have hr := noBsNl_head_bs h
      have hodd := ih.2.2.1 hr
      refine ⟨?_, ?_, ?_, ?_⟩
      · rw [e1, stripGo_start_cons, ih.1]; simp
      · rw [e1, stripGo_even_cons, hodd.1]; simp
      · intro _
        rw [e1, stripGo_odd_cons, stripGo_spaceBs_cons, ih.1, ih.2.1]
        simp
      · intro _
        rw [e1, stripGo_space_cons, hodd.2]
        simp [isContWs_backslash]
    · have hb : (c == '\\') = false := by simpa using hc
      refine ⟨?_, ?_, ?_, ?_⟩
      · rw [e2, stripGo_start_cons, ih.2.1]; simp [hb]
      · rw [e2, stripGo_even_cons, ih.2.1]; simp [hb]
      · intro hh
        have hnl : (c == '\n' || c == '\r') = false := by simpa [headNotNl] using hh
        rw [e2, stripGo_odd_cons, stripGo_spaceBs_cons, ih.2.1]
        simp [hb, hnl]
      · intro hh
        have hw : isContWs c = false := by simpa [headNotContWs] using hh
        rw [e2, stripGo_space_cons, ih.2.1]
        simp [hb, hw]


theorem noBsNl_append : ∀ (a b : List Char), noBsNl (a ++ b) = true → noBsNl a = true ∧ noBsNl b = true
  | [], b, h => ⟨rfl, h⟩
  | [c], b, h => ⟨rfl, noBsNl_tail h⟩
  | c :: d :: r, b, h => by
    have h' : noBsNl (c :: d :: (r ++ b)) = true := h
    simp only [noBsNl, Bool.and_eq_true] at h'
    have ih := noBsNl_append (d :: r) b h'.2
    refine ⟨?_, ih.2⟩
    simp only [noBsNl, Bool.and_eq_true]
    exact ⟨h'.1, ih.1⟩

theorem stripGo_space_ws (ws y : List Char) (h : ws.all isContWs = true) :
    stripGo .space (ws ++ y) = stripGo .space y := by
  induction ws with
  | nil => rfl
  | cons c r ih =>
    simp only [List.all_cons, Bool.and_eq_true] at h
    rw [List.cons_append, stripGo_space_cons, h.1]
    simp only [if_true]
    exact ih h.2

/-- what stripping gives again on what the loop appended: the input it was given -/
def Restrips (mid rem : List Char) : Prop :=
  stripGo .start mid = rem ∧ stripGo .even mid = rem ∧ (headNotContWs rem = true → stripGo .space mid = rem)

theorem restrips_self {l : List Char} (h : noBsNl l = true) : Restrips l l :=
  ⟨(strip_id l h).1, (strip_id l h).2.1, (strip_id l h).2.2.2⟩

/-- a piece, then (optionally after a line continuation) something that strips to the rest -/
theorem restrips_piece {l rest mid' : List Char} (hl : noBsNl l = true) (hlast : ∃ l' z, l = l' ++ [z] ∧ z ≠ '\\')
    (hrest : stripGo .even mid' = rest) : Restrips (l ++ mid') (l ++ rest) := by
  have hc := strip_copy l mid' hl hlast
  refine ⟨by rw [hc.1, hrest], by rw [hc.2.1, hrest], ?_⟩
  intro hh
  have : headNotContWs l = true := by
    obtain ⟨l', z, rfl, _⟩ := hlast
    cases l' <;> simpa [headNotContWs] using hh
  rw [hc.2.2.2 this, hrest]

/-- The loop of `rewrite_string` in the format of a string literal, on a text without
backslash–line-break: stripping what it appended gives back what it was given. -/
theorem loop_restrip (k : LoopCfg) (hk : StringLike k) : ∀ (fuel : Nat) (rem acc : List Char) (curMax : Nat)
    (acc' : List Char), noBsNl rem = true → loop k fuel rem acc curMax = some acc' →
    ∃ mid, acc' = mid.reverse ++ acc ∧ Restrips mid rem
  | 0, _, _, _, _, _, h => by simp [loop] at h
  | fuel + 1, rem, acc, curMax, acc', hno, h => by
    unfold loop at h
    split at h
    · cases h
      refine ⟨rem, ?_, restrips_self hno⟩
      rw [pushFit_verbatim k hk.trim hk.bare]
      simp [trimEndButLf, hk.trim]
    · have hs := breakString_step curMax k.trimEnd k.lineEnd rem
      rw [hk.trim] at hs
      split at h
      · rename_i line len heq
        rw [hk.trim] at heq
        rw [heq] at hs
        cases hs with
        | lineTrim _ _ hte => cases hte
        | line _ _ h1 hnonl hlast hnext =>
          have hsplit := noBsNl_append (rem.take len) (rem.drop len) (by rw [List.take_append_drop]; exact hno)
          obtain ⟨mid', hacc, hq⟩ := loop_restrip k hk fuel _ _ _ _ hsplit.2 h
          obtain ⟨t, hnl, ht⟩ := hk.indent
          obtain ⟨c, hc, hcb⟩ := hlast
          obtain ⟨d, hd, hdws⟩ := hnext
          have hn : len - 1 + 1 = len := by omega
          have htake : rem.take len = rem.take (len - 1) ++ [c] := by
            have := take_succ_of_getElem? hc
            rwa [hn] at this
          have hdrop : rem.drop len = d :: rem.drop (len + 1) := drop_eq_cons_of_getElem? hd
          have hhead : headNotContWs (rem.drop len) = true := by
            rw [hdrop]
            cases hcw : isContWs d with
            | false => simp [headNotContWs, hcw]
            | true => rw [isWs_of_isContWs hcw] at hdws; cases hdws
          refine ⟨rem.take len ++ ('\\' :: '\n' :: (t ++ k.lineStart ++ mid')), ?_, ?_⟩
          · rw [hacc, hk.lineEnd, hnl]
            simp [pushStr]
          · have hall : (t ++ k.lineStart).all isContWs = true := by
              rw [List.all_append, ht, hk.lineStart]; rfl
            have hsep : stripGo .even ('\\' :: '\n' :: (t ++ k.lineStart ++ mid')) = rem.drop len := by
              rw [stripGo_even_cons, stripGo_odd_cons]
              have h1 : ('\n' == '\\') = false := by decide
              simp only [h1, Bool.false_eq_true, if_false, beq_self_eq_true, Bool.true_or, if_true]
              rw [stripGo_space_ws _ _ hall, hq.2.2 hhead]
            have := restrips_piece (mid' := '\\' :: '\n' :: (t ++ k.lineStart ++ mid')) hsplit.1
              ⟨_, _, htake, hcb⟩ hsep
            rwa [List.take_append_drop] at this
      · rename_i line len heq
        rw [hk.trim] at heq
        rw [heq] at hs
        cases hs with
        | feedTrim _ hte => cases hte
        | feed _ _ h1 hnl =>
          simp only [hk.bare, if_true] at h
          have hsplit := noBsNl_append (rem.take len) (rem.drop len) (by rw [List.take_append_drop]; exact hno)
          obtain ⟨mid', hacc, hq⟩ := loop_restrip k hk fuel _ _ _ _ hsplit.2 h
          refine ⟨rem.take len ++ mid', ?_, ?_⟩
          · rw [hacc]
            simp [feedAcc, hk.trim, pushStr]
          · have hn : len - 1 + 1 = len := by omega
            have htake : rem.take len = rem.take (len - 1) ++ ['\n'] := by
              have := take_succ_of_getElem? hnl
              rwa [hn] at this
            have := restrips_piece (mid' := mid') hsplit.1 ⟨_, _, htake, by decide⟩ hq.2.1
            rwa [List.take_append_drop] at this
      · rename_i line heq
        rw [hk.trim] at heq
        rw [heq] at hs
        cases h
        cases hs with
        | eoi => exact ⟨rem, by simp [pushStr], restrips_self hno⟩
        | eoiTrim _ hte _ => cases hte

/-- Stripping the continuations of a re-broken literal gives back the text that was broken: the second
pass of `rewrite_string` starts from the same graphemes as the first. -/
theorem rewriteRaw_restrip (k : LoopCfg) (hk : StringLike k) (opener closer orig r : List Char)
    (hno : noBsNl orig = true) (h : rewriteRaw k opener closer orig = some r) :
    ∃ body, r = opener ++ body ++ closer ∧ stripLineBreaks body = orig ∧ stripLineBreaks orig = orig := by
  have hid : stripLineBreaks orig = orig := (strip_id orig hno).1
  unfold rewriteRaw at h
  simp only [hid] at h
  cases hl : loop k (orig.length + 1) orig opener.reverse k.mwWith with
  | none => simp [hl] at h
  | some acc' =>
    simp only [hl, Option.some.injEq] at h
    obtain ⟨mid, hacc, hq⟩ := loop_restrip k hk _ _ _ _ _ hno hl
    refine ⟨mid, ?_, hq.1, hid⟩
    rw [← h, hacc]
    simp [pushStr]


/-! ## words -/

theorem wordsGo_cur (s cur : List Char) (hs : s.all isWs = true) : wordsGo s cur = if cur.isEmpty then [] else [cur.reverse] := by
  induction s generalizing cur with
  | nil => simp [wordsGo]
  | cons c r ih =>
    simp only [List.all_cons, Bool.and_eq_true] at hs
    simp only [wordsGo, hs.1, if_true]
    split
    · rw [ih [] hs.2]; simp
    · rw [ih [] hs.2]; simp

/-- the general shape: the word being read (`cur`) continues into `a` -/
theorem wordsGo_append_ws (a b : List Char) (w : Char) (hw : isWs w = true) (cur : List Char) :
    wordsGo (a ++ w :: b) cur = wordsGo (a ++ [w]) cur ++ wordsGo b [] := by
  induction a generalizing cur with
  | nil =>
    simp only [List.nil_append, wordsGo, hw, if_true]
    split <;> simp
  | cons c r ih =>
    simp only [List.cons_append, wordsGo]
    split
    · split
      · exact ih []
      · simp [ih []]
    · exact ih (c :: cur)

theorem wordsGo_snoc_ws (a : List Char) (w : Char) (hw : isWs w = true) (cur : List Char) :
    wordsGo (a ++ [w]) cur = wordsGo a cur := by
  induction a generalizing cur with
  | nil => simp [wordsGo, hw]
  | cons c r ih =>
    simp only [List.cons_append, wordsGo]
    split
    · split
      · exact ih []
      · simp [ih []]
    · exact ih (c :: cur)

/-- a text splits into words at a white-space character -/
theorem words_append_ws (a b : List Char) (w : Char) (hw : isWs w = true) :
    words (a ++ w :: b) = words a ++ words b := by
  unfold words
  rw [wordsGo_append_ws a b w hw, wordsGo_snoc_ws a w hw]

theorem words_cons_ws (b : List Char) (w : Char) (hw : isWs w = true) : words (w :: b) = words b := by
  have := words_append_ws [] b w hw
  simpa [words, wordsGo] using this

theorem words_ws_prefix (ws b : List Char) (h : ws.all isWs = true) : words (ws ++ b) = words b := by
  induction ws with
  | nil => rfl
  | cons c r ih =>
    simp only [List.all_cons, Bool.and_eq_true] at h
    rw [List.cons_append, words_cons_ws _ _ h.1, ih h.2]

theorem words_snoc_ws (a : List Char) (w : Char) (hw : isWs w = true) : words (a ++ [w]) = words a := by
  have := words_append_ws a [] w hw
  simpa [words, wordsGo] using this

/-- the cut of a text next to a white-space character (before it, after it) or at its end keeps the words -/
theorem words_take_drop (l : List Char) (n : Nat)
    (h : l.length ≤ n ∨ (∃ c, l[n]? = some c ∧ isWs c = true) ∨ (1 ≤ n ∧ ∃ c, l[n - 1]? = some c ∧ isWs c = true)) :
    words (l.take n) ++ words (l.drop n) = words l := by
  rcases h with h | ⟨c, hc, hw⟩ | ⟨h1, c, hc, hw⟩
  · rw [List.take_of_length_le h, List.drop_of_length_le h]; simp [words, wordsGo]
  · conv => rhs; rw [← List.take_append_drop n l]
    rw [drop_eq_cons_of_getElem? hc, words_append_ws _ _ _ hw, words_cons_ws _ _ hw]
  · have hn : n - 1 + 1 = n := by omega
    have htake : l.take n = l.take (n - 1) ++ [c] := by
      have := take_succ_of_getElem? hc
      rwa [hn] at this
    have hl : l = l.take (n - 1) ++ c :: l.drop n := by
      conv => lhs; rw [← List.take_append_drop n l, htake]
      simp
    rw [htake, words_snoc_ws _ _ hw]
    conv => rhs; rw [hl, words_append_ws _ _ _ hw]

/-- every boundary of the text is white space: no punctuation that `break_string` could break after -/
def NoPunctBreak (input : List Char) : Prop :=
  ∀ p c, input[p]? = some c → isValidLinebreak input p = true → isWs c = true

/-- **One step of `break_string` keeps the words**, when the text offers no punctuation to break after:
the words of the line followed by the words of what is left are the words of the input. -/
theorem Step.wordsLine {input : List Char} (hnp : NoPunctBreak input) {line : List Char} {len : Nat}
    (h : Step true input (.lineEnd line len)) : RF.StringFmt.words line ++ RF.StringFmt.words (input.drop len) = RF.StringFmt.words input := by
  cases h with
  | lineTrim m _ _ hmn h1 hn hblank _ hcut =>
    -- `input.take len = input.take m ++ blanks`
    by_cases hlt : m < len
    · have hm : m < input.length := by omega
      obtain ⟨c, hc⟩ : ∃ c, input[m]? = some c := ⟨input[m], List.getElem?_eq_getElem hm⟩
      have hcb : isWs c = true := by
        have hmem : c ∈ (input.take len).drop m := by
          apply List.mem_of_getElem? (i := 0)
          rw [List.getElem?_drop, List.getElem?_take]
          simp [hlt, hc]
        have := List.all_eq_true.mp (all_isWs_of_all_blank hblank) c hmem
        exact this
      have h2 : RF.StringFmt.words (input.drop m) = RF.StringFmt.words (input.drop len) := by
        have : input.drop m = (input.take len).drop m ++ input.drop len := by
          conv => lhs; rw [← List.take_append_drop len input]
          rw [List.drop_append_of_le_length (by simp; omega)]
        rw [this, words_ws_prefix _ _ (all_isWs_of_all_blank hblank)]
      rw [← h2]
      exact words_take_drop input m (Or.inr (Or.inl ⟨c, hc, hcb⟩))
    · have hmeq : m = len := by omega
      subst hmeq
      rcases hcut with hlt' | hcs
      · omega
      · rcases hcs with hv | hnext
        · have hl : m - 1 < input.length := by omega
          refine words_take_drop input m (Or.inr (Or.inr ⟨h1, input[m - 1], List.getElem?_eq_getElem hl, ?_⟩))
          exact hnp (m - 1) _ (List.getElem?_eq_getElem hl) hv
        · have hm1 : m - 1 + 1 = m := by omega
          rw [hm1] at hnext
          by_cases hend : input.length ≤ m
          · exact words_take_drop input m (Or.inl hend)
          · have hm : m < input.length := by omega
            exact words_take_drop input m (Or.inr (Or.inl ⟨input[m], List.getElem?_eq_getElem hm,
              hnext _ (List.getElem?_eq_getElem hm)⟩))
  | line _ hte _ _ _ _ => cases hte


/-- `NoPunctBreak` as a computation -/
def noPunctBreakB (input : List Char) : Bool :=
  (List.range input.length).all (fun p => !isValidLinebreak input p || isWs (input.getD p ' '))

theorem noPunctBreak_of_B {input : List Char} (h : noPunctBreakB input = true) : NoPunctBreak input := by
  intro p c hc hv
  have hp : p < input.length := (List.getElem?_eq_some_iff.mp hc).1
  have := List.all_eq_true.mp h p (List.mem_range.mpr hp)
  simp only [hv, Bool.not_true, Bool.false_or] at this
  simpa [List.getD, hc] using this


/-! ## the words of a wrapped comment (loop level) -/

theorem words_append_all_ws : ∀ (ws a : List Char), ws.all isWs = true → words (a ++ ws) = words a
  | [], a, _ => by simp
  | w :: r, a, h => by
    simp only [List.all_cons, Bool.and_eq_true] at h
    have : a ++ w :: r = (a ++ [w]) ++ r := by simp
    rw [this, words_append_all_ws r (a ++ [w]) h.2, words_snoc_ws _ _ h.1]

theorem words_all_ws {ws : List Char} (h : ws.all isWs = true) : words ws = [] := by
  have := words_append_all_ws ws [] h
  simpa [words, wordsGo] using this

/-- the buffer (reversed) is empty or ends in white space: what is pushed next starts a new word -/
def EndsWs (acc : List Char) : Prop := acc = [] ∨ ∃ w r, acc = w :: r ∧ isWs w = true

theorem words_push {acc : List Char} (h : EndsWs acc) (x : List Char) :
    words (pushStr acc x).reverse = words acc.reverse ++ words x := by
  unfold pushStr
  rcases h with rfl | ⟨w, r, rfl, hw⟩
  · simp [words, wordsGo]
  · simp only [List.reverse_append, List.reverse_reverse, List.reverse_cons, List.append_assoc, List.singleton_append]
    rw [words_append_ws _ _ _ hw, words_snoc_ws _ _ hw]

/-- a nonempty run of white space between two texts separates their words -/
theorem words_sep (a ws b : List Char) (hws : ws.all isWs = true) (hne : ws ≠ []) :
    words (a ++ ws ++ b) = words a ++ words b := by
  cases ws with
  | nil => exact absurd rfl hne
  | cons w r =>
    simp only [List.all_cons, Bool.and_eq_true] at hws
    rw [List.append_assoc, List.cons_append, words_append_ws _ _ _ hws.1, words_ws_prefix _ _ hws.2]

theorem mem_takeWhile_p {p : Char → Bool} : ∀ {l : List Char} {c : Char}, c ∈ l.takeWhile p → p c = true
  | [], _, h => by simp at h
  | d :: r, c, h => by
    simp only [List.takeWhile] at h
    cases hd : p d with
    | false => simp [hd] at h
    | true =>
      simp only [hd] at h
      rcases List.mem_cons.mp h with rfl | h'
      · exact hd
      · exact mem_takeWhile_p h'

theorem dropWhile_head {p : Char → Bool} : ∀ {l : List Char} {d : Char} {r : List Char},
    l.dropWhile p = d :: r → p d = false
  | [], _, _, h => by simp at h
  | e :: t, d, r, h => by
    simp only [List.dropWhile] at h
    cases he : p e with
    | false =>
      simp only [he] at h
      cases h
      exact he
    | true =>
      simp only [he] at h
      exact dropWhile_head h

theorem words_dropWhile_rev {q : Char → Bool} (hq : ∀ c, q c = true → isWs c = true) (acc : List Char) :
    words (acc.dropWhile q).reverse = words acc.reverse := by
  have h : acc = acc.takeWhile q ++ acc.dropWhile q := (List.takeWhile_append_dropWhile).symm
  conv => rhs; rw [h]
  rw [List.reverse_append, words_append_all_ws]
  rw [List.all_eq_true]
  intro c hc
  exact hq c (mem_takeWhile_p (List.mem_reverse.mp hc))

theorem words_trimEndButLf_rev (te : Bool) (acc : List Char) :
    words (trimEndButLf te acc).reverse = words acc.reverse := by
  unfold trimEndButLf
  split
  · exact words_dropWhile_rev (by intro c hc; simp at hc; exact hc.1) acc
  · rfl

theorem words_trimEndWs (l : List Char) : words (trimEndWs l) = words l := by
  unfold trimEndWs
  rw [words_dropWhile_rev (fun _ h => h), List.reverse_reverse]

/-- The format of a comment as far as the words are concerned: trimmed lines, no line end, blank
indentation, a line start that is empty or ends in white space. -/
structure CommentLike (k : LoopCfg) : Prop where
  trim : k.trimEnd = true
  lineEnd : k.lineEnd = []
  blank : BlankIndent k
  nlNe : k.indentNl ≠ []
  bare : k.bareOk = k.lineStart.all isWs
  lineStart : k.lineStart = [] ∨ ∃ l w, k.lineStart = l ++ [w] ∧ isWs w = true

theorem endsWs_push_lineStart {k : LoopCfg} (hk : CommentLike k) {acc ind : List Char}
    (hind : ind.all isWs = true) (hacc : EndsWs acc ∨ ind ≠ []) :
    EndsWs (pushStr (pushStr acc ind) k.lineStart) := by
  unfold pushStr
  rcases hk.lineStart with h | ⟨l, w, h, hw⟩
  · rw [h]
    simp only [List.reverse_nil, List.nil_append]
    cases hi : ind.reverse with
    | nil =>
      have : ind = [] := by simpa using hi
      rcases hacc with h' | h'
      · simpa using h'
      · exact absurd this h'
    | cons c r =>
      right
      refine ⟨c, r ++ acc, by simp, ?_⟩
      have : c ∈ ind := List.mem_reverse.mp (by rw [hi]; simp)
      exact List.all_eq_true.mp hind c this
  · right
    rw [h]
    exact ⟨w, l.reverse ++ (ind.reverse ++ acc), by simp, hw⟩

/-- no punctuation at all (a backslash apart): then every boundary `break_string` can use is white space,
in the text and in everything that is left of it later -/
def noPunct (l : List Char) : Bool := l.all (fun c => !isPunct c || c == '\\')

theorem noPunctBreak_of_noPunct {l : List Char} (h : noPunct l = true) : NoPunctBreak l := by
  intro p c hc hv
  have hg : l.getD p ' ' = c := by simp [List.getD, hc]
  simp only [isValidLinebreak, hg] at hv
  have hmem : c ∈ l := List.mem_of_getElem? hc
  have hnp := List.all_eq_true.mp h c hmem
  cases hw : isWs c with
  | true => rfl
  | false =>
    exfalso
    simp only [hw, Bool.false_or, Bool.and_eq_true] at hv
    obtain ⟨⟨hp, hb⟩, _⟩ := hv
    simp only [hp, Bool.not_true, Bool.false_or, beq_iff_eq] at hnp
    subst hnp
    simp at hb

theorem noPunct_drop {l : List Char} (n : Nat) (h : noPunct l = true) : noPunct (l.drop n) = true := by
  unfold noPunct at h ⊢
  rw [List.all_eq_true] at h ⊢
  exact fun c hc => h c (List.mem_of_mem_drop hc)

theorem pushFit_seg (k : LoopCfg) : ∀ (seg r acc : List Char), (∀ c ∈ seg, isNl c = false) →
    pushFit k (seg ++ r) acc = pushFit k r (seg.reverse ++ acc)
  | [], r, acc, _ => by simp
  | c :: seg, r, acc, h => by
    have hc : isNl c = false := h c (by simp)
    rw [List.cons_append, pushFit, if_neg (by simp [hc])]
    rw [pushFit_seg k seg r (c :: acc) (fun d hd => h d (by simp [hd]))]
    simp

theorem span_nl (l : List Char) : ∃ seg rest, l = seg ++ rest ∧ (∀ c ∈ seg, isNl c = false) ∧
    (rest = [] ∨ ∃ r, rest = '\n' :: r) := by
  refine ⟨l.takeWhile (fun c => !isNl c), l.dropWhile (fun c => !isNl c), (List.takeWhile_append_dropWhile).symm, ?_, ?_⟩
  · intro c hc
    have := mem_takeWhile_p hc
    simpa using this
  · cases hd : l.dropWhile (fun c => !isNl c) with
    | nil => exact Or.inl rfl
    | cons d r =>
      right
      have := dropWhile_head hd
      have hdn : d = '\n' := by simpa [isNl] using this
      exact ⟨r, by rw [hdn]⟩

theorem endsWs_cons_ws {w : Char} (hw : isWs w = true) (acc : List Char) : EndsWs (w :: acc) :=
  Or.inr ⟨w, acc, rfl, hw⟩

theorem endsWs_push_ws {acc ws : List Char} (hacc : EndsWs acc) (hws : ws.all isWs = true) :
    EndsWs (pushStr acc ws) := by
  unfold pushStr
  cases hi : ws.reverse with
  | nil => simpa using hacc
  | cons c t =>
    right
    refine ⟨c, t ++ acc, by simp, ?_⟩
    have : c ∈ ws := List.mem_reverse.mp (by rw [hi]; simp)
    exact List.all_eq_true.mp hws c this

/-- "All the input fits": the words of what is pushed are the words of the input, with the words of the
line start after every line feed that gets one. -/
theorem pushFit_words (k : LoopCfg) (hk : CommentLike k) : ∀ (n : Nat) (rem acc : List Char), rem.length ≤ n →
    EndsWs acc → ∃ X, words (pushFit k rem acc).reverse = words acc.reverse ++ X ∧ Woven [words k.lineStart] (words rem) X
  | 0, rem, acc, hn, hacc => by
    have : rem = [] := List.length_eq_zero_iff.mp (by omega)
    subst this
    exact ⟨[], by simp [pushFit], by simpa [words, wordsGo] using (Woven.nil : Woven [words k.lineStart] [] [])⟩
  | n + 1, rem, acc, hn, hacc => by
    obtain ⟨seg, rest, hrem, hseg, hrest⟩ := span_nl rem
    rcases hrest with hrest | ⟨r, hrest⟩
    · subst hrest
      simp only [List.append_nil] at hrem
      subst hrem
      have := pushFit_seg k rem [] acc hseg
      simp only [List.append_nil, pushFit] at this
      refine ⟨words rem, ?_, Woven.refl _ _⟩
      rw [this]
      exact words_push hacc rem
    · subst hrest
      subst hrem
      rw [pushFit_seg k seg ('\n' :: r) acc hseg, pushFit, if_pos (by decide)]
      -- the buffer after the line feed (and the decoration, if any)
      have hnlws : isWs '\n' = true := by decide
      have hbase : words ('\n' :: trimEndButLf k.trimEnd (seg.reverse ++ acc)).reverse = words acc.reverse ++ words seg := by
        rw [List.reverse_cons, words_snoc_ws _ _ hnlws, words_trimEndButLf_rev]
        exact words_push hacc seg
      have hlen : r.length ≤ n := by simp at hn; omega
      have hwords : words (seg ++ '\n' :: r) = words seg ++ words r := words_append_ws _ _ _ hnlws
      simp only
      split
      · -- decorated
        have hE1 : EndsWs ('\n' :: trimEndButLf k.trimEnd (seg.reverse ++ acc)) := endsWs_cons_ws hnlws _
        have hE2 := endsWs_push_ws hE1 hk.blank.noNl
        have hends : EndsWs (pushStr (pushStr ('\n' :: trimEndButLf k.trimEnd (seg.reverse ++ acc)) k.indentNoNl) k.lineStart) :=
          endsWs_push_lineStart hk hk.blank.noNl (Or.inl hE1)
        obtain ⟨X, hX, hW⟩ := pushFit_words k hk n r _ hlen hends
        refine ⟨words seg ++ (words k.lineStart ++ X), ?_, ?_⟩
        · rw [hX, words_push hE2 k.lineStart, words_push hE1 k.indentNoNl, words_all_ws hk.blank.noNl, hbase]
          simp
        · rw [hwords]
          exact Woven.append (Woven.refl _ _) (Woven.ins _ (by simp) hW)
      · obtain ⟨X, hX, hW⟩ := pushFit_words k hk n r _ hlen (endsWs_cons_ws hnlws _)
        refine ⟨words seg ++ X, ?_, ?_⟩
        · rw [hX, hbase]; simp
        · rw [hwords]
          exact Woven.append (Woven.refl _ _) hW


/-- the words of the line a step returns, followed by the words of the rest, are the words of the input -/
theorem Step.words_all {input : List Char} (hnp : NoPunctBreak input) {s : Snippet} (h : Step true input s) :
    match s with
    | .endOfInput l => RF.StringFmt.words l = RF.StringFmt.words input
    | .lineEnd l n => RF.StringFmt.words l ++ RF.StringFmt.words (input.drop n) = RF.StringFmt.words input
    | .endWithLineFeed l n => RF.StringFmt.words l ++ RF.StringFmt.words (input.drop n) = RF.StringFmt.words input := by
  cases h with
  | eoi => rfl
  | eoiTrim m _ hb =>
    simp only
    conv => rhs; rw [← List.take_append_drop m input]
    rw [words_append_all_ws _ _ (all_isWs_of_all_blank hb)]
  | feedTrim i _ hnl _ =>
    simp only
    have hnlws : isWs '\n' = true := by decide
    rw [words_snoc_ws _ _ hnlws, words_trimEndWs]
    conv => rhs; rw [← List.take_append_drop i input]
    rw [drop_eq_cons_of_getElem? hnl, words_append_ws _ _ _ hnlws]
  | feed _ hte _ _ => cases hte
  | lineTrim m n hte hmn h1 hn hblank hnonl hcut =>
    exact Step.wordsLine hnp (Step.lineTrim m n hte hmn h1 hn hblank hnonl hcut)
  | line _ hte _ _ _ _ => cases hte

def wordsOk (input : List Char) : Snippet → Prop
  | .endOfInput l => words l = words input
  | .lineEnd l n => words l ++ words (input.drop n) = words input
  | .endWithLineFeed l n => words l ++ words (input.drop n) = words input

theorem Step.words_ok {input : List Char} (hnp : NoPunctBreak input) {s : Snippet} (h : Step true input s) :
    wordsOk input s := by
  have := h.words_all hnp
  cases s <;> simpa [RF.Lemmas.StringFmt.wordsOk] using this

/-- The loop of `rewrite_string` in a comment format, on a text without punctuation: the words it appends
to the buffer are the words of what was left of the input, with the words of the line start woven in. -/
theorem loop_words (k : LoopCfg) (hk : CommentLike k) : ∀ (fuel : Nat) (rem acc : List Char) (curMax : Nat)
    (acc' : List Char), noPunct rem = true → EndsWs acc → loop k fuel rem acc curMax = some acc' →
    ∃ X, words acc'.reverse = words acc.reverse ++ X ∧ Woven [words k.lineStart] (words rem) X
  | 0, _, _, _, _, _, _, h => by simp [loop] at h
  | fuel + 1, rem, acc, curMax, acc', hnp, hacc, h => by
    unfold loop at h
    split at h
    · cases h
      obtain ⟨X, hX, hW⟩ := pushFit_words k hk rem.length rem acc (Nat.le_refl _) hacc
      exact ⟨X, by rw [words_trimEndButLf_rev, hX], hW⟩
    · have hs := breakString_step curMax k.trimEnd k.lineEnd rem
      rw [hk.trim] at hs
      have hw := hs.words_ok (noPunctBreak_of_noPunct hnp)
      split at h
      · rename_i line len heq
        rw [hk.trim] at heq
        rw [heq] at hw
        simp only [wordsOk] at hw
        rw [hk.lineEnd] at h
        have hA : words (pushStr (pushStr acc line) []).reverse = words acc.reverse ++ words line := by
          have : pushStr (pushStr acc line) [] = pushStr acc line := by simp [pushStr]
          rw [this]; exact words_push hacc line
        have hC : words (pushStr (pushStr (pushStr acc line) []) k.indentNl).reverse = words acc.reverse ++ words line := by
          rw [← hA]
          simp only [pushStr, List.reverse_append, List.reverse_reverse, List.reverse_nil, List.nil_append, List.append_nil]
          have := words_append_all_ws k.indentNl (acc.reverse ++ line) hk.blank.nl
          simpa [List.append_assoc] using this
        have hEC : EndsWs (pushStr (pushStr (pushStr acc line) []) k.indentNl) := by
          unfold pushStr
          cases hi : k.indentNl.reverse with
          | nil => exact absurd (by simpa using hi) hk.nlNe
          | cons c t =>
            right
            refine ⟨c, _, rfl, ?_⟩
            have : c ∈ k.indentNl := List.mem_reverse.mp (by rw [hi]; simp)
            exact List.all_eq_true.mp hk.blank.nl c this
        have hED := endsWs_push_lineStart (acc := pushStr (pushStr acc line) []) hk hk.blank.nl (Or.inr hk.nlNe)
        obtain ⟨X, hX, hW⟩ := loop_words k hk fuel _ _ _ _ (noPunct_drop len hnp) hED h
        refine ⟨words line ++ (words k.lineStart ++ X), ?_, ?_⟩
        · rw [hX, words_push hEC k.lineStart, hC]; simp
        · rw [← hw]
          exact Woven.append (Woven.refl _ _) (Woven.ins _ (by simp) hW)
      · rename_i line len heq
        rw [hk.trim] at heq
        rw [heq] at hw hs
        simp only [wordsOk] at hw
        have hnlws : isWs '\n' = true := by decide
        -- the line ends in a line feed
        have hlast : ∃ l0, line = l0 ++ ['\n'] := by
          cases hs with
          | feedTrim i _ _ _ => exact ⟨_, rfl⟩
          | feed _ hte _ _ => cases hte
        obtain ⟨l0, hl0⟩ := hlast
        have hF : words (feedAcc k acc line).reverse = words acc.reverse ++ words line := by
          unfold feedAcc
          split
          · rename_i hc
            simp only [Bool.and_eq_true, beq_iff_eq] at hc
            rw [hc.1]
            simp only [pushStr, List.reverse_cons, List.reverse_nil, List.nil_append, List.singleton_append,
              List.reverse_append, List.reverse_reverse]
            rw [words_snoc_ws _ _ hnlws, words_dropWhile_rev (fun _ h => h)]
            simp [words, wordsGo, hnlws]
          · exact words_push hacc line
        have hEF : EndsWs (feedAcc k acc line) := by
          unfold feedAcc pushStr
          rw [hl0]
          simp only [List.reverse_append, List.reverse_cons, List.reverse_nil, List.nil_append, List.singleton_append,
            List.cons_append]
          exact endsWs_cons_ws hnlws _
        split at h
        · obtain ⟨X, hX, hW⟩ := loop_words k hk fuel _ _ _ _ (noPunct_drop len hnp) hEF h
          refine ⟨words line ++ X, ?_, ?_⟩
          · rw [hX, hF]; simp
          · rw [← hw]
            exact Woven.append (Woven.refl _ _) hW
        · have hEG := endsWs_push_ws hEF hk.blank.noNl
          have hEH := endsWs_push_lineStart (acc := feedAcc k acc line) hk hk.blank.noNl (Or.inl hEF)
          obtain ⟨X, hX, hW⟩ := loop_words k hk fuel _ _ _ _ (noPunct_drop len hnp) hEH h
          refine ⟨words line ++ (words k.lineStart ++ X), ?_, ?_⟩
          · rw [hX, words_push hEG k.lineStart, words_push hEF k.indentNoNl, words_all_ws hk.blank.noNl, hF]; simp
          · rw [← hw]
            exact Woven.append (Woven.refl _ _) (Woven.ins _ (by simp) hW)
      · rename_i line heq
        rw [hk.trim] at heq
        rw [heq] at hw
        simp only [wordsOk] at hw
        cases h
        exact ⟨words line, words_push hacc line, by rw [← hw]; exact Woven.refl _ _⟩

/-- `rewrite_string` before `wrap_str`, comment format without opener and closer, text without punctuation:
the words of the result are the words of the stripped input with the words of the line start woven in. -/
theorem rewriteRaw_words (k : LoopCfg) (hk : CommentLike k) (orig r : List Char)
    (hnp : noPunct (stripLineBreaks orig) = true) (h : rewriteRaw k [] [] orig = some r) :
    Woven [words k.lineStart] (words (stripLineBreaks orig)) (words r) := by
  unfold rewriteRaw at h
  simp only [List.reverse_nil] at h
  cases hl : loop k ((stripLineBreaks orig).length + 1) (stripLineBreaks orig) [] k.mwWith with
  | none => simp [hl] at h
  | some acc' =>
    simp only [hl, Option.some.injEq] at h
    obtain ⟨X, hX, hW⟩ := loop_words k hk _ _ _ _ _ hnp (Or.inl rfl) hl
    have : words r = X := by
      rw [← h]
      simp only [pushStr, List.reverse_nil, List.nil_append]
      rw [hX]
      simp [words, wordsGo]
    rw [this]
    exact hW

/-! ## from a `StringFormat` to the constants of the loop -/

theorem all_isContWs_replicate_tab (n : Nat) : (List.replicate n '\t').all isContWs = true := by
  induction n with
  | zero => rfl
  | succ n ih => simp [List.replicate_succ, ih]; decide

theorem all_isContWs_replicate_blank (n : Nat) : (List.replicate n ' ').all isContWs = true := by
  induction n with
  | zero => rfl
  | succ n ih => simp [List.replicate_succ, ih]; decide

theorem indentChars_contWs (i : RF.Shape.Indent) (c : RF.Shape.Config) :
    (RF.Lemmas.Shape.indentChars i c).all isContWs = true := by
  unfold RF.Lemmas.Shape.indentChars
  split
  · rw [List.all_append, all_isContWs_replicate_tab, all_isContWs_replicate_blank]; rfl
  · exact all_isContWs_replicate_blank _

/-- When `Indent::to_string` does not panic (it divides by `tab_spaces` under hard tabs) the two indentation
strings are a line feed followed by tabs and blanks, and tabs and blanks. -/
theorem loopCfg_ok {f : Fmt} {nm a b : Nat} {k : LoopCfg} (h : f.loopCfg nm a b = .ok k) :
    k.trimEnd = f.trimEnd ∧ k.lineStart = f.lineStart ∧ k.lineEnd = f.lineEnd ∧
    k.bareOk = f.lineStart.all isWs ∧
    k.indentNl = '\n' :: RF.Lemmas.Shape.indentChars f.shape.indent f.config ∧
    k.indentNoNl = RF.Lemmas.Shape.indentChars f.shape.indent f.config := by
  by_cases hts : f.config.hard_tabs = true → 1 ≤ f.config.tab_spaces
  · unfold Fmt.loopCfg at h
    rw [RF.Lemmas.Shape.to_string_with_newline_eq _ _ hts, RF.Lemmas.Shape.to_string_eq _ _ hts] at h
    simp only [Except.ok.injEq] at h
    subst h
    exact ⟨rfl, rfl, rfl, rfl, rfl, rfl⟩
  · exfalso
    have hht : f.config.hard_tabs = true := by
      cases hh : f.config.hard_tabs with
      | true => rfl
      | false => exact absurd (fun h' => by rw [hh] at h'; cases h') hts
    have hz : f.config.tab_spaces = 0 := by
      have : ¬ (1 ≤ f.config.tab_spaces) := fun h' => hts (fun _ => h')
      omega
    unfold Fmt.loopCfg RF.Shape.Indent.to_string_with_newline RF.Shape.Indent.to_string_inner at h
    simp [hht, hz, RF.Shape.udiv] at h

theorem all_isWs_of_all_isContWs {l : List Char} (h : l.all isContWs = true) : l.all isWs = true := by
  rw [List.all_eq_true] at h ⊢
  exact fun c hc => isWs_of_isContWs (h c hc)


end RF.Lemmas.StringFmt
