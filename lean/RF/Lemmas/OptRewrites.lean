import RF.Model.OptRewrites
import RF.Lemmas.Literal
/-!
Helper lemmas for `RF/Props/OptRewrites.lean` (the opt-in rewrite decisions, model `RF/Model/OptRewrites.lean`).
-/
namespace RF.Lemmas.OptRewrites
open RF.Opt

/-! ### §1 an initialiser whose rendering looks like an identifier -/

theorem all_append_false {p : Char → Bool} {a b : List Char} {c : Char} (hc : p c = false) :
    (a ++ c :: b).all p = false := by
  simp [List.all_append, hc]

theorem identLike_all {s : Str} (h : identLike s = true) : s.all isIdentChar = true := by
  simp [identLike] at h; simpa using h.2

theorem identLike_ne_nil {s : Str} (h : identLike s = true) : s ≠ [] := by
  intro hs; subst hs; simp [identLike] at h

theorem not_identLike_of_mem {s : Str} {c : Char} (hm : c ∈ s) (hc : isIdentChar c = false) :
    identLike s = false := by
  cases h : identLike s with
  | false => rfl
  | true =>
    have := identLike_all h
    rw [List.all_eq_true] at this
    have := this c hm
    simp [hc] at this

theorem renderSegs_cons_cons (s t : Seg) (r : List Seg) :
    renderSegs (s :: t :: r) = s.render ++ [':', ':'] ++ renderSegs (t :: r) := rfl

/-- a path renders to something that looks like an identifier only if it is one plain segment -/
theorem path_identLike {g : Bool} {segs : List Seg} (h : identLike (Init.path g segs).render = true) :
    g = false ∧ ∃ i, segs = [⟨i, none⟩] ∧ (Init.path g segs).render = i := by
  cases g with
  | true =>
    exfalso
    have : identLike (Init.path true segs).render = false :=
      not_identLike_of_mem (c := ':') (by simp [Init.render]) (by decide)
    simp [this] at h
  | false =>
    refine ⟨rfl, ?_⟩
    match segs with
    | [] => simp [Init.render, renderSegs, identLike] at h
    | [⟨i, none⟩] => exact ⟨i, rfl, by simp [Init.render, renderSegs, Seg.render]⟩
    | [⟨i, some a⟩] =>
      exfalso
      have : identLike (Init.path false [⟨i, some a⟩]).render = false :=
        not_identLike_of_mem (c := ':') (by simp [Init.render, renderSegs, Seg.render]) (by decide)
      simp [this] at h
    | s :: t :: r =>
      exfalso
      have : identLike (Init.path false (s :: t :: r)).render = false :=
        not_identLike_of_mem (c := ':') (by simp [Init.render, renderSegs_cons_cons]) (by decide)
      simp [this] at h

/-- **what the text comparison of `rewrite_field` amounts to**: an initialiser that is not a literal and whose rendering
looks like an identifier is the one-segment path of that name, without generic arguments, `::`, parentheses, attributes
or operators -/
theorem render_identLike {e : Init} (hl : e.isLit = false) (h : identLike e.render = true) :
    e = .path false [⟨e.render, none⟩] := by
  cases e with
  | path g segs =>
    obtain ⟨hg, i, hs, hr⟩ := path_identLike h
    subst hg; subst hs; rw [hr]
  | lit t => simp [Init.isLit] at hl
  | paren e =>
    have : identLike (Init.paren e).render = false :=
      not_identLike_of_mem (c := '(') (by simp [Init.render]) (by decide)
    simp [this] at h
  | field e n =>
    have : identLike (Init.field e n).render = false :=
      not_identLike_of_mem (c := '.') (by simp [Init.render]) (by decide)
    simp [this] at h
  | attr a e =>
    have : identLike (Init.attr a e).render = false :=
      not_identLike_of_mem (c := '[') (by simp [Init.render]) (by decide)
    simp [this] at h
  | cast e ty =>
    have : identLike (Init.cast e ty).render = false :=
      not_identLike_of_mem (c := ' ') (by simp [Init.render]) (by decide)
    simp [this] at h
  | addrOf e =>
    have : identLike (Init.addrOf e).render = false :=
      not_identLike_of_mem (c := '&') (by simp [Init.render]) (by decide)
    simp [this] at h
  | try_ e =>
    have : identLike (Init.try_ e).render = false :=
      not_identLike_of_mem (c := '?') (by simp [Init.render]) (by decide)
    simp [this] at h
  | neg e =>
    have : identLike (Init.neg e).render = false :=
      not_identLike_of_mem (c := '-') (by simp [Init.render]) (by decide)
    simp [this] at h
  | call e =>
    have : identLike (Init.call e).render = false :=
      not_identLike_of_mem (c := '(') (by simp [Init.render]) (by decide)
    simp [this] at h
  | mac n =>
    have : identLike (Init.mac n).render = false :=
      not_identLike_of_mem (c := '!') (by simp [Init.render]) (by decide)
    simp [this] at h

/-! ### §3 the wildcard suffix -/

theorem countSuffixRev_le (l : List TItem) : countSuffixRev l ≤ l.length := by
  induction l with
  | nil => simp [countSuffixRev]
  | cons i r ih =>
    simp only [countSuffixRev, List.length_cons]
    split
    · split <;> omega
    · omega

theorem countSuffixRev_wild (l : List TItem) : ∀ i ∈ l.take (countSuffixRev l), i.text = wildText := by
  induction l with
  | nil => simp [countSuffixRev]
  | cons i r ih =>
    simp only [countSuffixRev]
    by_cases hw : (i.text == wildText) = true
    · simp only [hw, if_true]
      by_cases hc : i.hasComment = true
      · simp only [hc, if_true]
        intro j hj
        simp at hj
        subst hj
        simpa using hw
      · have hc' : i.hasComment = false := by simpa using hc
        simp only [hc', Bool.false_eq_true, if_false]
        intro j hj
        have : (1 + countSuffixRev r) = countSuffixRev r + 1 := by omega
        rw [this, List.take_succ_cons] at hj
        simp only [List.mem_cons] at hj
        rcases hj with hj | hj
        · subst hj; simpa using hw
        · exact ih j hj
    · simp [hw]

theorem count_le_length (items : List TItem) : countWildcardSuffixLen items ≤ items.length := by
  have := countSuffixRev_le items.reverse
  simpa [countWildcardSuffixLen] using this

/-- the last `countWildcardSuffixLen items` elements are rendered `_` -/
theorem suffix_is_wild (items : List TItem) :
    (items.drop (items.length - countWildcardSuffixLen items)).map TItem.text =
      List.replicate (countWildcardSuffixLen items) wildText := by
  have hle := count_le_length items
  have hw := countSuffixRev_wild items.reverse
  unfold countWildcardSuffixLen at *
  generalize hcdef : countSuffixRev items.reverse = c at *
  have hrev : items.drop (items.length - c) = (items.reverse.take c).reverse := by
    rw [List.take_reverse]; simp
  rw [hrev]
  apply List.ext_getElem
  · simp [List.length_take]; omega
  · intro n h1 h2
    simp only [List.getElem_map, List.getElem_replicate]
    apply hw
    have : ((List.take c items.reverse).reverse)[n]'(by simpa using h1) ∈ (List.take c items.reverse).reverse :=
      List.getElem_mem _
    simpa using this

theorem takeWhile_append_stop {α : Type} {p : α → Bool} (a : List α) (x : α) (r : List α)
    (ha : ∀ y ∈ a, p y = true) (hx : p x = false) : (a ++ x :: r).takeWhile p = a := by
  induction a with
  | nil => simp [hx]
  | cons y a ih =>
    have hy := ha y (by simp)
    simp only [List.cons_append, List.takeWhile, hy]
    rw [ih (fun z hz => ha z (by simp [hz]))]

theorem dropWhile_append_stop {α : Type} {p : α → Bool} (a : List α) (x : α) (r : List α)
    (ha : ∀ y ∈ a, p y = true) (hx : p x = false) : (a ++ x :: r).dropWhile p = x :: r := by
  induction a with
  | nil => simp [hx]
  | cons y a ih =>
    have hy := ha y (by simp)
    simp only [List.cons_append, List.dropWhile, hy]
    exact ih (fun z hz => ha z (by simp [hz]))

theorem filter_eq_nil_of_not_any {l : List Str} (h : l.any (· == restText) = false) :
    l.filter (· == restText) = [] := by
  rw [List.filter_eq_nil_iff]
  intro a ha
  rw [List.any_eq_false] at h
  exact h a ha

end RF.Lemmas.OptRewrites
