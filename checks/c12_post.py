"""C12: independent well-formedness check of every json / checkstyle document the emitters produced
(python's json and expat parsers), and the enumerated probe for F11."""
import json, os
import xml.parsers.expat


def xml_ok(doc):
    p = xml.parsers.expat.ParserCreate()
    try:
        p.Parse(doc, True)
        return True, ""
    except xml.parsers.expat.ExpatError as e:
        return False, str(e)


def post(prop, tier, outdir, result, ctx):
    failures, probes = [], []
    nx = nj = 0
    for line in open(os.path.join(outdir, "xml_docs.txt")):
        line = line.strip()
        if not line:
            continue
        doc = bytes.fromhex(line) if line != "-" else b""
        nx += 1
        ok, why = xml_ok(doc)
        if not ok:
            failures.append({"sig": "c12:checkstyle-illformed", "what": "checkstyle document rejected by expat: " + why, "doc_hex": line[:2000]})
    for line in open(os.path.join(outdir, "json_docs.txt")):
        line = line.strip()
        if not line:
            continue
        doc = bytes.fromhex(line) if line != "-" else b""
        nj += 1
        try:
            json.loads(doc.decode("utf-8"))
        except Exception as e:
            failures.append({"sig": "c12:json-illformed", "what": "json document rejected by python json: " + str(e), "doc_hex": line[:2000]})
    p = os.path.join(outdir, "xml_known_f11.txt")
    if os.path.exists(p):
        doc = bytes.fromhex(open(p).read().strip())
        ok, why = xml_ok(doc)
        probes.append({"id": "F11", "fails": not ok, "what": "checkstyle document for a changed line containing U+000C (form feed): " + (why or "well-formed"), "detail": doc.decode("utf-8", "replace")})
    return failures, probes, {"xml_documents_parsed_by_expat": nx, "json_documents_parsed": nj}
