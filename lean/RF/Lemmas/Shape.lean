import RF.Model.Shape
/-!
Lemmas and proofs for `RF.Model.Shape` (C16 arithmetic part, C08 `indent_shape`).  Core only.
-/
namespace RF.Lemmas.Shape
open RF.Shape

/-- The string an indentation is meant to be: under hard tabs one tab per `tab_spaces` of block
indent (a remainder `block_indent % tab_spaces` is silently dropped) then `alignment` spaces; otherwise
`block_indent + alignment` spaces. -/
def indentChars (i : Indent) (c : Config) : List Char :=
  if c.hard_tabs then
    List.replicate (i.block_indent / c.tab_spaces) '\t' ++ List.replicate i.alignment ' '
  else List.replicate (i.block_indent + i.alignment) ' '

theorem slice_buffer_0 (n : Nat) (h : n ≤ 80) :
    sliceInclusive INDENT_BUFFER 0 n = .ok ('\n' :: List.replicate n ' ') := by
  unfold sliceInclusive INDENT_BUFFER
  have : 0 ≤ n + 1 ∧ n + 1 ≤ ('\n' :: List.replicate 80 ' ').length := by simp; omega
  simp only [this, and_self, if_true, List.drop_zero, Nat.sub_zero, List.take_succ_cons,
    List.take_replicate]
  have : min n 80 = n := by omega
  rw [this]

theorem slice_buffer_1 (n : Nat) (h : n + 1 ≤ 80) :
    sliceInclusive INDENT_BUFFER 1 n = .ok (List.replicate n ' ') := by
  unfold sliceInclusive INDENT_BUFFER
  have : 1 ≤ n + 1 ∧ n + 1 ≤ ('\n' :: List.replicate 80 ' ').length := by simp; omega
  simp only [this, and_self, if_true, List.drop_succ_cons, List.drop_zero, Nat.add_sub_cancel,
    List.take_replicate]
  have : min n 80 = n := by omega
  rw [this]

/-- `to_string_inner` for the two offsets the public API uses: fast path and slow path produce the
same string, for every width. -/
theorem to_string_inner_eq (i : Indent) (c : Config) (off : Nat) (hoff : off = 0 ∨ off = 1)
    (hts : c.hard_tabs = true → 1 ≤ c.tab_spaces) :
    i.to_string_inner c off =
      .ok ((if off = 0 then ['\n'] else []) ++ indentChars i c) := by
  unfold Indent.to_string_inner indentChars
  cases hh : c.hard_tabs with
  | false =>
    simp only [Bool.false_eq_true, if_false, Indent.width, true_and]
    split
    · rename_i hle
      rcases hoff with rfl | rfl
      · rw [slice_buffer_0 _ (by simpa [INDENT_BUFFER_LEN] using hle)]; simp
      · rw [slice_buffer_1 _ (by simpa [INDENT_BUFFER_LEN] using hle)]; simp
    · simp
  | true =>
    have h1 := hts hh
    have hne : c.tab_spaces ≠ 0 := by omega
    simp only [if_true, udiv, hne, if_false]
    split
    · rename_i hle
      obtain ⟨ht, hle⟩ := hle
      rw [ht] at hle ⊢
      rw [Nat.zero_add] at hle ⊢
      rcases hoff with rfl | rfl
      · rw [slice_buffer_0 _ (by simpa [INDENT_BUFFER_LEN] using hle)]; simp
      · rw [slice_buffer_1 _ (by simpa [INDENT_BUFFER_LEN] using hle)]; simp
    · simp

theorem to_string_eq (i : Indent) (c : Config) (hts : c.hard_tabs = true → 1 ≤ c.tab_spaces) :
    i.to_string c = .ok (indentChars i c) := by
  simpa [Indent.to_string] using to_string_inner_eq i c 1 (Or.inr rfl) hts

theorem to_string_with_newline_eq (i : Indent) (c : Config)
    (hts : c.hard_tabs = true → 1 ≤ c.tab_spaces) :
    i.to_string_with_newline c = .ok ('\n' :: indentChars i c) := by
  simpa [Indent.to_string_with_newline] using to_string_inner_eq i c 0 (Or.inl rfl) hts

theorem shape_to_string_with_newline_eq (s : Shape) (c : Config)
    (hts : c.hard_tabs = true → 1 ≤ c.tab_spaces) :
    s.to_string_with_newline c =
      .ok ('\n' :: indentChars { s.indent with alignment := s.offset } c) := by
  simpa [Shape.to_string_with_newline] using
    to_string_inner_eq { s.indent with alignment := s.offset } c 0 (Or.inl rfl) hts

/-! ### Exact panic conditions -/

theorem usub_error_iff (a b : Nat) : (∃ e, usub a b = .error e) ↔ a < b := by
  unfold usub; split <;> simp_all

theorem usub_lt {a b : Nat} (h : a < b) : usub a b = .error .subOverflow := by
  simp [usub, h]

theorem usub_ge {a b : Nat} (h : b ≤ a) : usub a b = .ok (a - b) := by
  have : ¬ a < b := by omega
  simp [usub, this]

theorem indent_sub_error_iff (a b : Indent) :
    a.sub b = .error .subOverflow ↔ (a.block_indent < b.block_indent ∨ a.alignment < b.alignment) := by
  unfold Indent.sub
  by_cases h1 : a.block_indent < b.block_indent
  · simp [usub_lt h1, h1]
  · rw [usub_ge (by omega)]
    by_cases h2 : a.alignment < b.alignment
    · simp [usub_lt h2, h2]
    · rw [usub_ge (by omega)]; simp [h1, h2]

theorem indent_sub_ok_iff (a b : Indent) :
    a.sub b = .ok ⟨a.block_indent - b.block_indent, a.alignment - b.alignment⟩ ↔
      (b.block_indent ≤ a.block_indent ∧ b.alignment ≤ a.alignment) := by
  unfold Indent.sub
  by_cases h1 : a.block_indent < b.block_indent
  · simp [usub_lt h1]; omega
  · rw [usub_ge (by omega)]
    by_cases h2 : a.alignment < b.alignment
    · simp [usub_lt h2]; omega
    · rw [usub_ge (by omega)]; simp [Indent.new]; omega

theorem indent_sub_usize_error_iff (a : Indent) (n : Nat) :
    a.sub_usize n = .error .subOverflow ↔ a.alignment < n := by
  unfold Indent.sub_usize
  by_cases h : a.alignment < n
  · simp [usub_lt h, h]
  · rw [usub_ge (by omega)]; simp [h]

theorem indent_sub_usize_ok_iff (a : Indent) (n : Nat) :
    a.sub_usize n = .ok ⟨a.block_indent, a.alignment - n⟩ ↔ n ≤ a.alignment := by
  unfold Indent.sub_usize
  by_cases h : a.alignment < n
  · simp [usub_lt h]; omega
  · rw [usub_ge (by omega)]; simp [Indent.new]; omega

theorem from_width_error_iff (c : Config) (w : Nat) :
    Indent.from_width c w = .error .divByZero ↔ (c.hard_tabs = true ∧ c.tab_spaces = 0) := by
  unfold Indent.from_width udiv umod
  cases c.hard_tabs with
  | false => simp
  | true =>
    by_cases hz : c.tab_spaces = 0
    · simp [hz]
    · simp [hz]

theorem from_width_ok (c : Config) (w : Nat) (h : c.hard_tabs = true → 1 ≤ c.tab_spaces) :
    Indent.from_width c w = .ok
      (if c.hard_tabs then ⟨c.tab_spaces * (w / c.tab_spaces), w % c.tab_spaces⟩ else ⟨w, 0⟩) := by
  unfold Indent.from_width udiv umod Indent.new
  cases hh : c.hard_tabs with
  | false => simp
  | true =>
    have : c.tab_spaces ≠ 0 := by have := h hh; omega
    simp [this]

theorem block_unindent_ok (i : Indent) (c : Config) :
    i.block_unindent c = .ok
      (if i.block_indent < c.tab_spaces then ⟨i.block_indent, 0⟩
       else ⟨i.block_indent - c.tab_spaces, i.alignment⟩) := by
  unfold Indent.block_unindent usub Indent.new
  split
  · rfl
  · simp

/-- `to_string_inner` at an arbitrary offset: the complete panic condition. -/
theorem to_string_inner_error_iff (i : Indent) (c : Config) (off : Nat) :
    (∃ e, i.to_string_inner c off = .error e) ↔
      (c.hard_tabs = true ∧ c.tab_spaces = 0) ∨
      ((c.hard_tabs = true → c.tab_spaces ≠ 0) ∧
        (if c.hard_tabs then i.block_indent / c.tab_spaces = 0 ∧ i.alignment + off ≤ 80 ∧
            i.alignment + 1 < off
         else i.width + off ≤ 80 ∧ i.width + 1 < off)) := by
  unfold Indent.to_string_inner
  cases hh : c.hard_tabs with
  | false =>
    simp only [Bool.false_eq_true, if_false, true_and, false_and, false_or, false_implies,
      INDENT_BUFFER_LEN, Nat.zero_add]
    unfold sliceInclusive INDENT_BUFFER
    split
    · rename_i hle
      simp only [List.length_cons, List.length_replicate]
      split
      · rename_i hs; simp; omega
      · rename_i hs; simp; omega
    · rename_i hle; simp; omega
  | true =>
    by_cases hz : c.tab_spaces = 0
    · simp [udiv, hz]
    · simp only [udiv, hz, if_false, if_true, true_and, and_false, false_or, ne_eq,
        not_false_eq_true, forall_const, INDENT_BUFFER_LEN]
      unfold sliceInclusive INDENT_BUFFER
      simp only [List.length_cons, List.length_replicate]
      generalize i.block_indent / c.tab_spaces = q
      by_cases hle : q = 0 ∧ q + i.alignment + off ≤ 80
      · rw [if_pos hle]
        by_cases hs : off ≤ q + i.alignment + 1 ∧ q + i.alignment + 1 ≤ 80 + 1
        · rw [if_pos hs]; simp; omega
        · rw [if_neg hs]; simp; omega
      · rw [if_neg hle]; simp; omega
