import RF.Model.Config
/-!
Lemmas about `RF.Model.Config`: the `get`/`upd` algebra, what each operation does to each entry
(`get_*` lemmas: every operation is characterised by its effect on `get`), the frame and invariant
lemmas behind the C14 theorems.
-/
namespace RF.Lemmas.Config
open RF.Config RF.Gen.Options

/-! ## get / upd -/

theorem getE_nil (k : String) : getE [] k = dflt := rfl

theorem getE_cons (k' : String) (e : Entry) (r : Config) (k : String) :
    getE ((k', e) :: r) k = if k = k' then e else getE r k := by
  unfold getE
  simp only [List.lookup_cons]
  by_cases h : k = k'
  · subst h; simp
  · have : (k == k') = false := by simpa using h
    simp [this, h]

theorem getE_upd (c : Config) (k : String) (f : Entry → Entry) (k' : String) :
    getE (upd c k f) k' = if k' = k then f (getE c k) else getE c k' := by
  induction c with
  | nil =>
    simp only [upd, getE_cons, getE_nil]
  | cons p r ih =>
    obtain ⟨k0, e0⟩ := p
    simp only [upd]
    by_cases h0 : k0 = k
    · subst h0
      simp only [if_true, getE_cons]
      by_cases h1 : k' = k0 <;> simp [h1]
    · simp only [h0, if_false, getE_cons, ih]
      by_cases h1 : k' = k
      · subst h1
        have : ¬ k' = k0 := fun h => h0 h.symm
        simp [this]
      · simp [h1]

theorem getE_setVal (c : Config) (k : String) (v : Val) (k' : String) :
    getE (setVal c k v) k' = if k' = k then { getE c k with val := v } else getE c k' := by
  simp [setVal, getE_upd]

theorem getE_setWasSet (c : Config) (k k' : String) :
    getE (setWasSet c k) k' = if k' = k then { getE c k with wasSet := true } else getE c k' := by
  simp [setWasSet, getE_upd]

theorem getE_setWasSetCli (c : Config) (k k' : String) :
    getE (setWasSetCli c k) k' = if k' = k then { getE c k with wasSetCli := true } else getE c k' := by
  simp [setWasSetCli, getE_upd]

/-! ## set_width_heuristics / set_heuristics -/

/-- What `set_width_heuristics` does to the entry of a width key whose heuristic value is `hv`. -/
def widthEntry (mw hv : Nat) (e : Entry) : Entry :=
  { e with val := .nat (getWidthValue mw e.wasSet e.val.toNat hv) }

theorem lookup_eq_none_of_not_mem {β} (l : List (String × β)) (k : String)
    (h : k ∉ l.map (·.1)) : l.lookup k = none := by
  induction l with
  | nil => rfl
  | cons p r ih =>
    obtain ⟨k0, b⟩ := p
    simp only [List.map_cons, List.mem_cons, not_or] at h
    have : (k == k0) = false := by simpa using h.1
    simp [List.lookup_cons, this, ih h.2]

theorem getE_foldl_setOneWidth (mw : Nat) (l : List (String × Nat))
    (hnd : (l.map (·.1)).Nodup) (c : Config) (k : String) :
    getE (l.foldl (setOneWidth mw) c) k =
      match l.lookup k with
      | some hv => widthEntry mw hv (getE c k)
      | none => getE c k := by
  induction l generalizing c with
  | nil => rfl
  | cons p r ih =>
    obtain ⟨k0, h0⟩ := p
    simp only [List.map_cons, List.nodup_cons] at hnd
    simp only [List.foldl_cons, ih hnd.2, List.lookup_cons]
    by_cases hk : k = k0
    · subst hk
      simp only [beq_self_eq_true, lookup_eq_none_of_not_mem r k hnd.1]
      simp [setOneWidth, getE_setVal, widthEntry, wasSet, natOf]
    · have : (k == k0) = false := by simpa using hk
      simp only [this]
      simp [setOneWidth, getE_setVal, hk]

theorem toList_keys (h : WidthHeuristics) : h.toList.map (·.1) = widthKeys := rfl

theorem widthKeys_nodup : widthKeys.Nodup := by decide

theorem getE_setWidthHeuristics (c : Config) (h : WidthHeuristics) (k : String) :
    getE (setWidthHeuristics c h) k =
      match h.toList.lookup k with
      | some hv => widthEntry (natOf c "max_width") hv (getE c k)
      | none => getE c k :=
  getE_foldl_setOneWidth _ _ (by rw [toList_keys]; exact widthKeys_nodup) c k

/-- The heuristics `set_heuristics` installs, as a function of the two entries it reads. -/
def heurOf (mwE hE : Entry) : Option WidthHeuristics :=
  match Heuristics.ofVal? hE.val with
  | some .default => some (WidthHeuristics.scaled mwE.val.toNat)
  | some .max => some (WidthHeuristics.set mwE.val.toNat)
  | some .off => some WidthHeuristics.null
  | none => none

/-- `set_heuristics` entry by entry: the result at `k` depends on the entries of `max_width`,
`use_small_heuristics` and `k` only. -/
def heurEntry (mwE hE e : Entry) (k : String) : Entry :=
  match heurOf mwE hE with
  | none => e
  | some h =>
    match h.toList.lookup k with
    | some hv => widthEntry mwE.val.toNat hv e
    | none => e

theorem getE_setHeuristics (c : Config) (k : String) :
    getE (setHeuristics c) k =
      heurEntry (getE c "max_width") (getE c "use_small_heuristics") (getE c k) k := by
  unfold setHeuristics heurEntry heurOf
  cases h : Heuristics.ofVal? (getE c "use_small_heuristics").val with
  | none => rfl
  | some x => cases x <;> simp only [getE_setWidthHeuristics, natOf]

theorem lookup_toList_none (h : WidthHeuristics) (k : String) (hk : k ∉ widthKeys) :
    h.toList.lookup k = none :=
  lookup_eq_none_of_not_mem _ _ (by rw [toList_keys]; exact hk)

theorem heurEntry_of_not_width (mwE hE e : Entry) (k : String) (hk : k ∉ widthKeys) :
    heurEntry mwE hE e k = e := by
  unfold heurEntry
  cases heurOf mwE hE with
  | none => rfl
  | some h => simp [lookup_toList_none h k hk]

theorem heurEntry_wasSet (mwE hE e : Entry) (k : String) :
    (heurEntry mwE hE e k).wasSet = e.wasSet ∧ (heurEntry mwE hE e k).wasSetCli = e.wasSetCli := by
  unfold heurEntry
  cases heurOf mwE hE with
  | none => exact ⟨rfl, rfl⟩
  | some h =>
    simp only
    cases h.toList.lookup k with
    | none => exact ⟨rfl, rfl⟩
    | some hv => exact ⟨rfl, rfl⟩

theorem getE_setHeuristics_of_not_width (c : Config) (k : String) (hk : k ∉ widthKeys) :
    getE (setHeuristics c) k = getE c k := by
  rw [getE_setHeuristics, heurEntry_of_not_width _ _ _ _ hk]

theorem wasSet_setHeuristics (c : Config) (k : String) :
    wasSet (setHeuristics c) k = wasSet c k := by
  simp only [wasSet, getE_setHeuristics, (heurEntry_wasSet _ _ _ _).1]

/-! ## Alias setters -/

/-- Common shape of `set_merge_imports`, `set_fn_args_layout`, `set_hide_parse_errors`. -/
def setAlias (old new : String) (f : Val → Val) (c : Config) : Config :=
  if wasSet c old then
    if !wasSet c new then setVal c new (f (getE c old).val) else c
  else c

def mergeImportsMap (v : Val) : Val := .str (if v = .bool true then "Crate" else "Preserve")

theorem setMergeImports_eq (c : Config) :
    setMergeImports c = setAlias "merge_imports" "imports_granularity" mergeImportsMap c := rfl
theorem setFnArgsLayout_eq (c : Config) :
    setFnArgsLayout c = setAlias "fn_args_layout" "fn_params_layout" id c := rfl
theorem setHideParseErrors_eq (c : Config) :
    setHideParseErrors c = setAlias "hide_parse_errors" "show_parse_errors" negBool c := rfl

theorem getE_setAlias (old new : String) (f : Val → Val) (c : Config) (k : String) :
    getE (setAlias old new f c) k =
      if k = new ∧ wasSet c old = true ∧ wasSet c new = false then
        { getE c new with val := f (getE c old).val }
      else getE c k := by
  unfold setAlias
  by_cases h1 : wasSet c old = true <;> by_cases h2 : wasSet c new = true <;>
    simp [h1, h2, getE_setVal]
  all_goals (try (by_cases hk : k = new <;> simp [hk]))

def successorKeys : List String := ["imports_granularity", "fn_params_layout", "show_parse_errors"]

/-- `k` is not written by any of the dispatched methods in state `c`: it is not one of the eight
width options, and if it is the successor of a deprecated alias it has been set. -/
def Protected (c : Config) (k : String) : Prop :=
  k ∉ widthKeys ∧ (k ∈ successorKeys → wasSet c k = true)

theorem getE_setAlias_of_protected (old new : String) (f : Val → Val) (c : Config) (k : String)
    (h : k = new → wasSet c k = true) : getE (setAlias old new f c) k = getE c k := by
  rw [getE_setAlias]
  by_cases hk : k = new
  · have := h hk
    subst hk
    simp [this]
  · simp [hk]

theorem getE_applyMethod_of_protected (m : String) (c : Config) (k : String)
    (h : Protected c k) : getE (applyMethod m c) k = getE c k := by
  obtain ⟨hw, hs⟩ := h
  unfold applyMethod
  split
  · exact getE_setHeuristics_of_not_width c k hw
  split
  · rw [setMergeImports_eq]; exact getE_setAlias_of_protected _ _ _ _ _ (fun e => hs (by simp [e, successorKeys]))
  split
  · rw [setFnArgsLayout_eq]; exact getE_setAlias_of_protected _ _ _ _ _ (fun e => hs (by simp [e, successorKeys]))
  split
  · rw [setHideParseErrors_eq]; exact getE_setAlias_of_protected _ _ _ _ _ (fun e => hs (by simp [e, successorKeys]))
  split <;> rfl

theorem getE_dispatch_of_protected (T : List (List String × String)) (k' : String) (c : Config)
    (k : String) (h : Protected c k) : getE (dispatch T k' c) k = getE c k := by
  unfold dispatch
  cases methodFor T k' with
  | none => rfl
  | some m => exact getE_applyMethod_of_protected m c k h

/-! ## The generated dispatch tables -/

def heurKeys : List String := "max_width" :: "use_small_heuristics" :: widthKeys

def aliasKeys : List String := ["merge_imports", "fn_args_layout", "hide_parse_errors"]

def allDispatchKeys : List String := heurKeys ++ aliasKeys ++ ["version"]

def dispatchKeys (T : List (List String × String)) : List String := T.flatMap (·.1)

theorem methodFor_none (T : List (List String × String)) (k : String)
    (h : k ∉ dispatchKeys T) : methodFor T k = none := by
  unfold methodFor
  have : T.find? (fun row => row.1.contains k) = none := by
    rw [List.find?_eq_none]
    intro row hrow hc
    apply h
    simp only [dispatchKeys, List.mem_flatMap]
    exact ⟨row, hrow, by simpa using hc⟩
  rw [this]

theorem tables_agree :
    configSetterDispatch = overrideValueDispatch ∧ cliConfigSetterDispatch = overrideValueDispatch := by
  decide

theorem methodFor_heur :
    ∀ k ∈ heurKeys, methodFor overrideValueDispatch k = some "set_heuristics" := by decide

theorem methodFor_alias :
    methodFor overrideValueDispatch "merge_imports" = some "set_merge_imports" ∧
    methodFor overrideValueDispatch "fn_args_layout" = some "set_fn_args_layout" ∧
    methodFor overrideValueDispatch "hide_parse_errors" = some "set_hide_parse_errors" ∧
    methodFor overrideValueDispatch "version" = some "set_version" := by decide

theorem dispatchKeys_sub : ∀ k ∈ dispatchKeys overrideValueDispatch, k ∈ allDispatchKeys := by decide

theorem dispatch_heur (k : String) (hk : k ∈ heurKeys) (c : Config) :
    dispatch overrideValueDispatch k c = setHeuristics c := by
  unfold dispatch
  rw [methodFor_heur k hk]
  rfl

theorem dispatch_other (k : String) (hk : k ∉ allDispatchKeys) (c : Config) :
    dispatch overrideValueDispatch k c = c := by
  unfold dispatch
  rw [methodFor_none _ _ (fun h => hk (dispatchKeys_sub k h))]

theorem dispatch_merge_imports (c : Config) :
    dispatch overrideValueDispatch "merge_imports" c = setMergeImports c := by
  unfold dispatch; rw [methodFor_alias.1]; rfl
theorem dispatch_fn_args_layout (c : Config) :
    dispatch overrideValueDispatch "fn_args_layout" c = setFnArgsLayout c := by
  unfold dispatch; rw [methodFor_alias.2.1]; rfl
theorem dispatch_hide_parse_errors (c : Config) :
    dispatch overrideValueDispatch "hide_parse_errors" c = setHideParseErrors c := by
  unfold dispatch; rw [methodFor_alias.2.2.1]; rfl
theorem dispatch_version (c : Config) :
    dispatch overrideValueDispatch "version" c = c := by
  unfold dispatch; rw [methodFor_alias.2.2.2]; rfl

/-! ## The clamping invariant -/

def HeurOK (c : Config) : Prop := (Heuristics.ofVal? (getE c "use_small_heuristics").val).isSome = true

/-- Every width option that was set is at most `max_width`. -/
def Clamped (c : Config) : Prop :=
  ∀ w ∈ widthKeys, wasSet c w = true → natOf c w ≤ natOf c "max_width"

def Inv (c : Config) : Prop := HeurOK c ∧ Clamped c

theorem getWidthValue_le (mw ov hv : Nat) : getWidthValue mw true ov hv ≤ mw := by
  unfold getWidthValue
  simp only [Bool.not_true, Bool.false_eq_true, if_false]
  split <;> omega

theorem lookup_toList_some (h : WidthHeuristics) (k : String) (hk : k ∈ widthKeys) :
    ∃ hv, h.toList.lookup k = some hv := by
  simp only [widthKeys, List.mem_cons, List.not_mem_nil, or_false] at hk
  rcases hk with rfl | rfl | rfl | rfl | rfl | rfl | rfl | rfl <;> exact ⟨_, rfl⟩

theorem max_width_not_width : "max_width" ∉ widthKeys := by decide
theorem use_small_not_width : "use_small_heuristics" ∉ widthKeys := by decide

theorem natOf_max_width_setHeuristics (c : Config) :
    natOf (setHeuristics c) "max_width" = natOf c "max_width" := by
  simp only [natOf, getE_setHeuristics_of_not_width c _ max_width_not_width]

theorem heurOK_setHeuristics (c : Config) : HeurOK (setHeuristics c) ↔ HeurOK c := by
  simp only [HeurOK, getE_setHeuristics_of_not_width c _ use_small_not_width]

theorem heurOf_isSome (c : Config) (h : HeurOK c) :
    ∃ wh, heurOf (getE c "max_width") (getE c "use_small_heuristics") = some wh := by
  unfold HeurOK at h
  unfold heurOf
  cases hx : Heuristics.ofVal? (getE c "use_small_heuristics").val with
  | none => simp [hx] at h
  | some x => cases x <;> exact ⟨_, rfl⟩

/-- `explicit_width_clamped`, one step: right after `set_heuristics`, every width option that was
set is at most `max_width`. -/
theorem clamped_setHeuristics (c : Config) (h : HeurOK c) : Clamped (setHeuristics c) := by
  intro w hw hset
  rw [natOf_max_width_setHeuristics]
  rw [wasSet_setHeuristics] at hset
  obtain ⟨wh, hwh⟩ := heurOf_isSome c h
  obtain ⟨hv, hhv⟩ := lookup_toList_some wh w hw
  simp only [natOf, getE_setHeuristics, heurEntry, hwh, hhv, widthEntry]
  have : (getE c w).wasSet = true := hset
  rw [this]
  exact getWidthValue_le _ _ _

theorem inv_setHeuristics (c : Config) (h : HeurOK c) : Inv (setHeuristics c) :=
  ⟨(heurOK_setHeuristics c).2 h, clamped_setHeuristics c h⟩

theorem not_heur_cases (k : String) (hk : k ∉ heurKeys) :
    k ≠ "max_width" ∧ k ≠ "use_small_heuristics" ∧ k ∉ widthKeys := by
  simp only [heurKeys, List.mem_cons, not_or] at hk
  exact ⟨hk.1, hk.2.1, hk.2.2⟩

/-- Two configs that agree on the ten entries the heuristics read or write. -/
theorem inv_congr (c c' : Config) (h : ∀ k ∈ heurKeys, getE c' k = getE c k) (hi : Inv c) :
    Inv c' := by
  have hmw : getE c' "max_width" = getE c "max_width" := h _ (by decide)
  have hus : getE c' "use_small_heuristics" = getE c "use_small_heuristics" := h _ (by decide)
  refine ⟨by simpa only [HeurOK, hus] using hi.1, ?_⟩
  intro w hw hset
  have hww : getE c' w = getE c w := h w (by simp only [heurKeys, List.mem_cons]; exact .inr (.inr hw))
  simp only [natOf, wasSet, hww, hmw] at hset ⊢
  exact hi.2 w hw hset

theorem inv_upd_of_not_heur (c : Config) (k : String) (f : Entry → Entry) (hk : k ∉ heurKeys)
    (hi : Inv c) : Inv (upd c k f) :=
  inv_congr c _ (fun k' hk' => by
    rw [getE_upd]
    have : k' ≠ k := fun e => hk (e ▸ hk')
    simp [this]) hi

theorem inv_setAlias (old new : String) (f : Val → Val) (c : Config) (hn : new ∉ heurKeys)
    (hi : Inv c) : Inv (setAlias old new f c) := by
  unfold setAlias
  split
  · split
    · exact inv_upd_of_not_heur c new _ hn hi
    · exact hi
  · exact hi

theorem inv_applyMethod (m : String) (c : Config) (hi : Inv c) : Inv (applyMethod m c) := by
  unfold applyMethod
  split
  · exact inv_setHeuristics c hi.1
  split
  · rw [setMergeImports_eq]; exact inv_setAlias _ _ _ _ (by decide) hi
  split
  · rw [setFnArgsLayout_eq]; exact inv_setAlias _ _ _ _ (by decide) hi
  split
  · rw [setHideParseErrors_eq]; exact inv_setAlias _ _ _ _ (by decide) hi
  split <;> exact hi

theorem inv_dispatch (T : List (List String × String)) (k : String) (c : Config) (hi : Inv c) :
    Inv (dispatch T k c) := by
  unfold dispatch
  cases methodFor T k with
  | none => exact hi
  | some m => exact inv_applyMethod m c hi

theorem tagOf_use_small : tagOf "use_small_heuristics" = some .str := by decide

theorem heuristics_ofVal_of_checkVal (v : Val) (h : checkVal "use_small_heuristics" v = true) :
    (Heuristics.ofVal? v).isSome = true := by
  unfold checkVal at h
  rw [tagOf_use_small] at h
  cases v with
  | nat n => simp at h
  | bool b => simp at h
  | str s =>
    simp only [enumOk, if_true, List.contains_cons, List.contains_nil, Bool.or_false,
      Bool.or_eq_true, beq_iff_eq] at h
    rcases h with rfl | rfl | rfl <;> rfl

/-- A store (`.2 = v`, optionally `.1 = true` / `.4 = true`) of a checked value keeps `HeurOK`. -/
theorem heurOK_store (c : Config) (k : String) (f : Entry → Entry) (v : Val)
    (hf : ∀ e, (f e).val = v) (hv : checkVal k v = true) (h : HeurOK c) : HeurOK (upd c k f) := by
  unfold HeurOK
  rw [getE_upd]
  by_cases hk : "use_small_heuristics" = k
  · subst hk
    simp only [if_true, hf]
    exact heuristics_ofVal_of_checkVal v hv
  · simp only [hk, if_false]; exact h

/-- The three setters as one `upd`. -/
def storeFn (ws wc : Bool) (v : Val) (e : Entry) : Entry :=
  ⟨v, e.wasSet || ws, e.wasSetCli || wc⟩

theorem getE_override_store (c : Config) (k : String) (v : Val) (k' : String) :
    getE (setVal (setWasSet c k) k v) k' = getE (upd c k (storeFn true false v)) k' := by
  simp only [getE_setVal, getE_setWasSet, getE_upd, storeFn]
  by_cases h : k' = k <;> simp [h]

theorem getE_cli_store (c : Config) (k : String) (v : Val) (k' : String) :
    getE (setWasSetCli (setVal c k v) k) k' = getE (upd c k (storeFn false true v)) k' := by
  simp only [getE_setVal, getE_setWasSetCli, getE_upd, storeFn]
  by_cases h : k' = k <;> simp [h]

theorem getE_set_store (c : Config) (k : String) (v : Val) (k' : String) :
    getE (setVal c k v) k' = getE (upd c k (storeFn false false v)) k' := by
  simp only [getE_setVal, getE_upd, storeFn]
  by_cases h : k' = k <;> simp [h]

/-- Any store followed by the dispatch of a table that sends the ten heuristics keys to
`set_heuristics` keeps the invariant. -/
theorem inv_store_dispatch (T : List (List String × String))
    (hT : ∀ k ∈ heurKeys, methodFor T k = some "set_heuristics")
    (c c1 : Config) (k : String) (v : Val) (ws wc : Bool)
    (hc1 : ∀ k', getE c1 k' = getE (upd c k (storeFn ws wc v)) k')
    (hv : checkVal k v = true) (hi : Inv c) : Inv (dispatch T k c1) := by
  have hok : HeurOK c1 := by
    have := heurOK_store c k (storeFn ws wc v) v (fun _ => rfl) hv hi.1
    simpa only [HeurOK, hc1] using this
  by_cases hk : k ∈ heurKeys
  · unfold dispatch
    rw [hT k hk]
    exact inv_setHeuristics c1 hok
  · apply inv_dispatch
    exact inv_congr (upd c k (storeFn ws wc v)) c1 (fun k' _ => hc1 k')
      (inv_upd_of_not_heur c k _ hk hi)

theorem inv_overrideValue (c c' : Config) (k : String) (v : Val)
    (h : overrideValue c k v = some c') (hi : Inv c) : Inv c' := by
  unfold overrideValue at h
  split at h
  · next hv =>
    cases h
    exact inv_store_dispatch _ methodFor_heur c _ k v true false (getE_override_store c k v) hv hi
  · cases h

theorem inv_configSet (c c' : Config) (k : String) (v : Val)
    (h : configSet c k v = some c') (hi : Inv c) : Inv c' := by
  unfold configSet at h
  split at h
  · next hv =>
    cases h
    exact inv_store_dispatch _ (tables_agree.1 ▸ methodFor_heur) c _ k v false false
      (getE_set_store c k v) hv hi
  · cases h

theorem inv_configSetCli (c c' : Config) (k : String) (v : Val)
    (h : configSetCli c k v = some c') (hi : Inv c) : Inv c' := by
  unfold configSetCli at h
  split at h
  · next hv =>
    cases h
    exact inv_store_dispatch _ (tables_agree.2 ▸ methodFor_heur) c _ k v false true
      (getE_cli_store c k v) hv hi
  · cases h

/-! ## Defaults -/

theorem lookup_map_snd {β γ} (l : List (String × β)) (g : String × β → γ) (k : String) :
    (l.map fun o => (o.1, g o)).lookup k =
      match l.lookup k with
      | some b => some (g (k, b))
      | none => none := by
  induction l with
  | nil => rfl
  | cons p r ih =>
    obtain ⟨k0, b⟩ := p
    simp only [List.map_cons, List.lookup_cons]
    by_cases h : k = k0
    · subst h; simp
    · have : (k == k0) = false := by simpa using h
      simp only [this, ih]

theorem getE_default (se : StyleEdition) (k : String) :
    getE (defaultWithStyleEdition se) k =
      match options.lookup k with
      | some o => ⟨defaultValFor se o.1, false, false⟩
      | none => dflt := by
  unfold getE defaultWithStyleEdition
  rw [lookup_map_snd options (fun o => (⟨defaultValFor se o.2.1, false, false⟩ : Entry)) k]
  cases options.lookup k <;> rfl

theorem wasSet_default (se : StyleEdition) (k : String) :
    wasSet (defaultWithStyleEdition se) k = false := by
  unfold wasSet
  rw [getE_default]
  cases options.lookup k <;> rfl

theorem wasSetCli_default (se : StyleEdition) (k : String) :
    wasSetCli (defaultWithStyleEdition se) k = false := by
  unfold wasSetCli
  rw [getE_default]
  cases options.lookup k <;> rfl

theorem heurOK_default (se : StyleEdition) : HeurOK (defaultWithStyleEdition se) := by
  cases se <;> (unfold HeurOK; decide)

theorem inv_default (se : StyleEdition) : Inv (defaultWithStyleEdition se) :=
  ⟨heurOK_default se, fun w _ h => by rw [wasSet_default] at h; cases h⟩

theorem defaultForPossible_eq (se : Option StyleEdition) (ed : Option Edition)
    (ver : Option Version) :
    defaultForPossibleStyleEdition se ed ver =
      defaultWithStyleEdition (chosenStyleEdition se ed ver) := by
  unfold defaultForPossibleStyleEdition chosenStyleEdition
  cases se with
  | some s => rfl
  | none =>
    cases ver with
    | some v => cases v <;> rfl
    | none => cases ed <;> rfl

/-! ## fill_from_parsed_config -/

/-- What the store loop of `fill_from_parsed_config` does to the entry of option `k`. -/
def fillEntry (env : Env) (parsed : List (String × Val)) (k : String) (e : Entry) : Entry :=
  match parsed.lookup k with
  | some v => if isStableOptionAndValue env k v then storeFn true false v e else e
  | none => e

theorem getE_fillStore (env : Env) (parsed : List (String × Val)) (c : Config) (a k : String) :
    getE (fillStore env parsed c a) k =
      if k = a then fillEntry env parsed a (getE c a) else getE c k := by
  unfold fillStore fillEntry
  cases parsed.lookup a with
  | none => by_cases h : k = a <;> simp [h]
  | some v =>
    simp only
    split
    · rw [getE_override_store, getE_upd]
    · by_cases h : k = a <;> simp [h]

theorem fillEntry_idem (env : Env) (parsed : List (String × Val)) (k : String) (e : Entry) :
    fillEntry env parsed k (fillEntry env parsed k e) = fillEntry env parsed k e := by
  unfold fillEntry
  cases parsed.lookup k with
  | none => rfl
  | some v =>
    simp only
    split
    · simp [storeFn]
    · rfl

theorem getE_fillFold (env : Env) (parsed : List (String × Val)) (l : List String) (c : Config)
    (k : String) :
    getE (l.foldl (fillStore env parsed) c) k =
      if k ∈ l then fillEntry env parsed k (getE c k) else getE c k := by
  induction l generalizing c with
  | nil => simp
  | cons a r ih =>
    simp only [List.foldl_cons, ih, getE_fillStore, List.mem_cons]
    by_cases h1 : k = a
    · subst h1
      by_cases h2 : k ∈ r <;> simp [h2, fillEntry_idem]
    · simp [h1]

theorem mem_of_lookup {β} (l : List (String × β)) (k : String) (b : β)
    (h : l.lookup k = some b) : (k, b) ∈ l := by
  induction l with
  | nil => cases h
  | cons p r ih =>
    obtain ⟨k0, b0⟩ := p
    simp only [List.lookup_cons] at h
    by_cases hk : k = k0
    · subst hk
      simp at h
      subst h
      exact List.mem_cons_self
    · have : (k == k0) = false := by simpa using hk
      simp only [this] at h
      exact List.mem_cons_of_mem _ (ih h)

theorem checkVal_of_validParsed (parsed : List (String × Val)) (hv : validParsed parsed = true)
    (k : String) (v : Val) (hl : parsed.lookup k = some v) (hk : k ∈ optionNames) :
    checkVal k v = true := by
  have hm := mem_of_lookup parsed k v hl
  unfold validParsed at hv
  rw [List.all_eq_true] at hv
  have := hv (k, v) hm
  simp only [isValidName, List.contains_eq_mem, hk, decide_true, Bool.not_true, Bool.false_or] at this
  exact this

theorem heurOK_fillFold (env : Env) (parsed : List (String × Val))
    (hv : validParsed parsed = true) (c : Config) (h : HeurOK c) :
    HeurOK (optionNames.foldl (fillStore env parsed) c) := by
  unfold HeurOK
  rw [getE_fillFold]
  have hmem : "use_small_heuristics" ∈ optionNames := by decide
  simp only [hmem, if_true, fillEntry]
  cases hl : parsed.lookup "use_small_heuristics" with
  | none => exact h
  | some v =>
    simp only
    split
    · exact heuristics_ofVal_of_checkVal v (checkVal_of_validParsed parsed hv _ v hl hmem)
    · exact h

theorem inv_fillFromParsedConfig (env : Env) (parsed : List (String × Val))
    (hv : validParsed parsed = true) (c : Config) (h : HeurOK c) :
    Inv (fillFromParsedConfig env c parsed) := by
  unfold fillFromParsedConfig setVersion
  simp only
  rw [setHideParseErrors_eq, setFnArgsLayout_eq, setMergeImports_eq]
  exact inv_setAlias _ _ _ _ (by decide) (inv_setAlias _ _ _ _ (by decide)
    (inv_setAlias _ _ _ _ (by decide) (inv_setHeuristics _ (heurOK_fillFold env parsed hv c h))))

theorem inv_runOp (env : Env) (c c' : Config) (op : Op) (h : runOp env c op = some c')
    (hi : Inv c) : Inv c' := by
  cases op with
  | file parsed =>
    simp only [runOp] at h
    split at h
    · next hv => cases h; exact inv_fillFromParsedConfig env parsed hv c hi.1
    · cases h
  | toml parsed =>
    simp only [runOp, fromToml] at h
    split at h
    · next hv =>
      cases h
      unfold toParsedConfig
      rw [defaultForPossible_eq]
      exact inv_fillFromParsedConfig env parsed hv _ (heurOK_default _)
    · cases h
  | override k v => exact inv_overrideValue c c' k v h hi
  | set k v => exact inv_configSet c c' k v h hi
  | setCli k v => exact inv_configSetCli c c' k v h hi

theorem inv_runOps (env : Env) (ops : List Op) (c c' : Config) (h : runOps env ops c = some c')
    (hi : Inv c) : Inv c' := by
  induction ops generalizing c with
  | nil => simp only [runOps] at h; cases h; exact hi
  | cons op r ih =>
    simp only [runOps] at h
    cases h1 : runOp env c op with
    | none => simp [h1] at h
    | some c1 =>
      simp only [h1] at h
      exact ih c1 h (inv_runOp env c c1 op h1 hi)

/-! ## Heuristic widths against max_width -/

theorem set_le (mw : Nat) : ∀ p ∈ (WidthHeuristics.set mw).toList, p.2 ≤ mw := by
  intro p hp
  simp only [WidthHeuristics.set, WidthHeuristics.toList, List.mem_cons, List.not_mem_nil,
    or_false] at hp
  rcases hp with rfl | rfl | rfl | rfl | rfl | rfl | rfl | rfl <;> exact Nat.le_refl _

theorem scaled_le_iff (mw : Nat) :
    (∀ p ∈ (WidthHeuristics.scaled mw).toList, p.2 ≤ mw) ↔ 70 ≤ mw := by
  simp only [WidthHeuristics.scaled, WidthHeuristics.toList, List.mem_cons, List.not_mem_nil,
    or_false, forall_eq_or_imp, forall_eq, scaleBy, ratio10]
  by_cases h : mw > 100
  · simp only [h, if_true]; omega
  · simp only [h, if_false, Nat.reduceMul, Nat.reduceAdd, Nat.reduceDiv]; omega

/-- Exact threshold for each of the eight widths. -/
theorem scaled_each_le_iff (mw : Nat) :
    let h := WidthHeuristics.scaled mw
    (h.fnCallWidth ≤ mw ↔ 60 ≤ mw) ∧ (h.attrFnLikeWidth ≤ mw ↔ 70 ≤ mw) ∧
    (h.structLitWidth ≤ mw ↔ 18 ≤ mw) ∧ (h.structVariantWidth ≤ mw ↔ 35 ≤ mw) ∧
    (h.arrayWidth ≤ mw ↔ 60 ≤ mw) ∧ (h.chainWidth ≤ mw ↔ 60 ≤ mw) ∧
    (h.singleLineIfElseMaxWidth ≤ mw ↔ 50 ≤ mw) ∧ (h.singleLineLetElseMaxWidth ≤ mw ↔ 50 ≤ mw) := by
  simp only [WidthHeuristics.scaled, scaleBy, ratio10]
  by_cases h : mw > 100
  · simp only [h, if_true]; omega
  · simp [h]

theorem getWidthValue_le_of (mw ov hv : Nat) (ws : Bool) (h : hv ≤ mw) :
    getWidthValue mw ws ov hv ≤ mw := by
  unfold getWidthValue
  split
  · exact h
  · split <;> omega

theorem mem_of_lookup_nat (l : List (String × Nat)) (k : String) (b : Nat)
    (h : l.lookup k = some b) : (k, b) ∈ l := mem_of_lookup l k b h

/-- After `set_heuristics`, every width option (set or not) is at most `max_width`, provided the
heuristics in force are all at most `max_width`. -/
theorem widths_le_of_heur_le (c : Config) (wh : WidthHeuristics)
    (hwh : heurOf (getE c "max_width") (getE c "use_small_heuristics") = some wh)
    (hle : ∀ p ∈ wh.toList, p.2 ≤ natOf c "max_width") :
    ∀ w ∈ widthKeys, natOf (setHeuristics c) w ≤ natOf (setHeuristics c) "max_width" := by
  intro w hw
  rw [natOf_max_width_setHeuristics]
  obtain ⟨hv, hhv⟩ := lookup_toList_some wh w hw
  simp only [natOf, getE_setHeuristics, heurEntry, hwh, hhv, widthEntry]
  exact getWidthValue_le_of _ _ _ _ (hle (w, hv) (mem_of_lookup_nat _ _ _ hhv))

/-! ## Directory search -/

section Dir
variable {α : Type}

theorem getTomlPath_eq [DecidableEq α] (t : Tree α) (d : List α) :
    getTomlPath t d =
      if hasDotted t d then some ⟨d, true⟩
      else if hasPlain t d then some ⟨d, false⟩ else none := by
  simp only [getTomlPath, List.findSome?, fileExists]
  by_cases h1 : hasDotted t d = true <;> by_cases h2 : hasPlain t d = true <;> simp [h1, h2]

theorem getTomlPath_some [DecidableEq α] (t : Tree α) (d : List α) (f : ConfigFile α)
    (h : getTomlPath t d = some f) : f.dir = d ∧ fileExists t f = true := by
  rw [getTomlPath_eq] at h
  by_cases h1 : hasDotted t d = true
  · simp only [h1, if_true, Option.some.injEq] at h; subst h; simp [fileExists, h1]
  · by_cases h2 : hasPlain t d = true
    · simp only [h1, h2, if_true, if_false, Bool.false_eq_true, Option.some.injEq] at h
      subst h; simp [fileExists, h2]
    · simp [h1, h2] at h

theorem mem_ancestorsRev (r : List α) (b : List α) : b ∈ ancestorsRev r ↔ b <+: r.reverse := by
  induction r with
  | nil => simp [ancestorsRev]
  | cons x r ih =>
    simp only [ancestorsRev, List.mem_cons, ih, List.reverse_cons, List.prefix_concat_iff]

theorem mem_ancestors (d b : List α) : b ∈ ancestors d ↔ b <+: d := by
  simp [ancestors, mem_ancestorsRev]

/-- The first hit of a search along `ancestorsRev r` is the longest prefix with a hit. -/
theorem findSome_ancestorsRev {β} (g : List α → Option β) (r : List α) (x : β)
    (h : (ancestorsRev r).findSome? g = some x) :
    ∃ d, d <+: r.reverse ∧ g d = some x ∧
      ∀ b, b <+: r.reverse → d.length < b.length → g b = none := by
  induction r with
  | nil =>
    simp only [ancestorsRev, List.findSome?] at h
    refine ⟨[], List.prefix_refl _, ?_, ?_⟩
    · cases hg : g [] with
      | none => simp [hg] at h
      | some y => simp [hg] at h; rw [h]
    · intro b hb hlen
      have hb' : b = [] := by simpa using hb
      subst hb'
      simp at hlen
  | cons a r ih =>
    simp only [ancestorsRev, List.findSome?] at h
    cases hg : g (a :: r).reverse with
    | some y =>
      simp only [hg, Option.some.injEq] at h
      subst h
      refine ⟨(a :: r).reverse, List.prefix_refl _, hg, ?_⟩
      intro b hb hlen
      have := hb.length_le
      omega
    | none =>
      simp only [hg] at h
      obtain ⟨d, hd, hgd, hmax⟩ := ih h
      refine ⟨d, ?_, hgd, ?_⟩
      · rw [List.reverse_cons]; exact hd.trans (List.prefix_append _ _)
      · intro b hb hlen
        rw [List.reverse_cons, List.prefix_concat_iff] at hb
        rcases hb with rfl | hb
        · rw [← List.reverse_cons]; exact hg
        · exact hmax b hb hlen

theorem findSome_ancestors_none {β} (g : List α → Option β) (d : List α) :
    (ancestors d).findSome? g = none ↔ ∀ b, b <+: d → g b = none := by
  rw [List.findSome?_eq_none_iff]
  simp only [mem_ancestors]

theorem resolve_ok [DecidableEq α] (fs : FS α) (dir : List α) (h : dirExists fs.tree dir = true) :
    resolveProjectFile fs dir =
      .ok (((ancestors dir).findSome? (getTomlPath fs.tree)).or
        ((fs.home.toList.findSome? (getTomlPath fs.tree)).or
          ((fs.configDir.map (· ++ [fs.rustfmtName])).toList.findSome? (getTomlPath fs.tree)))) := by
  unfold resolveProjectFile
  simp only [h, Bool.not_true, Bool.false_eq_true, if_false, List.findSome?_append, List.append_assoc]

end Dir

/-! ## Frames: which entries a setter call can change -/

theorem protected_congr (c c' : Config) (k : String) (h : getE c' k = getE c k)
    (hp : Protected c k) : Protected c' k :=
  ⟨hp.1, fun hs => by simpa only [wasSet, h] using hp.2 hs⟩

/-- A store at `k` followed by any dispatch leaves a protected `k0 ≠ k` alone. -/
theorem store_dispatch_frame (T : List (List String × String)) (c c1 : Config) (k : String)
    (f : Entry → Entry) (hc1 : ∀ k', getE c1 k' = getE (upd c k f) k')
    (k0 : String) (hne : k0 ≠ k) (hp : Protected c k0) :
    getE (dispatch T k c1) k0 = getE c k0 := by
  have h0 : getE c1 k0 = getE c k0 := by rw [hc1, getE_upd]; simp [hne]
  rw [getE_dispatch_of_protected T k c1 k0 (protected_congr c c1 k0 h0 hp), h0]

/-- A store at `k` followed by any dispatch keeps the stored entry when `k` is not a width option
and, if it is an alias successor, ends up marked as set. -/
theorem store_dispatch_self (T : List (List String × String)) (c c1 : Config) (k : String)
    (f : Entry → Entry) (hc1 : ∀ k', getE c1 k' = getE (upd c k f) k')
    (hw : k ∉ widthKeys) (hs : k ∈ successorKeys → (f (getE c k)).wasSet = true) :
    getE (dispatch T k c1) k = f (getE c k) := by
  have h0 : getE c1 k = f (getE c k) := by rw [hc1, getE_upd]; simp
  rw [getE_dispatch_of_protected T k c1 k ⟨hw, fun h => by simpa only [wasSet, h0] using hs h⟩, h0]

theorem overrideValue_frame (c c' : Config) (k v) (h : overrideValue c k v = some c')
    (k0 : String) (hne : k0 ≠ k) (hp : Protected c k0) : getE c' k0 = getE c k0 := by
  unfold overrideValue at h
  split at h
  · cases h; exact store_dispatch_frame _ c _ k _ (getE_override_store c k v) k0 hne hp
  · cases h

theorem overrideValue_self (c c' : Config) (k v) (h : overrideValue c k v = some c')
    (hw : k ∉ widthKeys) : getE c' k = storeFn true false v (getE c k) := by
  unfold overrideValue at h
  split at h
  · cases h
    exact store_dispatch_self _ c _ k _ (getE_override_store c k v) hw (fun _ => by simp [storeFn])
  · cases h

theorem configSet_frame (c c' : Config) (k v) (h : configSet c k v = some c')
    (k0 : String) (hne : k0 ≠ k) (hp : Protected c k0) : getE c' k0 = getE c k0 := by
  unfold configSet at h
  split at h
  · cases h; exact store_dispatch_frame _ c _ k _ (getE_set_store c k v) k0 hne hp
  · cases h

theorem configSetCli_frame (c c' : Config) (k v) (h : configSetCli c k v = some c')
    (k0 : String) (hne : k0 ≠ k) (hp : Protected c k0) : getE c' k0 = getE c k0 := by
  unfold configSetCli at h
  split at h
  · cases h; exact store_dispatch_frame _ c _ k _ (getE_cli_store c k v) k0 hne hp
  · cases h

theorem configSet_self (c c' : Config) (k v) (h : configSet c k v = some c')
    (hw : k ∉ widthKeys) (hs : k ∉ successorKeys) : getE c' k = storeFn false false v (getE c k) := by
  unfold configSet at h
  split at h
  · cases h
    exact store_dispatch_self _ c _ k _ (getE_set_store c k v) hw (fun h => absurd h hs)
  · cases h

theorem configSetCli_self (c c' : Config) (k v) (h : configSetCli c k v = some c')
    (hw : k ∉ widthKeys) (hs : k ∉ successorKeys) : getE c' k = storeFn false true v (getE c k) := by
  unfold configSetCli at h
  split at h
  · cases h
    exact store_dispatch_self _ c _ k _ (getE_cli_store c k v) hw (fun h => absurd h hs)
  · cases h

/-! ## Extensional equality and footprints -/

/-- Same effective configuration: every option has the same value and provenance bits. -/
def Equiv (a b : Config) : Prop := ∀ k, getE a k = getE b k

theorem Equiv.refl (a : Config) : Equiv a a := fun _ => rfl
theorem Equiv.symm {a b : Config} (h : Equiv a b) : Equiv b a := fun k => (h k).symm
theorem Equiv.trans {a b c : Config} (h1 : Equiv a b) (h2 : Equiv b c) : Equiv a c :=
  fun k => (h1 k).trans (h2 k)

/-- `F` reads and writes only the entries of the keys in `B`. -/
def Local (B : List String) (F : Config → Config) : Prop :=
  (∀ c k, k ∉ B → getE (F c) k = getE c k) ∧
  (∀ c1 c2, (∀ k ∈ B, getE c1 k = getE c2 k) → ∀ k ∈ B, getE (F c1) k = getE (F c2) k)

theorem Local.congr {B F} (h : Local B F) {a b : Config} (e : Equiv a b) : Equiv (F a) (F b) := by
  intro k
  by_cases hk : k ∈ B
  · exact h.2 a b (fun k' _ => e k') k hk
  · rw [h.1 a k hk, h.1 b k hk]; exact e k

theorem Local.mono {B B' F} (h : Local B F) (hs : ∀ k ∈ B, k ∈ B') : Local B' F := by
  refine ⟨fun c k hk => h.1 c k (fun hb => hk (hs k hb)), fun c1 c2 hag k hk => ?_⟩
  by_cases hb : k ∈ B
  · exact h.2 c1 c2 (fun k' hk' => hag k' (hs k' hk')) k hb
  · rw [h.1 c1 k hb, h.1 c2 k hb]; exact hag k hk

theorem Local.comp {B F G} (hF : Local B F) (hG : Local B G) : Local B (fun c => G (F c)) :=
  ⟨fun c k hk => by rw [hG.1 _ k hk, hF.1 c k hk],
   fun c1 c2 hag k hk => hG.2 _ _ (hF.2 c1 c2 hag) k hk⟩

theorem Local.id (B : List String) : Local B (fun c => c) :=
  ⟨fun _ _ _ => rfl, fun _ _ h => h⟩

/-- Operations with disjoint footprints commute. -/
theorem Local.comm {B1 B2 F1 F2} (h1 : Local B1 F1) (h2 : Local B2 F2)
    (hd : ∀ k ∈ B1, k ∉ B2) (c : Config) : Equiv (F2 (F1 c)) (F1 (F2 c)) := by
  intro k
  by_cases hk1 : k ∈ B1
  · rw [h2.1 _ k (hd k hk1)]
    exact h1.2 c (F2 c) (fun k' hk' => (h2.1 c k' (hd k' hk')).symm) k hk1
  · rw [h1.1 _ k hk1]
    by_cases hk2 : k ∈ B2
    · exact h2.2 (F1 c) c (fun k' hk' => h1.1 c k' (fun hb => hd k' hb hk')) k hk2
    · rw [h2.1 _ k hk2, h2.1 _ k hk2, h1.1 _ k hk1]

theorem local_upd (k : String) (f : Entry → Entry) : Local [k] (fun c => upd c k f) := by
  refine ⟨fun c k' hk' => ?_, fun c1 c2 hag k' hk' => ?_⟩
  · rw [getE_upd]; simp only [List.mem_singleton] at hk'; simp [hk']
  · simp only [List.mem_singleton] at hk'
    subst hk'
    simp only [getE_upd, if_true]
    rw [hag k' (List.mem_singleton.2 rfl)]

theorem local_setHeuristics : Local heurKeys setHeuristics := by
  refine ⟨fun c k hk => getE_setHeuristics_of_not_width c k (not_heur_cases k hk).2.2,
    fun c1 c2 hag k hk => ?_⟩
  rw [getE_setHeuristics, getE_setHeuristics, hag _ (by decide : "max_width" ∈ heurKeys),
    hag _ (by decide : "use_small_heuristics" ∈ heurKeys), hag k hk]

theorem local_setAlias (old new : String) (f : Val → Val) : Local [old, new] (setAlias old new f) := by
  refine ⟨fun c k hk => ?_, fun c1 c2 hag k _ => ?_⟩
  · simp only [List.mem_cons, List.not_mem_nil, or_false, not_or] at hk
    rw [getE_setAlias]; simp [hk.2]
  · have ho := hag old (by simp)
    have hn := hag new (by simp)
    by_cases hk : k = new
    · subst hk; simp only [getE_setAlias, wasSet, ho, hn]
    · have hkk : getE c1 k = getE c2 k := hag k ‹_›
      simp only [getE_setAlias, hk, false_and, if_false, hkk]

theorem local_setMergeImports : Local ["merge_imports", "imports_granularity"] setMergeImports :=
  local_setAlias "merge_imports" "imports_granularity" mergeImportsMap
theorem local_setFnArgsLayout : Local ["fn_args_layout", "fn_params_layout"] setFnArgsLayout :=
  local_setAlias "fn_args_layout" "fn_params_layout" id
theorem local_setHideParseErrors :
    Local ["hide_parse_errors", "show_parse_errors"] setHideParseErrors :=
  local_setAlias "hide_parse_errors" "show_parse_errors" negBool

theorem applyMethod_cases (m : String) :
    applyMethod m = setHeuristics ∨ applyMethod m = setMergeImports ∨
    applyMethod m = setFnArgsLayout ∨ applyMethod m = setHideParseErrors ∨
    applyMethod m = fun c => c := by
  by_cases h1 : m = "set_heuristics"
  · left; funext c; simp [applyMethod, h1]
  by_cases h2 : m = "set_merge_imports"
  · right; left; funext c; simp [applyMethod, h2]
  by_cases h3 : m = "set_fn_args_layout"
  · right; right; left; funext c; simp [applyMethod, h3]
  by_cases h4 : m = "set_hide_parse_errors"
  · right; right; right; left; funext c; simp [applyMethod, h4]
  · right; right; right; right; funext c; simp [applyMethod, h1, h2, h3, h4, setVersion]

theorem local_applyMethod (m : String) :
    ∃ B, B ∈ [heurKeys, ["merge_imports", "imports_granularity"],
      ["fn_args_layout", "fn_params_layout"], ["hide_parse_errors", "show_parse_errors"], []] ∧
      Local B (applyMethod m) := by
  rcases applyMethod_cases m with h | h | h | h | h <;> rw [h]
  · exact ⟨_, by simp, local_setHeuristics⟩
  · exact ⟨_, by simp, local_setMergeImports⟩
  · exact ⟨_, by simp, local_setFnArgsLayout⟩
  · exact ⟨_, by simp, local_setHideParseErrors⟩
  · exact ⟨[], by simp, Local.id []⟩

/-- Every dispatched method respects extensional equality. -/
theorem equiv_applyMethod (m : String) {a b : Config} (e : Equiv a b) :
    Equiv (applyMethod m a) (applyMethod m b) := by
  obtain ⟨B, _, hB⟩ := local_applyMethod m
  exact hB.congr e

theorem equiv_dispatch (T : List (List String × String)) (k : String) {a b : Config}
    (e : Equiv a b) : Equiv (dispatch T k a) (dispatch T k b) := by
  unfold dispatch
  cases methodFor T k with
  | none => exact e
  | some m => exact equiv_applyMethod m e

theorem equiv_upd (k : String) (f : Entry → Entry) {a b : Config} (e : Equiv a b) :
    Equiv (upd a k f) (upd b k f) := (local_upd k f).congr e

/-- The core of `override_value` as a function: store, then dispatch. -/
def ov (k : String) (v : Val) (c : Config) : Config :=
  dispatch overrideValueDispatch k (upd c k (storeFn true false v))

theorem overrideValue_equiv_ov (c c' : Config) (k : String) (v : Val)
    (h : overrideValue c k v = some c') : Equiv c' (ov k v c) := by
  unfold overrideValue at h
  split at h
  · cases h; exact equiv_dispatch _ _ (getE_override_store c k v)
  · cases h

theorem equiv_ov (k : String) (v : Val) {a b : Config} (e : Equiv a b) :
    Equiv (ov k v a) (ov k v b) := equiv_dispatch _ _ (equiv_upd _ _ e)

/-! ## Order of `--config` overrides -/

theorem widthEntry_absorb (mw hv hv' : Nat) (e : Entry) :
    widthEntry mw hv' (widthEntry mw hv e) = widthEntry mw hv' e := by
  unfold widthEntry getWidthValue
  generalize e.val.toNat = n
  cases hws : e.wasSet
  · simp
  · simp only [Bool.not_true, Bool.false_eq_true, if_false, Val.toNat]
    congr 2
    split <;> (try split) <;> first | rfl | omega

theorem heurEntry_absorb (m u u' e : Entry) (w : String) (hu' : (heurOf m u').isSome = true) :
    heurEntry m u' (heurEntry m u e w) w = heurEntry m u' e w := by
  unfold heurEntry
  cases h1 : heurOf m u with
  | none => rfl
  | some h =>
    simp only
    cases h2 : heurOf m u' with
    | none => simp [h2] at hu'
    | some h' =>
      simp only
      by_cases hw : w ∈ widthKeys
      · obtain ⟨hv, hhv⟩ := lookup_toList_some h w hw
        obtain ⟨hv', hhv'⟩ := lookup_toList_some h' w hw
        simp only [hhv, hhv', widthEntry_absorb]
      · simp only [lookup_toList_none h w hw, lookup_toList_none h' w hw]

theorem heurOf_isSome_iff (m u : Entry) :
    (heurOf m u).isSome = (Heuristics.ofVal? u.val).isSome := by
  unfold heurOf
  cases Heuristics.ofVal? u.val with
  | none => rfl
  | some x => cases x <;> rfl

/-- A second `set_heuristics` makes the first one redundant, as long as `max_width` is not what was
stored in between. -/
theorem heur_absorb (k : String) (v : Val) (hk : k ≠ "max_width") (x : Config)
    (hok : HeurOK (upd x k (storeFn true false v))) :
    Equiv (setHeuristics (upd (setHeuristics x) k (storeFn true false v)))
      (setHeuristics (upd x k (storeFn true false v))) := by
  intro w
  have hmw : getE (upd (setHeuristics x) k (storeFn true false v)) "max_width" =
      getE (upd x k (storeFn true false v)) "max_width" := by
    simp only [getE_upd, Ne.symm hk, if_false,
      getE_setHeuristics_of_not_width x _ max_width_not_width]
  have hus : getE (upd (setHeuristics x) k (storeFn true false v)) "use_small_heuristics" =
      getE (upd x k (storeFn true false v)) "use_small_heuristics" := by
    simp only [getE_upd, getE_setHeuristics_of_not_width x _ use_small_not_width]
    split
    · next h => subst h; simp only [getE_setHeuristics_of_not_width x _ use_small_not_width]
    · rfl
  rw [getE_setHeuristics, getE_setHeuristics, hmw, hus]
  by_cases hwk : w = k
  · subst hwk
    have e3 : getE (upd (setHeuristics x) w (storeFn true false v)) w =
        getE (upd x w (storeFn true false v)) w := by
      simp only [getE_upd, if_true, storeFn, getE_setHeuristics, (heurEntry_wasSet _ _ _ _).2,
        (heurEntry_wasSet _ _ _ _).1]
    rw [e3]
  · have e3 : getE (upd (setHeuristics x) k (storeFn true false v)) w =
        getE (setHeuristics x) w := by rw [getE_upd]; simp [hwk]
    have e4 : getE (upd x k (storeFn true false v)) w = getE x w := by rw [getE_upd]; simp [hwk]
    have e1 : getE x "max_width" = getE (upd x k (storeFn true false v)) "max_width" := by
      simp [getE_upd, Ne.symm hk]
    rw [e3, e4, getE_setHeuristics, e1]
    apply heurEntry_absorb
    rw [heurOf_isSome_iff]
    exact hok

theorem alias_comm (old new : String) (f : Val → Val) (hne : old ≠ new) (vo vn : Val)
    (c : Config) :
    Equiv (upd (setAlias old new f (upd c old (storeFn true false vo))) new (storeFn true false vn))
      (setAlias old new f (upd (upd c new (storeFn true false vn)) old (storeFn true false vo))) := by
  intro w
  have hno : new ≠ old := Ne.symm hne
  have hset : wasSet (upd (upd c new (storeFn true false vn)) old (storeFn true false vo)) new = true := by
    simp [wasSet, getE_upd, hno, storeFn]
  rw [getE_setAlias_of_protected _ _ _ _ _ (fun e => e ▸ hset)]
  by_cases h1 : w = new
  · subst h1
    simp only [getE_upd, if_true, hne, if_false, getE_setAlias, storeFn]
    split <;> simp
  · simp only [getE_upd, h1, if_false, getE_setAlias, false_and, hne]

def pairMI : List String := ["merge_imports", "imports_granularity"]
def pairFA : List String := ["fn_args_layout", "fn_params_layout"]
def pairHP : List String := ["hide_parse_errors", "show_parse_errors"]

/-- The entries an `override_value(k, _)` can read or write. -/
def block (k : String) : List String :=
  if k ∈ heurKeys then heurKeys
  else if k ∈ pairMI then pairMI
  else if k ∈ pairFA then pairFA
  else if k ∈ pairHP then pairHP
  else [k]

theorem mem_block (k : String) : k ∈ block k := by
  unfold block
  split; · assumption
  split; · assumption
  split; · assumption
  split; · assumption
  simp

theorem local_dispatch (k : String) : Local (block k) (dispatch overrideValueDispatch k) := by
  unfold block
  split
  · next h =>
    have : dispatch overrideValueDispatch k = setHeuristics := funext (dispatch_heur k h)
    rw [this]; exact local_setHeuristics
  split
  · next h =>
    simp only [pairMI, List.mem_cons, List.not_mem_nil, or_false] at h
    rcases h with rfl | rfl
    · rw [show dispatch overrideValueDispatch "merge_imports" = setMergeImports from
        funext dispatch_merge_imports]
      exact local_setMergeImports
    · rw [show dispatch overrideValueDispatch "imports_granularity" = fun c => c from
        funext (dispatch_other _ (by decide))]
      exact Local.id _
  split
  · next h =>
    simp only [pairFA, List.mem_cons, List.not_mem_nil, or_false] at h
    rcases h with rfl | rfl
    · rw [show dispatch overrideValueDispatch "fn_args_layout" = setFnArgsLayout from
        funext dispatch_fn_args_layout]
      exact local_setFnArgsLayout
    · rw [show dispatch overrideValueDispatch "fn_params_layout" = fun c => c from
        funext (dispatch_other _ (by decide))]
      exact Local.id _
  split
  · next h =>
    simp only [pairHP, List.mem_cons, List.not_mem_nil, or_false] at h
    rcases h with rfl | rfl
    · rw [show dispatch overrideValueDispatch "hide_parse_errors" = setHideParseErrors from
        funext dispatch_hide_parse_errors]
      exact local_setHideParseErrors
    · rw [show dispatch overrideValueDispatch "show_parse_errors" = fun c => c from
        funext (dispatch_other _ (by decide))]
      exact Local.id _
  · next h1 h2 h3 h4 =>
    by_cases hv : k = "version"
    · subst hv
      rw [show dispatch overrideValueDispatch "version" = fun c => c from funext dispatch_version]
      exact Local.id _
    · have : k ∉ allDispatchKeys := by
        simp only [allDispatchKeys, aliasKeys, List.mem_append, List.mem_cons, List.not_mem_nil,
          or_false, not_or]
        simp only [pairMI, pairFA, pairHP, List.mem_cons, List.not_mem_nil, or_false, not_or] at h2 h3 h4
        exact ⟨⟨h1, h2.1, h3.1, h4.1⟩, hv⟩
      rw [show dispatch overrideValueDispatch k = fun c => c from funext (dispatch_other k this)]
      exact Local.id _

theorem local_ov (k : String) (v : Val) : Local (block k) (ov k v) := by
  have h1 : Local (block k) (fun c => upd c k (storeFn true false v)) :=
    (local_upd k _).mono (fun x hx => by rw [List.mem_singleton.1 hx]; exact mem_block k)
  exact Local.comp (F := fun c => upd c k (storeFn true false v))
    (G := dispatch overrideValueDispatch k) h1 (local_dispatch k)

theorem block_eq_or_disjoint (k1 k2 : String) :
    block k1 = block k2 ∨ ∀ x ∈ block k1, x ∉ block k2 := by
  have d1 : ∀ x ∈ heurKeys, x ∉ pairMI ∧ x ∉ pairFA ∧ x ∉ pairHP := by decide
  have d2 : ∀ x ∈ pairMI, x ∉ heurKeys ∧ x ∉ pairFA ∧ x ∉ pairHP := by decide
  have d3 : ∀ x ∈ pairFA, x ∉ heurKeys ∧ x ∉ pairMI ∧ x ∉ pairHP := by decide
  have d4 : ∀ x ∈ pairHP, x ∉ heurKeys ∧ x ∉ pairMI ∧ x ∉ pairFA := by decide
  unfold block
  by_cases a1 : k1 ∈ heurKeys <;> by_cases a2 : k1 ∈ pairMI <;> by_cases a3 : k1 ∈ pairFA <;>
    by_cases a4 : k1 ∈ pairHP <;>
    by_cases b1 : k2 ∈ heurKeys <;> by_cases b2 : k2 ∈ pairMI <;> by_cases b3 : k2 ∈ pairFA <;>
    by_cases b4 : k2 ∈ pairHP <;>
    simp only [a1, a2, a3, a4, b1, b2, b3, b4, if_true, if_false, true_or]
  all_goals first
    | (right; intro x hx; first
        | exact (d1 x hx).1 | exact (d1 x hx).2.1 | exact (d1 x hx).2.2
        | exact (d2 x hx).1 | exact (d2 x hx).2.1 | exact (d2 x hx).2.2
        | exact (d3 x hx).1 | exact (d3 x hx).2.1 | exact (d3 x hx).2.2
        | exact (d4 x hx).1 | exact (d4 x hx).2.1 | exact (d4 x hx).2.2)
    | (right; intro x hx hx2; rw [List.mem_singleton.1 hx2] at hx; contradiction)
    | (right; intro x hx hx2; rw [List.mem_singleton.1 hx] at hx2; contradiction)
    | (by_cases e : k1 = k2
       · left; rw [e]
       · right; intro x hx hx2
         rw [List.mem_singleton.1 hx] at hx2
         exact e (List.mem_singleton.1 hx2))

theorem heurOK_applyMethod (m : String) (c : Config) : HeurOK (applyMethod m c) ↔ HeurOK c := by
  unfold HeurOK
  rw [getE_applyMethod_of_protected m c _ ⟨use_small_not_width, fun h => absurd h (by decide)⟩]

theorem heurOK_dispatch (T : List (List String × String)) (k : String) (c : Config) :
    HeurOK (dispatch T k c) ↔ HeurOK c := by
  unfold dispatch
  cases methodFor T k with
  | none => exact Iff.rfl
  | some m => exact heurOK_applyMethod m c

theorem heurOK_ov (k : String) (v : Val) (c : Config) (hv : checkVal k v = true) (h : HeurOK c) :
    HeurOK (ov k v c) :=
  (heurOK_dispatch _ _ _).2 (heurOK_store c k _ v (fun _ => rfl) hv h)

theorem upd_comm (k1 k2 : String) (f1 f2 : Entry → Entry) (hne : k1 ≠ k2) (c : Config) :
    Equiv (upd (upd c k1 f1) k2 f2) (upd (upd c k2 f2) k1 f1) :=
  Local.comm (local_upd k1 f1) (local_upd k2 f2)
    (fun _ hx hx2 => hne ((List.mem_singleton.1 hx).symm.trans (List.mem_singleton.1 hx2))) c

theorem ov_heur (k : String) (v : Val) (hk : k ∈ heurKeys) (c : Config) :
    ov k v c = setHeuristics (upd c k (storeFn true false v)) := dispatch_heur k hk _

theorem heur_comm (k1 k2 : String) (v1 v2 : Val) (hne : k1 ≠ k2) (h1 : k1 ≠ "max_width")
    (h2 : k2 ≠ "max_width") (hk1 : k1 ∈ heurKeys) (hk2 : k2 ∈ heurKeys)
    (hv1 : checkVal k1 v1 = true) (hv2 : checkVal k2 v2 = true) (c : Config) (hc : HeurOK c) :
    Equiv (ov k2 v2 (ov k1 v1 c)) (ov k1 v1 (ov k2 v2 c)) := by
  rw [ov_heur k1 v1 hk1, ov_heur k2 v2 hk2, ov_heur k2 v2 hk2, ov_heur k1 v1 hk1]
  have ok12 : HeurOK (upd (upd c k1 (storeFn true false v1)) k2 (storeFn true false v2)) :=
    heurOK_store _ k2 _ v2 (fun _ => rfl) hv2 (heurOK_store c k1 _ v1 (fun _ => rfl) hv1 hc)
  have ok21 : HeurOK (upd (upd c k2 (storeFn true false v2)) k1 (storeFn true false v1)) :=
    heurOK_store _ k1 _ v1 (fun _ => rfl) hv1 (heurOK_store c k2 _ v2 (fun _ => rfl) hv2 hc)
  exact (heur_absorb k2 v2 h2 _ ok12).trans
    ((local_setHeuristics.congr (upd_comm k1 k2 _ _ hne c)).trans
      (heur_absorb k1 v1 h1 _ ok21).symm)

theorem pair_comm (old new : String) (f : Val → Val) (hne : old ≠ new)
    (hold : ∀ c, dispatch overrideValueDispatch old c = setAlias old new f c)
    (hnew : ∀ c, dispatch overrideValueDispatch new c = c) (vo vn : Val) (c : Config) :
    Equiv (ov new vn (ov old vo c)) (ov old vo (ov new vn c)) := by
  simp only [ov, hold, hnew]
  exact alias_comm old new f hne vo vn c

theorem pair_comm' (pair : List String) (old new : String) (f : Val → Val) (hp : pair = [old, new])
    (hne : old ≠ new)
    (hold : ∀ c, dispatch overrideValueDispatch old c = setAlias old new f c)
    (hnew : ∀ c, dispatch overrideValueDispatch new c = c)
    (k1 k2 : String) (hk1 : k1 ∈ pair) (hk2 : k2 ∈ pair) (hne12 : k1 ≠ k2) (v1 v2 : Val)
    (c : Config) : Equiv (ov k2 v2 (ov k1 v1 c)) (ov k1 v1 (ov k2 v2 c)) := by
  subst hp
  simp only [List.mem_cons, List.not_mem_nil, or_false] at hk1 hk2
  rcases hk1 with rfl | rfl <;> rcases hk2 with rfl | rfl
  · exact absurd rfl hne12
  · exact pair_comm _ _ f hne hold hnew v1 v2 c
  · exact (pair_comm _ _ f hne hold hnew v2 v1 c).symm
  · exact absurd rfl hne12

/-- Two `override_value` calls on different keys, neither of them `max_width`, commute. -/
theorem ov_comm (k1 k2 : String) (v1 v2 : Val) (hne : k1 ≠ k2) (h1 : k1 ≠ "max_width")
    (h2 : k2 ≠ "max_width") (hv1 : checkVal k1 v1 = true) (hv2 : checkVal k2 v2 = true)
    (c : Config) (hc : HeurOK c) : Equiv (ov k2 v2 (ov k1 v1 c)) (ov k1 v1 (ov k2 v2 c)) := by
  rcases block_eq_or_disjoint k1 k2 with he | hd
  · have m2 : k2 ∈ block k1 := he ▸ mem_block k2
    by_cases a1 : k1 ∈ heurKeys
    · have : block k1 = heurKeys := by simp [block, a1]
      exact heur_comm k1 k2 v1 v2 hne h1 h2 a1 (this ▸ m2) hv1 hv2 c hc
    by_cases a2 : k1 ∈ pairMI
    · have : block k1 = pairMI := by simp [block, a1, a2]
      exact pair_comm' pairMI _ _ mergeImportsMap rfl (by decide)
        (fun c => by rw [dispatch_merge_imports, setMergeImports_eq])
        (dispatch_other _ (by decide)) k1 k2 a2 (this ▸ m2) hne v1 v2 c
    by_cases a3 : k1 ∈ pairFA
    · have : block k1 = pairFA := by simp [block, a1, a2, a3]
      exact pair_comm' pairFA _ _ id rfl (by decide)
        (fun c => by rw [dispatch_fn_args_layout, setFnArgsLayout_eq])
        (dispatch_other _ (by decide)) k1 k2 a3 (this ▸ m2) hne v1 v2 c
    by_cases a4 : k1 ∈ pairHP
    · have : block k1 = pairHP := by simp [block, a1, a2, a3, a4]
      exact pair_comm' pairHP _ _ negBool rfl (by decide)
        (fun c => by rw [dispatch_hide_parse_errors, setHideParseErrors_eq])
        (dispatch_other _ (by decide)) k1 k2 a4 (this ▸ m2) hne v1 v2 c
    · have : block k1 = [k1] := by simp [block, a1, a2, a3, a4]
      rw [this] at m2
      exact absurd (List.mem_singleton.1 m2).symm hne
  · exact Local.comm (local_ov k1 v1) (local_ov k2 v2) hd c

/-- `apply_to`'s loop over the `--config` pairs, as a fold of `ov`. -/
def ovs (l : List (String × Val)) (c : Config) : Config :=
  l.foldl (fun c kv => ov kv.1 kv.2 c) c

theorem ovs_congr (l : List (String × Val)) {a b : Config} (e : Equiv a b) :
    Equiv (ovs l a) (ovs l b) := by
  induction l generalizing a b with
  | nil => exact e
  | cons p r ih => exact ih (equiv_ov p.1 p.2 e)

theorem applyInline_equiv_ovs (l : List (String × Val)) (c c' : Config)
    (h : applyInline l c = some c') : Equiv c' (ovs l c) := by
  induction l generalizing c with
  | nil => simp only [applyInline] at h; cases h; exact Equiv.refl _
  | cons p r ih =>
    obtain ⟨k, v⟩ := p
    simp only [applyInline] at h
    cases h1 : overrideValue c k v with
    | none => simp [h1] at h
    | some c1 =>
      simp only [h1] at h
      exact (ih c1 h).trans (ovs_congr r (overrideValue_equiv_ov c c1 k v h1))

theorem ovs_perm (l1 l2 : List (String × Val)) (hp : l1.Perm l2) :
    (l1.map (·.1)).Nodup → "max_width" ∉ l1.map (·.1) →
    (∀ kv ∈ l1, checkVal kv.1 kv.2 = true) → ∀ c, HeurOK c → Equiv (ovs l1 c) (ovs l2 c) := by
  induction hp with
  | nil => intro _ _ _ c _; exact Equiv.refl _
  | cons x _ ih =>
    intro hnd hmw hv c hc
    simp only [List.map_cons, List.nodup_cons, List.mem_cons, not_or] at hnd hmw
    exact ih hnd.2 hmw.2 (fun kv hkv => hv kv (List.mem_cons_of_mem _ hkv)) _
      (heurOK_ov x.1 x.2 c (hv x List.mem_cons_self) hc)
  | swap x y l =>
    intro hnd hmw hv c hc
    simp only [List.map_cons, List.nodup_cons, List.mem_cons, not_or] at hnd hmw
    have hvx := hv x (List.mem_cons_of_mem _ List.mem_cons_self)
    have hvy := hv y List.mem_cons_self
    exact ovs_congr l (ov_comm y.1 x.1 y.2 x.2 hnd.1.1 (Ne.symm hmw.1) (Ne.symm hmw.2.1) hvy hvx c hc)
  | trans p12 _ ih1 ih2 =>
    intro hnd hmw hv c hc
    refine (ih1 hnd hmw hv c hc).trans (ih2 ?_ ?_ ?_ c hc)
    · exact (p12.map _).nodup_iff.1 hnd
    · exact fun h => hmw ((p12.map _).mem_iff.2 h)
    · exact fun kv hkv => hv kv (p12.mem_iff.2 hkv)

/-! ## One option from a file vs. from `--config` -/

theorem setAlias_of_not_set (old new : String) (f : Val → Val) (c : Config)
    (h : wasSet c old = false) : setAlias old new f c = c := by
  simp [setAlias, h]

theorem wasSet_setAlias (old new : String) (f : Val → Val) (c : Config) (k : String) :
    wasSet (setAlias old new f c) k = wasSet c k := by
  unfold wasSet
  rw [getE_setAlias]
  split
  · next h => rw [h.1]
  · rfl

theorem setHeuristics_default (se : StyleEdition) :
    Equiv (setHeuristics (defaultWithStyleEdition se)) (defaultWithStyleEdition se) := by
  intro k
  by_cases hk : k ∈ widthKeys
  · have : ∀ w ∈ widthKeys, getE (setHeuristics (defaultWithStyleEdition se)) w =
        getE (defaultWithStyleEdition se) w := by cases se <;> decide
    exact this k hk
  · exact getE_setHeuristics_of_not_width _ k hk

/-- The tail of `fill_from_parsed_config` (one `set_heuristics`, then the alias setters) applied to a
fresh default with the single option `k` stored does what `override_value`'s dispatch for `k` does. -/
theorem fill_chain (D : Config) (k : String) (v : Val) (hD : ∀ k', wasSet D k' = false)
    (hH : Equiv (setHeuristics D) D) :
    Equiv (setHideParseErrors (setFnArgsLayout (setMergeImports
      (setHeuristics (upd D k (storeFn true false v)))))) (ov k v D) := by
  have wsX : ∀ k', k' ≠ k → wasSet (upd D k (storeFn true false v)) k' = false := by
    intro k' hk'; simp [wasSet, getE_upd, hk']; exact hD k'
  have wsH : ∀ k', k' ≠ k → wasSet (setHeuristics (upd D k (storeFn true false v))) k' = false :=
    fun k' hk' => by rw [wasSet_setHeuristics]; exact wsX k' hk'
  unfold ov
  by_cases a1 : k ∈ heurKeys
  · rw [dispatch_heur k a1]
    have n1 : "merge_imports" ≠ k := fun e => absurd (e ▸ a1) (by decide)
    have n2 : "fn_args_layout" ≠ k := fun e => absurd (e ▸ a1) (by decide)
    have n3 : "hide_parse_errors" ≠ k := fun e => absurd (e ▸ a1) (by decide)
    rw [setMergeImports_eq, setAlias_of_not_set _ _ _ _ (wsH _ n1),
      setFnArgsLayout_eq, setAlias_of_not_set _ _ _ _ (wsH _ n2),
      setHideParseErrors_eq, setAlias_of_not_set _ _ _ _ (wsH _ n3)]
    exact Equiv.refl _
  · have hHX : Equiv (setHeuristics (upd D k (storeFn true false v))) (upd D k (storeFn true false v)) :=
      (Local.comm (local_upd k (storeFn true false v)) local_setHeuristics
        (fun x hx hx2 => a1 (List.mem_singleton.1 hx ▸ hx2)) D).trans (equiv_upd _ _ hH)
    by_cases a2 : k = "merge_imports"
    · subst a2
      rw [dispatch_merge_imports]
      have w2 : wasSet (setMergeImports (setHeuristics (upd D "merge_imports" (storeFn true false v))))
          "fn_args_layout" = false := by
        rw [setMergeImports_eq, wasSet_setAlias]; exact wsH _ (by decide)
      rw [setFnArgsLayout_eq, setAlias_of_not_set _ _ _ _ w2]
      have w3 : wasSet (setMergeImports (setHeuristics (upd D "merge_imports" (storeFn true false v))))
          "hide_parse_errors" = false := by
        rw [setMergeImports_eq, wasSet_setAlias]; exact wsH _ (by decide)
      rw [setHideParseErrors_eq, setAlias_of_not_set _ _ _ _ w3]
      exact local_setMergeImports.congr hHX
    by_cases a3 : k = "fn_args_layout"
    · subst a3
      rw [dispatch_fn_args_layout]
      rw [setMergeImports_eq, setAlias_of_not_set _ _ _ _ (wsH _ (by decide))]
      have w3 : wasSet (setFnArgsLayout (setHeuristics (upd D "fn_args_layout" (storeFn true false v))))
          "hide_parse_errors" = false := by
        rw [setFnArgsLayout_eq, wasSet_setAlias]; exact wsH _ (by decide)
      rw [setHideParseErrors_eq, setAlias_of_not_set _ _ _ _ w3]
      exact local_setFnArgsLayout.congr hHX
    by_cases a4 : k = "hide_parse_errors"
    · subst a4
      rw [dispatch_hide_parse_errors]
      rw [setMergeImports_eq, setAlias_of_not_set _ _ _ _ (wsH _ (by decide)),
        setFnArgsLayout_eq, setAlias_of_not_set _ _ _ _ (wsH _ (by decide))]
      exact local_setHideParseErrors.congr hHX
    · rw [setMergeImports_eq, setAlias_of_not_set _ _ _ _ (wsH _ (Ne.symm a2)),
        setFnArgsLayout_eq, setAlias_of_not_set _ _ _ _ (wsH _ (Ne.symm a3)),
        setHideParseErrors_eq, setAlias_of_not_set _ _ _ _ (wsH _ (Ne.symm a4))]
      by_cases a5 : k = "version"
      · subst a5; rw [dispatch_version]; exact hHX
      · have : k ∉ allDispatchKeys := by
          simp only [allDispatchKeys, aliasKeys, List.mem_append, List.mem_cons, List.not_mem_nil,
            or_false, not_or]
          exact ⟨⟨a1, a2, a3, a4⟩, a5⟩
        rw [dispatch_other k this]; exact hHX

theorem mem_optionNames_of_checkVal (k : String) (v : Val) (h : checkVal k v = true) :
    k ∈ optionNames := by
  unfold checkVal tagOf cfgTypeOf at h
  cases hl : options.lookup k with
  | none => simp [hl] at h
  | some o =>
    have := mem_of_lookup options k o hl
    exact List.mem_map.2 ⟨(k, o), this, rfl⟩

/-- The store loop of `fill_from_parsed_config` for a file holding the single pair `k = v`. -/
theorem fillFold_single (env : Env) (D : Config) (k : String) (v : Val)
    (hv : checkVal k v = true) (hs : isStableOptionAndValue env k v = true) :
    Equiv (optionNames.foldl (fillStore env [(k, v)]) D) (upd D k (storeFn true false v)) := by
  intro k'
  rw [getE_fillFold, getE_upd]
  by_cases h : k' = k
  · subst h
    simp [mem_optionNames_of_checkVal k' v hv, fillEntry, hs]
  · have : (k' == k) = false := by simpa using h
    simp [h, fillEntry, List.lookup_cons, this]

theorem fill_single (env : Env) (se : StyleEdition) (k : String) (v : Val)
    (hv : checkVal k v = true) (hs : isStableOptionAndValue env k v = true) :
    Equiv (fillFromParsedConfig env (defaultWithStyleEdition se) [(k, v)])
      (ov k v (defaultWithStyleEdition se)) := by
  unfold fillFromParsedConfig setVersion
  simp only
  have h1 := fillFold_single env (defaultWithStyleEdition se) k v hv hs
  exact (local_setHideParseErrors.congr (local_setFnArgsLayout.congr
    (local_setMergeImports.congr (local_setHeuristics.congr h1)))).trans
    (fill_chain _ k v (wasSet_default se) (setHeuristics_default se))

/-- The dedicated flags of `apply_to` when no flag is given on the command line. -/
def fl0 (c : Config) : Config :=
  setVal (setVal (setVal c "verbose" (.str "Normal")) "file_lines" (.str "all()"))
    "unstable_features" (.bool false)

def clobberKeys : List String := ["verbose", "file_lines", "unstable_features"]

theorem configSet_plain (c : Config) (k : String) (v : Val) (hv : checkVal k v = true)
    (hk : k ∉ allDispatchKeys) : configSet c k v = some (setVal c k v) := by
  simp only [configSet, hv, if_true, tables_agree.1, dispatch_other k hk]

theorem local_setVal (k : String) (v : Val) : Local [k] (fun c => setVal c k v) := local_upd k _

theorem local_fl0 : Local clobberKeys fl0 := by
  have h1 : Local clobberKeys (fun c => setVal c "verbose" (.str "Normal")) :=
    (local_setVal _ _).mono (by decide)
  have h2 : Local clobberKeys (fun c => setVal c "file_lines" (.str "all()")) :=
    (local_setVal _ _).mono (by decide)
  have h3 : Local clobberKeys (fun c => setVal c "unstable_features" (.bool false)) :=
    (local_setVal _ _).mono (by decide)
  exact Local.comp (F := fun c => setVal (setVal c "verbose" (.str "Normal")) "file_lines" (.str "all()"))
    (G := fun c => setVal c "unstable_features" (.bool false))
    (Local.comp (F := fun c => setVal c "verbose" (.str "Normal"))
      (G := fun c => setVal c "file_lines" (.str "all()")) h1 h2) h3

theorem block_disjoint_clobber (k : String) (hk : k ∉ clobberKeys) :
    ∀ x ∈ block k, x ∉ clobberKeys := by
  have d : ∀ x ∈ heurKeys ++ pairMI ++ pairFA ++ pairHP, x ∉ clobberKeys := by decide
  unfold block
  split
  · exact fun x hx => d x (by simp [hx])
  split
  · exact fun x hx => d x (by simp [hx])
  split
  · exact fun x hx => d x (by simp [hx])
  split
  · exact fun x hx => d x (by simp [hx])
  · intro x hx; rw [List.mem_singleton.1 hx]; exact hk

/-! ## `apply_to` -/

theorem applyInline_some (l : List (String × Val)) (c : Config)
    (hv : ∀ kv ∈ l, checkVal kv.1 kv.2 = true) : ∃ c', applyInline l c = some c' := by
  induction l generalizing c with
  | nil => exact ⟨c, rfl⟩
  | cons p r ih =>
    obtain ⟨k, v⟩ := p
    have h1 : checkVal k v = true := hv (k, v) List.mem_cons_self
    simp only [applyInline, overrideValue, h1, if_true]
    exact ih _ (fun kv hkv => hv kv (List.mem_cons_of_mem _ hkv))

theorem applyInline_frame (l : List (String × Val)) (c c' : Config)
    (h : applyInline l c = some c') (k : String) (hk : k ∉ l.map (·.1)) (hp : Protected c k) :
    getE c' k = getE c k := by
  induction l generalizing c with
  | nil => simp only [applyInline] at h; cases h; rfl
  | cons p r ih =>
    obtain ⟨k1, v1⟩ := p
    simp only [applyInline] at h
    simp only [List.map_cons, List.mem_cons, not_or] at hk
    cases h1 : overrideValue c k1 v1 with
    | none => simp [h1] at h
    | some c1 =>
      simp only [h1] at h
      have hf := overrideValue_frame c c1 k1 v1 h1 k hk.1 hp
      rw [ih c1 h hk.2 (protected_congr c c1 k hf hp), hf]

/-- A `--config k=v` pair wins: whatever the other pairs and their order, option `k` (not one of
the eight width options) ends with value `v`, marked as set. -/
theorem applyInline_mem (l : List (String × Val)) (c c' : Config)
    (h : applyInline l c = some c') (k : String) (v : Val) (hm : (k, v) ∈ l)
    (hnd : (l.map (·.1)).Nodup) (hw : k ∉ widthKeys) :
    (getE c' k).val = v ∧ (getE c' k).wasSet = true := by
  induction l generalizing c with
  | nil => cases hm
  | cons p r ih =>
    obtain ⟨k1, v1⟩ := p
    simp only [applyInline] at h
    simp only [List.map_cons, List.nodup_cons] at hnd
    cases h1 : overrideValue c k1 v1 with
    | none => simp [h1] at h
    | some c1 =>
      simp only [h1] at h
      rcases List.mem_cons.1 hm with heq | hr
      · cases heq
        have hs := overrideValue_self c c1 k v h1 hw
        have hp : Protected c1 k := ⟨hw, fun _ => by simp [wasSet, hs, storeFn]⟩
        rw [applyInline_frame r c1 c' h k hnd.1 hp, hs]
        simp [storeFn]
      · exact ih c1 h hr hnd.2

def flagKeys : List String :=
  ["verbose", "file_lines", "unstable_features", "skip_children", "error_on_unformatted",
   "edition", "style_edition", "emit_mode", "make_backup", "color",
   "print_misformatted_file_names"]

theorem flagKeys_free : ∀ k ∈ flagKeys, k ∉ widthKeys ∧ k ∉ successorKeys := by decide

theorem flagKeys_nodup : flagKeys.Nodup := by decide

theorem tagOf_flagKeys :
    tagOf "verbose" = some .str ∧ tagOf "file_lines" = some .str ∧
    tagOf "unstable_features" = some .bool ∧ tagOf "skip_children" = some .bool ∧
    tagOf "error_on_unformatted" = some .bool ∧ tagOf "edition" = some .str ∧
    tagOf "style_edition" = some .str ∧ tagOf "emit_mode" = some .str ∧
    tagOf "make_backup" = some .bool ∧ tagOf "color" = some .str ∧
    tagOf "print_misformatted_file_names" = some .bool := by decide

theorem checkVal_str (k s : String) (ht : tagOf k = some .str) (he : enumOk k s = true) :
    checkVal k (.str s) = true := by simp [checkVal, ht, he]

theorem checkVal_bool (k : String) (b : Bool) (ht : tagOf k = some .bool) :
    checkVal k (.bool b) = true := by simp [checkVal, ht]

theorem enumOk_free (k s : String) (h1 : k ≠ "use_small_heuristics") (h2 : k ≠ "style_edition")
    (h3 : k ≠ "edition") (h4 : k ≠ "version") : enumOk k s = true := by
  simp [enumOk, h1, h2, h3, h4]

theorem enumOk_file_lines (s : String) : enumOk "file_lines" s = true :=
  enumOk_free _ _ (by decide) (by decide) (by decide) (by decide)
theorem enumOk_emit_mode (s : String) : enumOk "emit_mode" s = true :=
  enumOk_free _ _ (by decide) (by decide) (by decide) (by decide)
theorem enumOk_color (s : String) : enumOk "color" s = true :=
  enumOk_free _ _ (by decide) (by decide) (by decide) (by decide)

section Flags
variable {α : Type}

/-- Every dedicated-flag call is well-typed, so the flags part of `apply_to` never fails. -/
theorem flagCalls_valid (o : CliOptions α) :
    ∀ call ∈ flagCalls o, checkVal call.2.1 call.2.2 = true := by
  obtain ⟨t1, t2, t3, t4, t5, t6, t7, t8, t9, t10, t11⟩ := tagOf_flagKeys
  intro call hc
  simp only [flagCalls, List.mem_append, List.mem_singleton] at hc
  rcases hc with ((((((((((hc | hc) | hc) | hc) | hc) | hc) | hc) | hc) | hc) | hc) | hc)
  · subst hc; split
    · exact checkVal_str _ _ t1 (by decide)
    · split <;> exact checkVal_str _ _ t1 (by decide)
  · subst hc; split <;> exact checkVal_str _ _ t2 (enumOk_file_lines _)
  · subst hc; split <;> exact checkVal_bool _ _ t3
  · split at hc
    · simp only [List.mem_singleton] at hc; subst hc; exact checkVal_bool _ _ t4
    · cases hc
  · split at hc
    · simp only [List.mem_singleton] at hc; subst hc; exact checkVal_bool _ _ t5
    · cases hc
  · split at hc
    · next e _ =>
      simp only [List.mem_singleton] at hc; subst hc
      exact checkVal_str _ _ t6 (by cases e <;> decide)
    · cases hc
  · split at hc
    · next e _ =>
      simp only [List.mem_singleton] at hc; subst hc
      exact checkVal_str _ _ t7 (by cases e <;> decide)
    · cases hc
  · split at hc
    · simp only [List.mem_singleton] at hc; subst hc; exact checkVal_str _ _ t8 (by decide)
    · split at hc
      · simp only [List.mem_singleton] at hc; subst hc
        exact checkVal_str _ _ t8 (enumOk_emit_mode _)
      · cases hc
  · split at hc
    · simp only [List.mem_singleton] at hc; subst hc; exact checkVal_bool _ _ t9
    · cases hc
  · split at hc
    · simp only [List.mem_singleton] at hc; subst hc
      exact checkVal_str _ _ t10 (enumOk_color _)
    · cases hc
  · split at hc
    · simp only [List.mem_singleton] at hc; subst hc; exact checkVal_bool _ _ t11
    · cases hc

def callKey (call : Bool × String × Val) : String := call.2.1

theorem applyFlagCalls_some (calls : List (Bool × String × Val)) (c : Config)
    (hv : ∀ call ∈ calls, checkVal call.2.1 call.2.2 = true) :
    ∃ c', applyFlagCalls calls c = some c' := by
  induction calls generalizing c with
  | nil => exact ⟨c, rfl⟩
  | cons p r ih =>
    obtain ⟨cli, k, v⟩ := p
    have h1 : checkVal k v = true := hv (cli, k, v) List.mem_cons_self
    simp only [applyFlagCalls]
    cases cli <;> simp only [configSet, configSetCli, h1, if_true, Bool.false_eq_true, if_false] <;>
      exact ih _ (fun call hc => hv call (List.mem_cons_of_mem _ hc))

theorem flagCall_frame (c c1 : Config) (cli : Bool) (k : String) (v : Val)
    (h1 : (if cli then configSetCli c k v else configSet c k v) = some c1)
    (k0 : String) (hne : k0 ≠ k) (hp : Protected c k0) : getE c1 k0 = getE c k0 := by
  cases cli
  · exact configSet_frame c c1 k v h1 k0 hne hp
  · exact configSetCli_frame c c1 k v h1 k0 hne hp

theorem applyFlagCalls_frame (calls : List (Bool × String × Val)) (c c' : Config)
    (h : applyFlagCalls calls c = some c') (k : String) (hk : k ∉ calls.map callKey)
    (hp : Protected c k) : getE c' k = getE c k := by
  induction calls generalizing c with
  | nil => simp only [applyFlagCalls] at h; cases h; rfl
  | cons p r ih =>
    obtain ⟨cli, k1, v1⟩ := p
    simp only [applyFlagCalls] at h
    simp only [List.map_cons, List.mem_cons, not_or, callKey] at hk
    cases h1 : (if cli then configSetCli c k1 v1 else configSet c k1 v1) with
    | none => simp [h1] at h
    | some c1 =>
      simp only [h1] at h
      have hf := flagCall_frame c c1 cli k1 v1 h1 k hk.1 hp
      rw [ih c1 h hk.2 (protected_congr c c1 k hf hp), hf]

theorem applyFlagCalls_mem (calls : List (Bool × String × Val)) (c c' : Config)
    (h : applyFlagCalls calls c = some c') (cli : Bool) (k : String) (v : Val)
    (hm : (cli, k, v) ∈ calls) (hnd : (calls.map callKey).Nodup)
    (hw : k ∉ widthKeys) (hs : k ∉ successorKeys) :
    (getE c' k).val = v ∧ (cli = true → (getE c' k).wasSetCli = true) := by
  induction calls generalizing c with
  | nil => cases hm
  | cons p r ih =>
    obtain ⟨cli1, k1, v1⟩ := p
    simp only [applyFlagCalls] at h
    simp only [List.map_cons, List.nodup_cons, callKey] at hnd
    cases h1 : (if cli1 then configSetCli c k1 v1 else configSet c k1 v1) with
    | none => simp [h1] at h
    | some c1 =>
      simp only [h1] at h
      rcases List.mem_cons.1 hm with heq | hr
      · cases heq
        have hp : Protected c1 k := ⟨hw, fun hh => absurd hh hs⟩
        rw [applyFlagCalls_frame r c1 c' h k hnd.1 hp]
        cases cli
        · simp only [Bool.false_eq_true, if_false] at h1
          rw [configSet_self c c1 k v h1 hw hs]; simp [storeFn]
        · simp only [if_true] at h1
          rw [configSetCli_self c c1 k v h1 hw hs]; simp [storeFn]
      · exact ih c1 h hr hnd.2

theorem flagCalls_keys_sublist (o : CliOptions α) :
    ((flagCalls o).map callKey).Sublist flagKeys := by
  simp only [flagCalls, List.map_append]
  have e : flagKeys = ["verbose"] ++ ["file_lines"] ++ ["unstable_features"] ++ ["skip_children"] ++
      ["error_on_unformatted"] ++ ["edition"] ++ ["style_edition"] ++ ["emit_mode"] ++
      ["make_backup"] ++ ["color"] ++ ["print_misformatted_file_names"] := rfl
  rw [e]
  refine List.Sublist.append (List.Sublist.append (List.Sublist.append (List.Sublist.append
    (List.Sublist.append (List.Sublist.append (List.Sublist.append (List.Sublist.append
    (List.Sublist.append (List.Sublist.append ?_ ?_) ?_) ?_) ?_) ?_) ?_) ?_) ?_) ?_) ?_
  · split
    · exact List.Sublist.refl _
    · split <;> exact List.Sublist.refl _
  · split <;> exact List.Sublist.refl _
  · split <;> exact List.Sublist.refl _
  · split
    · exact List.Sublist.refl _
    · exact List.nil_sublist _
  · split
    · exact List.Sublist.refl _
    · exact List.nil_sublist _
  · split
    · exact List.Sublist.refl _
    · exact List.nil_sublist _
  · split
    · exact List.Sublist.refl _
    · exact List.nil_sublist _
  · split
    · exact List.Sublist.refl _
    · split
      · exact List.Sublist.refl _
      · exact List.nil_sublist _
  · split
    · exact List.Sublist.refl _
    · exact List.nil_sublist _
  · split
    · exact List.Sublist.refl _
    · exact List.nil_sublist _
  · split
    · exact List.Sublist.refl _
    · exact List.nil_sublist _

theorem flagCalls_keys_nodup (o : CliOptions α) : ((flagCalls o).map callKey).Nodup :=
  (flagCalls_keys_sublist o).nodup flagKeys_nodup

theorem flagCalls_key_mem (o : CliOptions α) (call : Bool × String × Val)
    (h : call ∈ flagCalls o) : call.2.1 ∈ flagKeys :=
  (flagCalls_keys_sublist o).subset (List.mem_map.2 ⟨call, h, rfl⟩)

/-- The generated flag says `max_width` first (breaks when the source goes back to the plain loop). -/
theorem orderInline_eq (l : List (String × Val)) : orderInline l = maxWidthFirst l := by
  unfold orderInline
  have h : inlineMaxWidthFirst = true := by decide
  simp only [h, if_true]

theorem maxWidthFirst_perm (l : List (String × Val)) : (maxWidthFirst l).Perm l :=
  List.filter_append_perm _ l

theorem orderInline_perm (l : List (String × Val)) : (orderInline l).Perm l := by
  rw [orderInline_eq]; exact maxWidthFirst_perm l

theorem mem_orderInline (l : List (String × Val)) (kv : String × Val) :
    kv ∈ orderInline l ↔ kv ∈ l := (orderInline_perm l).mem_iff

theorem orderInline_keys_perm (l : List (String × Val)) :
    ((orderInline l).map (·.1)).Perm (l.map (·.1)) := (orderInline_perm l).map _

theorem orderInline_single (k : String) (v : Val) : orderInline [(k, v)] = [(k, v)] := by
  rw [orderInline_eq]
  unfold maxWidthFirst
  by_cases h : (k == "max_width") = true <;> simp [List.filter, h]

/-- `apply_to` never panics when every `--config` pair is well-typed. -/
theorem applyTo_some (o : CliOptions α) (c : Config)
    (hv : ∀ kv ∈ o.inlineConfig, checkVal kv.1 kv.2 = true) : ∃ c', applyTo o c = some c' := by
  obtain ⟨c1, h1⟩ := applyFlagCalls_some (flagCalls o) c (flagCalls_valid o)
  obtain ⟨c2, h2⟩ := applyInline_some (orderInline o.inlineConfig) c1
    (fun kv hkv => hv kv ((mem_orderInline _ kv).1 hkv))
  exact ⟨c2, by simp [applyTo, h1, bindO, h2]⟩

theorem applyTo_inline_wins (o : CliOptions α) (c c' : Config) (h : applyTo o c = some c')
    (k : String) (v : Val) (hm : (k, v) ∈ o.inlineConfig)
    (hnd : (o.inlineConfig.map (·.1)).Nodup) (hw : k ∉ widthKeys) :
    (getE c' k).val = v ∧ (getE c' k).wasSet = true := by
  unfold applyTo at h
  cases h1 : applyFlagCalls (flagCalls o) c with
  | none => simp [h1, bindO] at h
  | some c1 =>
    simp only [h1, bindO] at h
    exact applyInline_mem _ c1 c' h k v ((mem_orderInline _ _).2 hm)
      ((orderInline_keys_perm _).nodup_iff.2 hnd) hw

theorem applyTo_flag_wins (o : CliOptions α) (c c' : Config) (h : applyTo o c = some c')
    (cli : Bool) (k : String) (v : Val) (hm : (cli, k, v) ∈ flagCalls o)
    (hk : k ∉ o.inlineConfig.map (·.1)) :
    (getE c' k).val = v ∧ (cli = true → (getE c' k).wasSetCli = true) := by
  unfold applyTo at h
  cases h1 : applyFlagCalls (flagCalls o) c with
  | none => simp [h1, bindO] at h
  | some c1 =>
    simp only [h1, bindO] at h
    have hfree := flagKeys_free k (flagCalls_key_mem o _ hm)
    have hp : Protected c1 k := ⟨hfree.1, fun hh => absurd hh hfree.2⟩
    rw [applyInline_frame _ c1 c' h k
      (fun hh => hk ((orderInline_keys_perm _).mem_iff.1 hh)) hp]
    exact applyFlagCalls_mem _ c c1 h1 cli k v hm (flagCalls_keys_nodup o) hfree.1 hfree.2

theorem flagCalls_default :
    flagCalls ({} : CliOptions α) =
      [(false, "verbose", .str "Normal"), (false, "file_lines", .str "all()"),
       (false, "unstable_features", .bool false)] := rfl

theorem applyFlagCalls_default (c : Config) :
    applyFlagCalls (flagCalls ({} : CliOptions α)) c = some (fl0 c) := by
  rw [flagCalls_default]
  simp only [applyFlagCalls, Bool.false_eq_true, if_false]
  rw [configSet_plain c _ _ (by decide) (by decide)]
  simp only
  rw [configSet_plain _ _ _ (by decide) (by decide)]
  simp only
  rw [configSet_plain _ _ _ (by decide) (by decide)]
  rfl

theorem applyTo_default (c : Config) : applyTo ({} : CliOptions α) c = some (fl0 c) := by
  unfold applyTo
  rw [applyFlagCalls_default]
  rfl

theorem applyTo_single (c : Config) (k : String) (v : Val) (hv : checkVal k v = true) :
    ∃ c', applyTo ({ inlineConfig := [(k, v)] } : CliOptions α) c = some c' ∧
      Equiv c' (ov k v (fl0 c)) := by
  have hf : flagCalls ({ inlineConfig := [(k, v)] } : CliOptions α) =
      flagCalls ({} : CliOptions α) := rfl
  unfold applyTo
  rw [hf, applyFlagCalls_default]
  simp only [orderInline_single, bindO, applyInline]
  cases h1 : overrideValue (fl0 c) k v with
  | none => simp [overrideValue, hv] at h1
  | some c1 => exact ⟨c1, rfl, overrideValue_equiv_ov _ _ _ _ h1⟩

/-- One option `k = v`, once through a config file and once through `--config`, no other flag:
the same effective configuration (for every option the same value, `was_set`, `was_set_cli`). -/
theorem same_value_core (env : Env) (se : StyleEdition) (k : String) (v : Val)
    (hv : checkVal k v = true) (hs : isStableOptionAndValue env k v = true)
    (hk : k ∉ clobberKeys) :
    ∃ c1 c2,
      applyTo ({} : CliOptions α) (fillFromParsedConfig env (defaultWithStyleEdition se) [(k, v)])
        = some c1 ∧
      applyTo ({ inlineConfig := [(k, v)] } : CliOptions α) (defaultWithStyleEdition se) = some c2 ∧
      Equiv c1 c2 := by
  obtain ⟨c2, h2, e2⟩ := applyTo_single (α := α) (defaultWithStyleEdition se) k v hv
  refine ⟨_, c2, applyTo_default _, h2, ?_⟩
  refine ((local_fl0.congr (fill_single env se k v hv hs)).trans ?_).trans e2.symm
  exact Local.comm (local_ov k v) local_fl0 (block_disjoint_clobber k hk) _

end Flags

/-! ## `load_config` -/

section Load
variable {α : Type} [DecidableEq α]

theorem nearest_file (fs : FS α) (dir a : List α) (hex : dirExists fs.tree dir = true)
    (ha : a <+: dir) (hfile : getTomlPath fs.tree a ≠ none) :
    ∃ f, resolveProjectFile fs dir = .ok (some f) ∧ getTomlPath fs.tree f.dir = some f ∧
      f.dir <+: dir ∧ a <+: f.dir ∧
      ∀ b, b <+: dir → f.dir.length < b.length → getTomlPath fs.tree b = none := by
  rw [resolve_ok fs dir hex]
  cases hfs : (ancestors dir).findSome? (getTomlPath fs.tree) with
  | none => exact absurd ((findSome_ancestors_none _ dir).1 hfs a ha) hfile
  | some f =>
    unfold ancestors at hfs
    obtain ⟨d, hd, hgd, hmax⟩ := findSome_ancestorsRev _ _ f hfs
    rw [List.reverse_reverse] at hd hmax
    have hfd : f.dir = d := (getTomlPath_some _ _ _ hgd).1
    refine ⟨f, rfl, by rw [hfd]; exact hgd, by rw [hfd]; exact hd, ?_, by rw [hfd]; exact hmax⟩
    rw [hfd]
    by_cases hlen : a.length ≤ d.length
    · exact List.prefix_of_prefix_length_le ha hd hlen
    · exact absurd (hmax a ha (by omega)) hfile

theorem resolve_fallback (fs : FS α) (dir : List α) (hex : dirExists fs.tree dir = true)
    (hnone : ∀ a, a <+: dir → getTomlPath fs.tree a = none) :
    resolveProjectFile fs dir =
      .ok (orElse (bindO fs.home (getTomlPath fs.tree))
        (bindO fs.configDir fun d => getTomlPath fs.tree (d ++ [fs.rustfmtName]))) := by
  rw [resolve_ok fs dir hex, (findSome_ancestors_none _ dir).2 hnone]
  simp only [Option.none_or]
  cases fs.home with
  | none =>
    cases fs.configDir with
    | none => rfl
    | some c =>
      simp only [List.findSome?, Option.map, orElse, bindO, Option.none_or, Option.toList]
      cases getTomlPath fs.tree (c ++ [fs.rustfmtName]) <;> rfl
  | some h =>
    simp only [Option.toList, List.findSome?, orElse, bindO]
    cases getTomlPath fs.tree h with
    | some f => rfl
    | none =>
      simp only [Option.none_or]
      cases fs.configDir with
      | none => rfl
      | some c =>
        simp only [List.findSome?, Option.map]
        cases getTomlPath fs.tree (c ++ [fs.rustfmtName]) <;> rfl

theorem loadConfig_config_path (env : Env) (fs : FS α) (fp : Option (List α)) (o : CliOptions α)
    (f : ConfigFile α) (h : configPath fs.tree o = .ok (some f)) :
    loadConfig env fs fp (some o) =
      match fromTomlPath env fs f o.editionOv o.styleEditionOv o.versionOv with
      | .error e => .error e
      | .ok c =>
        match applyTo o c with
        | some c' => .ok (c', some f)
        | none => .error .panic := by
  simp only [loadConfig, loadPre, h, loadResult]
  cases fromTomlPath env fs f o.editionOv o.styleEditionOv o.versionOv <;> rfl

theorem loadConfig_no_config_path (env : Env) (fs : FS α) (dir : List α) (o : CliOptions α)
    (h : o.configPath = none) :
    loadConfig env fs (some dir) (some o) =
      match fromResolvedTomlPath env fs dir o.editionOv o.styleEditionOv o.versionOv with
      | .error e => .error e
      | .ok (c, p) =>
        match applyTo o c with
        | some c' => .ok (c', p)
        | none => .error .panic := by
  simp only [loadConfig, loadPre, configPath, h, loadResult]
  cases fromResolvedTomlPath env fs dir o.editionOv o.styleEditionOv o.versionOv with
  | error e => rfl
  | ok r => cases r; rfl

omit [DecidableEq α] in
theorem fromTomlPath_read (env : Env) (fs fs' : FS α) (hr : fs.read = fs'.read) (f : ConfigFile α)
    (ed : Option Edition) (se : Option StyleEdition) (ver : Option Version) :
    fromTomlPath env fs f ed se ver = fromTomlPath env fs' f ed se ver := by
  unfold fromTomlPath; rw [hr]

end Load

theorem inv_applyFlagCalls (calls : List (Bool × String × Val)) (c c' : Config)
    (h : applyFlagCalls calls c = some c') (hi : Inv c) : Inv c' := by
  induction calls generalizing c with
  | nil => simp only [applyFlagCalls] at h; cases h; exact hi
  | cons p r ih =>
    obtain ⟨cli, k, v⟩ := p
    simp only [applyFlagCalls] at h
    cases h1 : (if cli then configSetCli c k v else configSet c k v) with
    | none => simp [h1] at h
    | some c1 =>
      simp only [h1] at h
      refine ih c1 h ?_
      cases cli
      · exact inv_configSet c c1 k v h1 hi
      · exact inv_configSetCli c c1 k v h1 hi

theorem inv_applyInline (l : List (String × Val)) (c c' : Config)
    (h : applyInline l c = some c') (hi : Inv c) : Inv c' := by
  induction l generalizing c with
  | nil => simp only [applyInline] at h; cases h; exact hi
  | cons p r ih =>
    obtain ⟨k, v⟩ := p
    simp only [applyInline] at h
    cases h1 : overrideValue c k v with
    | none => simp [h1] at h
    | some c1 =>
      simp only [h1] at h
      exact ih c1 h (inv_overrideValue c c1 k v h1 hi)

theorem inv_applyTo {α} (o : CliOptions α) (c c' : Config) (h : applyTo o c = some c')
    (hi : Inv c) : Inv c' := by
  unfold applyTo at h
  cases h1 : applyFlagCalls (flagCalls o) c with
  | none => simp [h1, bindO] at h
  | some c1 =>
    simp only [h1, bindO] at h
    exact inv_applyInline _ c1 c' h (inv_applyFlagCalls _ c c1 h1 hi)

theorem inv_fromTomlPath {α} (env : Env) (fs : FS α) (f : ConfigFile α) (ed se ver) (c : Config)
    (h : fromTomlPath env fs f ed se ver = .ok c) : Inv c := by
  unfold fromTomlPath at h
  cases hr : fs.read f with
  | none => simp [hr] at h
  | some parsed =>
    simp only [hr, fromToml] at h
    by_cases hv : validParsed parsed = true
    · simp only [hv, if_true] at h
      cases h
      unfold toParsedConfig
      rw [defaultForPossible_eq]
      exact inv_fillFromParsedConfig env parsed hv _ (heurOK_default _)
    · simp [hv] at h

theorem inv_loadResult {α} [DecidableEq α] (env : Env) (fs : FS α) (fp : Option (List α))
    (ovr : Option (ConfigFile α)) (ed se ver) (c0 : Config) (p0 : Option (ConfigFile α))
    (h0 : loadResult env fs fp ovr ed se ver = .ok (c0, p0)) : Inv c0 := by
  unfold loadResult at h0
  cases ovr with
  | some f =>
    simp only at h0
    cases h1 : fromTomlPath env fs f ed se ver with
    | error e => simp [h1] at h0
    | ok c1 =>
      simp only [h1, Except.ok.injEq, Prod.mk.injEq] at h0
      exact h0.1 ▸ inv_fromTomlPath env fs f ed se ver c1 h1
  | none =>
    simp only at h0
    cases fp with
    | none =>
      simp only [Except.ok.injEq, Prod.mk.injEq] at h0
      rw [← h0.1, defaultForPossible_eq]; exact inv_default _
    | some d =>
      simp only [fromResolvedTomlPath] at h0
      cases h2 : resolveProjectFile fs d with
      | error e => simp [h2] at h0
      | ok r =>
        cases r with
        | none =>
          simp only [h2, Except.ok.injEq, Prod.mk.injEq] at h0
          rw [← h0.1, defaultForPossible_eq]; exact inv_default _
        | some f =>
          simp only [h2] at h0
          cases h1 : fromTomlPath env fs f ed se ver with
          | error e => simp [h1] at h0
          | ok c1 =>
            simp only [h1, Except.ok.injEq, Prod.mk.injEq] at h0
            exact h0.1 ▸ inv_fromTomlPath env fs f ed se ver c1 h1

/-- Every configuration `load_config` returns has its explicitly set widths clamped. -/
theorem inv_loadConfig {α} [DecidableEq α] (env : Env) (fs : FS α) (fp : Option (List α))
    (opts : Option (CliOptions α)) (c : Config) (p : Option (ConfigFile α))
    (h : loadConfig env fs fp opts = .ok (c, p)) : Inv c := by
  unfold loadConfig at h
  cases hpre : loadPre fs opts with
  | error e => simp [hpre] at h
  | ok pre =>
    obtain ⟨ovr, ed, se, ver⟩ := pre
    simp only [hpre] at h
    cases hres : loadResult env fs fp ovr ed se ver with
    | error e => simp [hres] at h
    | ok cp =>
      obtain ⟨c0, p0⟩ := cp
      have hi0 := inv_loadResult env fs fp ovr ed se ver c0 p0 hres
      simp only [hres] at h
      cases opts with
      | none =>
        simp only [Except.ok.injEq, Prod.mk.injEq] at h
        exact h.1 ▸ hi0
      | some o =>
        simp only at h
        cases ha : applyTo o c0 with
        | none => simp [ha] at h
        | some c' =>
          simp only [ha, Except.ok.injEq, Prod.mk.injEq] at h
          exact h.1 ▸ inv_applyTo o c0 c' ha hi0

/-- A file system with one directory `/` holding `rustfmt.toml` with the given content. -/
def oneFile (content : List (String × Val)) : FS Unit :=
  ⟨[([], false, true)], none, none, (), fun _ => some content⟩

/-- A file system with one directory `/` and no config file anywhere. -/
def noFile : FS Unit := ⟨[([], false, false)], none, none, (), fun _ => none⟩

theorem load_oneFile (env : Env) (content : List (String × Val)) (o : CliOptions Unit)
    (ho : o.configPath = none) (hvp : validParsed content = true) :
    loadConfig env (oneFile content) (some []) (some o) =
      match applyTo o (toParsedConfig env content o.styleEditionOv o.editionOv o.versionOv) with
      | some c' => .ok (c', some ⟨[], false⟩)
      | none => .error .panic := by
  rw [loadConfig_no_config_path _ _ _ _ ho]
  have hr : resolveProjectFile (oneFile content) [] = .ok (some ⟨[], false⟩) := rfl
  have hread : (oneFile content).read ⟨[], false⟩ = some content := rfl
  simp only [fromResolvedTomlPath, hr, fromTomlPath, hread, fromToml, hvp, if_true]

theorem load_noFile (env : Env) (o : CliOptions Unit) (ho : o.configPath = none) :
    loadConfig env noFile (some []) (some o) =
      match applyTo o (defaultForPossibleStyleEdition o.styleEditionOv o.editionOv o.versionOv) with
      | some c' => .ok (c', none)
      | none => .error .panic := by
  rw [loadConfig_no_config_path _ _ _ _ ho]
  have hr : resolveProjectFile noFile [] = .ok none := rfl
  simp only [fromResolvedTomlPath, hr]

/-- One option through `/rustfmt.toml` vs. through `--config`, at the level of `load_config`. -/
theorem same_value_load (env : Env) (k : String) (v : Val)
    (hv : checkVal k v = true) (hs : isStableOptionAndValue env k v = true)
    (hk : k ∉ clobberKeys) :
    ∃ c1 c2,
      loadConfig env (oneFile [(k, v)]) (some []) (some {}) = .ok (c1, some ⟨[], false⟩) ∧
      loadConfig env noFile (some []) (some { inlineConfig := [(k, v)] }) = .ok (c2, none) ∧
      Equiv c1 c2 := by
  obtain ⟨c1, c2, h1, h2, he⟩ := same_value_core (α := Unit) env
    (chosenStyleEdition (parsedStyleEdition [(k, v)]) (parsedEdition [(k, v)])
      (parsedVersion [(k, v)])) k v hv hs hk
  refine ⟨c1, c2, ?_, ?_, he⟩
  · rw [load_oneFile env _ _ rfl (by simp [validParsed, hv])]
    have e : toParsedConfig env [(k, v)] (({} : CliOptions Unit).styleEditionOv)
        (({} : CliOptions Unit).editionOv) (({} : CliOptions Unit).versionOv) =
        fillFromParsedConfig env (defaultWithStyleEdition (chosenStyleEdition
          (parsedStyleEdition [(k, v)]) (parsedEdition [(k, v)]) (parsedVersion [(k, v)])))
          [(k, v)] := by
      unfold toParsedConfig
      rw [defaultForPossible_eq]
      rfl
    rw [e, h1]
  · rw [load_noFile env _ rfl]
    have e : defaultForPossibleStyleEdition
        (({ inlineConfig := [(k, v)] } : CliOptions Unit).styleEditionOv)
        (({ inlineConfig := [(k, v)] } : CliOptions Unit).editionOv)
        (({ inlineConfig := [(k, v)] } : CliOptions Unit).versionOv) =
        defaultWithStyleEdition (chosenStyleEdition
          (parsedStyleEdition [(k, v)]) (parsedEdition [(k, v)]) (parsedVersion [(k, v)])) := by
      rw [defaultForPossible_eq]
      rfl
    rw [e, h2]

/-! ## Aliases in a file -/

/-- The entry of an option after the store loop of `fill_from_parsed_config` on the nightly
channel, from a fresh default. -/
theorem getE_fillFold_nightly (D : Config) (parsed : List (String × Val)) (k : String)
    (hk : k ∈ optionNames) :
    getE (optionNames.foldl (fillStore ⟨true⟩ parsed) D) k =
      match parsed.lookup k with
      | some v => storeFn true false v (getE D k)
      | none => getE D k := by
  rw [getE_fillFold]
  simp only [hk, if_true, fillEntry]
  cases parsed.lookup k with
  | none => rfl
  | some v => rfl

/-- What `fill_from_parsed_config` leaves in the successor `new` of the alias `old`, given that the
other two alias setters do not write `new`. -/
theorem fill_alias (D : Config) (parsed : List (String × Val)) (hD : ∀ k, wasSet D k = false)
    (old new : String) (f : Val → Val) (vo : Val)
    (ho : old ∈ optionNames) (hn : new ∈ optionNames) (how : old ∉ widthKeys)
    (hnw : new ∉ widthKeys) (hlo : parsed.lookup old = some vo)
    (c : Config)
    (hc : getE c new = getE (setAlias old new f
      (setHeuristics (optionNames.foldl (fillStore ⟨true⟩ parsed) D))) new) :
    (getE c new).val =
      match parsed.lookup new with
      | some g => g
      | none => f vo := by
  rw [hc, getE_setAlias]
  simp only [getE_setHeuristics_of_not_width _ _ how,
    getE_setHeuristics_of_not_width _ _ hnw, wasSet, getE_fillFold_nightly D parsed _ ho,
    getE_fillFold_nightly D parsed _ hn, hlo, true_and]
  cases parsed.lookup new with
  | none =>
    have : (getE D new).wasSet = false := hD new
    simp [storeFn, this]
  | some g => simp [storeFn]

/-- In the chain of the three alias setters each successor is written by its own setter only. -/
theorem alias_chain (Y : Config) :
    getE (setHideParseErrors (setFnArgsLayout (setMergeImports Y))) "imports_granularity" =
      getE (setMergeImports Y) "imports_granularity" ∧
    getE (setHideParseErrors (setFnArgsLayout (setMergeImports Y))) "fn_params_layout" =
      getE (setFnArgsLayout Y) "fn_params_layout" ∧
    getE (setHideParseErrors (setFnArgsLayout (setMergeImports Y))) "show_parse_errors" =
      getE (setHideParseErrors Y) "show_parse_errors" := by
  refine ⟨?_, ?_, ?_⟩
  · rw [local_setHideParseErrors.1 _ _ (by decide), local_setFnArgsLayout.1 _ _ (by decide)]
  · rw [local_setHideParseErrors.1 _ _ (by decide)]
    exact local_setFnArgsLayout.2 _ _
      (fun k hk => local_setMergeImports.1 Y k (by
        simp only [List.mem_cons, List.not_mem_nil, or_false] at hk
        rcases hk with rfl | rfl <;> decide)) _ (by decide)
  · exact local_setHideParseErrors.2 _ _
      (fun k hk => by
        have hk1 : k ∉ ["fn_args_layout", "fn_params_layout"] := by
          simp only [List.mem_cons, List.not_mem_nil, or_false] at hk
          rcases hk with rfl | rfl <;> decide
        have hk2 : k ∉ ["merge_imports", "imports_granularity"] := by
          simp only [List.mem_cons, List.not_mem_nil, or_false] at hk
          rcases hk with rfl | rfl <;> decide
        rw [local_setFnArgsLayout.1 _ k hk1, local_setMergeImports.1 Y k hk2]) _ (by decide)

theorem alias_file (parsed : List (String × Val)) (se : StyleEdition) :
    let c := fillFromParsedConfig ⟨true⟩ (defaultWithStyleEdition se) parsed
    (∀ b, parsed.lookup "merge_imports" = some (.bool b) →
      (getE c "imports_granularity").val =
        match parsed.lookup "imports_granularity" with
        | some g => g
        | none => .str (if b then "Crate" else "Preserve")) ∧
    (∀ v, parsed.lookup "fn_args_layout" = some v →
      (getE c "fn_params_layout").val =
        match parsed.lookup "fn_params_layout" with
        | some g => g
        | none => v) ∧
    (∀ v, parsed.lookup "hide_parse_errors" = some v →
      (getE c "show_parse_errors").val =
        match parsed.lookup "show_parse_errors" with
        | some g => g
        | none => negBool v) := by
  have m1 : "merge_imports" ∈ optionNames ∧ "imports_granularity" ∈ optionNames ∧
      "fn_args_layout" ∈ optionNames ∧ "fn_params_layout" ∈ optionNames ∧
      "hide_parse_errors" ∈ optionNames ∧ "show_parse_errors" ∈ optionNames := by decide +kernel
  have n1 : "merge_imports" ∉ widthKeys ∧ "imports_granularity" ∉ widthKeys ∧
      "fn_args_layout" ∉ widthKeys ∧ "fn_params_layout" ∉ widthKeys ∧
      "hide_parse_errors" ∉ widthKeys ∧ "show_parse_errors" ∉ widthKeys := by decide
  have hch := alias_chain
    (setHeuristics (optionNames.foldl (fillStore ⟨true⟩ parsed) (defaultWithStyleEdition se)))
  refine ⟨fun b hb => ?_, fun v hv => ?_, fun v hv => ?_⟩
  · have := fill_alias _ parsed (wasSet_default se) "merge_imports" "imports_granularity"
      mergeImportsMap (.bool b) m1.1 m1.2.1 n1.1 n1.2.1 hb
      (fillFromParsedConfig ⟨true⟩ (defaultWithStyleEdition se) parsed) hch.1
    rw [this]
    cases parsed.lookup "imports_granularity" <;> cases b <;> rfl
  · exact fill_alias _ parsed (wasSet_default se) "fn_args_layout" "fn_params_layout"
      id v m1.2.2.1 m1.2.2.2.1 n1.2.2.1 n1.2.2.2.1 hv
      (fillFromParsedConfig ⟨true⟩ (defaultWithStyleEdition se) parsed) hch.2.1
  · exact fill_alias _ parsed (wasSet_default se) "hide_parse_errors" "show_parse_errors"
      negBool v m1.2.2.2.2.1 m1.2.2.2.2.2 n1.2.2.2.2.1 n1.2.2.2.2.2 hv
      (fillFromParsedConfig ⟨true⟩ (defaultWithStyleEdition se) parsed) hch.2.2

/-! ## The API setter against `override_value` -/

theorem heurEntry_congr (m m' u u' e : Entry) (k : String) (hm : m.val = m'.val)
    (hu : u.val = u'.val) : heurEntry m u e k = heurEntry m' u' e k := by
  unfold heurEntry heurOf
  rw [hm, hu]

/-- `config.set().k(v)` and `override_value(k, v)` leave the same VALUES everywhere, for every
option other than the eight width options and the three deprecated aliases. -/
theorem api_same_values (c : Config) (k : String) (v : Val) (hv : checkVal k v = true)
    (hw : k ∉ widthKeys) (ha : k ∉ aliasKeys) :
    ∃ c1 c2, configSet c k v = some c1 ∧ overrideValue c k v = some c2 ∧
      ∀ k', (getE c1 k').val = (getE c2 k').val := by
  refine ⟨_, _, by simp only [configSet, hv, if_true]; rfl,
    by simp only [overrideValue, hv, if_true]; rfl, ?_⟩
  rw [tables_agree.1]
  intro k'
  have hstore : ∀ k'', (getE (setVal c k v) k'').val = (getE (setVal (setWasSet c k) k v) k'').val ∧
      (k'' ≠ k → getE (setVal c k v) k'' = getE (setVal (setWasSet c k) k v) k'') := by
    intro k''
    simp only [getE_setVal, getE_setWasSet]
    by_cases h : k'' = k <;> simp [h]
  by_cases a1 : k ∈ heurKeys
  · rw [dispatch_heur k a1, dispatch_heur k a1, getE_setHeuristics, getE_setHeuristics]
    rw [heurEntry_congr _ _ _ _ _ k' (hstore "max_width").1 (hstore "use_small_heuristics").1]
    by_cases hk' : k' ∈ widthKeys
    · have : k' ≠ k := fun e => hw (e ▸ hk')
      rw [(hstore k').2 this]
    · rw [heurEntry_of_not_width _ _ _ _ hk', heurEntry_of_not_width _ _ _ _ hk']
      exact (hstore k').1
  · by_cases a5 : k = "version"
    · subst a5; rw [dispatch_version, dispatch_version]; exact (hstore k').1
    · have : k ∉ allDispatchKeys := by
        simp only [allDispatchKeys, List.mem_append, List.mem_cons, List.not_mem_nil,
          or_false, not_or]
        exact ⟨⟨a1, ha⟩, a5⟩
      rw [dispatch_other k this, dispatch_other k this]; exact (hstore k').1

end RF.Lemmas.Config

/-! ## `apply_to` does not depend on the order of the `--config` pairs -/

namespace RF.Lemmas.Config
open RF.Config RF.Gen.Options

theorem heurOK_setWasSetCli (c : Config) (k : String) (h : HeurOK c) :
    HeurOK (setWasSetCli c k) := by
  unfold HeurOK setWasSetCli
  rw [getE_upd]
  by_cases hk : "use_small_heuristics" = k
  · subst hk
    simp only [if_true]
    exact h
  · simp only [hk, if_false]; exact h

theorem heurOK_configSet (c c' : Config) (k : String) (v : Val)
    (h : configSet c k v = some c') (hi : HeurOK c) : HeurOK c' := by
  unfold configSet at h
  split at h
  · next hv =>
    cases h
    exact (heurOK_dispatch _ _ _).2 (heurOK_store c k _ v (fun _ => rfl) hv hi)
  · cases h

theorem heurOK_configSetCli (c c' : Config) (k : String) (v : Val)
    (h : configSetCli c k v = some c') (hi : HeurOK c) : HeurOK c' := by
  unfold configSetCli at h
  split at h
  · next hv =>
    cases h
    exact (heurOK_dispatch _ _ _).2
      (heurOK_setWasSetCli _ _ (heurOK_store c k _ v (fun _ => rfl) hv hi))
  · cases h

theorem heurOK_applyFlagCalls (calls : List (Bool × String × Val)) (c c' : Config)
    (h : applyFlagCalls calls c = some c') (hi : HeurOK c) : HeurOK c' := by
  induction calls generalizing c with
  | nil => simp only [applyFlagCalls] at h; cases h; exact hi
  | cons p r ih =>
    obtain ⟨cli, k, v⟩ := p
    simp only [applyFlagCalls] at h
    cases h1 : (if cli then configSetCli c k v else configSet c k v) with
    | none => simp [h1] at h
    | some c1 =>
      simp only [h1] at h
      refine ih c1 h ?_
      cases cli
      · exact heurOK_configSet c c1 k v h1 hi
      · exact heurOK_configSetCli c c1 k v h1 hi

/-- Among pairs with distinct keys at most one has the key `max_width`, so two orders of the same
pairs have the same `max_width` part. -/
theorem filter_max_width_eq (l1 l2 : List (String × Val)) (hp : l1.Perm l2)
    (hnd : (l1.map (·.1)).Nodup) :
    l1.filter (fun kv => kv.1 == "max_width") = l2.filter (fun kv => kv.1 == "max_width") := by
  have hpf := hp.filter (fun kv => kv.1 == "max_width")
  have hn : ((l1.filter (fun kv => kv.1 == "max_width")).map (·.1)).Nodup :=
    (List.filter_sublist.map _).nodup hnd
  have hall : ∀ kv ∈ l1.filter (fun kv => kv.1 == "max_width"), kv.1 = "max_width" := by
    intro kv hkv
    have := (List.mem_filter.1 hkv).2
    simpa using this
  cases hm : l1.filter (fun kv => kv.1 == "max_width") with
  | nil =>
    rw [hm] at hpf
    exact (List.nil_perm.1 hpf).symm ▸ rfl
  | cons a r =>
    cases r with
    | nil =>
      rw [hm] at hpf
      exact (List.singleton_perm.1 hpf).symm ▸ rfl
    | cons b r' =>
      exfalso
      rw [hm] at hn hall
      have ha := hall a (by simp)
      have hb := hall b (by simp)
      simp only [List.map_cons, List.nodup_cons, List.mem_cons, not_or] at hn
      exact hn.1.1 (ha.trans hb.symm)

end RF.Lemmas.Config

/-! ## Printing and loading the printed text -/

namespace RF.Lemmas.Config
open RF.Config RF.Gen.Options

theorem lookup_filter_key {β} (l : List (String × β)) (p : String → Bool) (k : String) :
    (l.filter fun kv => p kv.1).lookup k = if p k then l.lookup k else none := by
  induction l with
  | nil => simp
  | cons a r ih =>
    obtain ⟨k0, b⟩ := a
    by_cases hk : k = k0
    · subst hk
      by_cases hp : p k = true
      · simp [List.filter, hp]
      · have hp' : p k = false := by simpa using hp
        simp only [List.filter, hp', ih, Bool.false_eq_true, if_false]
    · have hb : (k == k0) = false := by simpa using hk
      by_cases hp0 : p k0 = true
      · simp only [List.filter, hp0, List.lookup_cons, hb, ih]
      · have hp0' : p k0 = false := by simpa using hp0
        simp only [List.filter, hp0', List.lookup_cons, hb, ih]

theorem lookup_some_of_mem_keys (c : Config) (k : String) (h : k ∈ c.map (·.1)) :
    c.lookup k = some (getE c k) := by
  induction c with
  | nil => cases h
  | cons a r ih =>
    obtain ⟨k0, e⟩ := a
    rw [getE_cons]
    simp only [List.lookup_cons]
    by_cases hk : k = k0
    · subst hk; simp
    · have hb : (k == k0) = false := by simpa using hk
      simp only [hb, hk, if_false]
      simp only [List.map_cons, List.mem_cons, hk, false_or] at h
      exact ih h

/-- What `to_toml` prints for an option: its value, unless it is on the hidden list. -/
theorem lookup_printed (c : Config) (hkeys : c.map (·.1) = optionNames) (k : String)
    (hk : k ∈ optionNames) :
    ((allOptions c).filter fun kv => !tomlHidden.contains kv.1).lookup k =
      if tomlHidden.contains k then none else some (getE c k).val := by
  rw [lookup_filter_key (allOptions c) (fun k => !tomlHidden.contains k) k]
  unfold allOptions
  rw [lookup_map_snd c (fun o => o.2.val) k, lookup_some_of_mem_keys c k (hkeys ▸ hk)]
  cases tomlHidden.contains k <;> rfl

theorem lookup_of_mem_nodup {β} (l : List (String × β)) (k : String) (b : β) (h : (k, b) ∈ l)
    (hnd : (l.map (·.1)).Nodup) : l.lookup k = some b := by
  induction l with
  | nil => cases h
  | cons a r ih =>
    obtain ⟨k0, b0⟩ := a
    simp only [List.map_cons, List.nodup_cons] at hnd
    rcases List.mem_cons.1 h with heq | hr
    · cases heq; simp
    · have hne : k ≠ k0 := fun e => hnd.1 (e ▸ List.mem_map.2 ⟨(k, b), hr, rfl⟩)
      have hb : (k == k0) = false := by simpa using hne
      simp only [List.lookup_cons, hb]
      exact ih hr hnd.2

theorem toToml_some (c : Config) (l : List (String × Val)) (h : toToml c = some l) :
    l = (allOptions c).filter fun kv => !tomlHidden.contains kv.1 := by
  unfold toToml at h
  simp only at h
  split at h
  · cases h; rfl
  · cases h

theorem isStable_nightly (k : String) (v : Val) : isStableOptionAndValue ⟨true⟩ k v = true := by
  unfold isStableOptionAndValue
  cases stableOf k <;> cases variantStable k v <;> rfl

/-- Print, then load: every printed option comes back with its value, provided every width is at most
`max_width` (no F8b) and the printed values are well-typed. -/
theorem roundTrip_values (c : Config) (l : List (String × Val))
    (hkeys : c.map (·.1) = optionNames) (hprint : toToml c = some l)
    (htyped : validParsed l = true)
    (hwidth : ∀ w ∈ widthKeys, natOf c w ≤ natOf c "max_width") :
    ∃ c2, roundTrip ⟨true⟩ c = some c2 ∧
      ∀ k ∈ optionNames, tomlHidden.contains k = false → (getE c2 k).val = (getE c k).val := by
  have hl := toToml_some c l hprint
  have hlook : ∀ k ∈ optionNames, l.lookup k =
      if tomlHidden.contains k then none else some (getE c k).val := by
    intro k hk; rw [hl]; exact lookup_printed c hkeys k hk
  refine ⟨toParsedConfig ⟨true⟩ l none none none, by simp [roundTrip, hprint, fromToml, htyped], ?_⟩
  intro k hk hnh
  unfold toParsedConfig
  rw [defaultForPossible_eq]
  generalize chosenStyleEdition _ _ _ = se
  unfold fillFromParsedConfig setVersion
  simp only
  -- the hidden aliases are not in the text, so the alias setters do nothing
  have hws : ∀ a, a ∈ optionNames → tomlHidden.contains a = true →
      wasSet (setHeuristics (optionNames.foldl (fillStore ⟨true⟩ l) (defaultWithStyleEdition se))) a
        = false := by
    intro a ha hh
    rw [wasSet_setHeuristics]
    unfold wasSet
    rw [getE_fillFold_nightly _ l a ha, hlook a ha, hh]
    simp only [if_true]
    exact wasSet_default se a
  have m1 : "merge_imports" ∈ optionNames ∧ "fn_args_layout" ∈ optionNames ∧
      "hide_parse_errors" ∈ optionNames := by decide +kernel
  have h1 : tomlHidden.contains "merge_imports" = true ∧ tomlHidden.contains "fn_args_layout" = true ∧
      tomlHidden.contains "hide_parse_errors" = true := by decide
  rw [setMergeImports_eq, setAlias_of_not_set _ _ _ _ (hws _ m1.1 h1.1),
    setFnArgsLayout_eq, setAlias_of_not_set _ _ _ _ (hws _ m1.2.1 h1.2.1),
    setHideParseErrors_eq, setAlias_of_not_set _ _ _ _ (hws _ m1.2.2 h1.2.2)]
  -- the store loop puts the printed value back, `set_heuristics` keeps it
  have hfill : ∀ k' ∈ optionNames, tomlHidden.contains k' = false →
      getE (optionNames.foldl (fillStore ⟨true⟩ l) (defaultWithStyleEdition se)) k' =
        storeFn true false (getE c k').val (getE (defaultWithStyleEdition se) k') := by
    intro k' hk' hh
    rw [getE_fillFold_nightly _ l k' hk', hlook k' hk', hh]
    simp
  rw [getE_setHeuristics]
  by_cases hw : k ∈ widthKeys
  · -- a width: it was set, so it is clamped against max_width, which it does not exceed
    have hmwm : "max_width" ∈ optionNames ∧ tomlHidden.contains "max_width" = false := by
      decide +kernel
    have hcv : checkVal k (getE c k).val = true :=
      checkVal_of_validParsed l htyped k _ (by rw [hlook k hk, hnh]; simp) hk
    have htag : tagOf k = some .nat := by
      have : ∀ w ∈ widthKeys, tagOf w = some .nat := by decide +kernel
      exact this k hw
    obtain ⟨n, hn⟩ : ∃ n, (getE c k).val = .nat n := by
      unfold checkVal at hcv
      rw [htag] at hcv
      cases hv : (getE c k).val with
      | nat n => exact ⟨n, rfl⟩
      | bool b => rw [hv] at hcv; simp at hcv
      | str s => rw [hv] at hcv; simp at hcv
    rw [hfill k hk hnh, hfill "max_width" hmwm.1 hmwm.2]
    unfold heurEntry
    cases heurOf _ _ with
    | none => simp [storeFn]
    | some h =>
      simp only
      obtain ⟨hv, hlk⟩ := lookup_toList_some h k hw
      rw [hlk]
      have hle : n ≤ (getE c "max_width").val.toNat := by
        have h0 := hwidth k hw
        unfold natOf at h0
        rw [hn] at h0
        exact h0
      simp only [widthEntry, storeFn, Bool.or_true, hn]
      have e : (Val.nat n).toNat = n := rfl
      rw [e]
      unfold getWidthValue
      simp only [Bool.not_true, Bool.false_eq_true, if_false]
      generalize (getE c "max_width").val.toNat = mw at hle
      have hgt : ¬ n > mw := by omega
      rw [if_neg hgt]
  · rw [heurEntry_of_not_width _ _ _ _ hw, hfill k hk hnh]
    simp [storeFn]

end RF.Lemmas.Config
