import RF.Model.Project
import RF.Lemmas.Session
/-! Lemmas about `RF.Project` (C05). -/
namespace RF.Lemmas.Project
open RF.Session RF.Project RF.Gen.Phases RF.Gen.Emitters

/-! ### module resolution fails exactly on a reachable fault -/

theorem false_of_some {α : Type} {o : Option α} {b : Bool} (hiff : o = none ↔ b = true) {a : α} (h : o = some a) :
    b = false := by
  cases hb : b with
  | false => rfl
  | true => rw [hiff.2 hb] at h; cases h

mutual
theorem visitTree_none_iff : ∀ (t : Tree) (acc : List File), visitTree t acc = none ↔ faultT t = true
  | .node f mods, acc => by
    unfold visitTree faultT
    by_cases hp : f.parse = .ok
    · by_cases hs : f.skipAttr = true
      · simp [hp, hs]
      · simp [hp, hs, visitMods_none_iff mods (orInsert f acc)]
    · simp [hp]
theorem visitMods_none_iff : ∀ (m : Mods) (acc : List File), visitMods m acc = none ↔ faultM m = true
  | .nil, acc => by simp [visitMods, faultM]
  | .found t rest, acc => by
    unfold visitMods faultM
    cases h : visitTree t acc with
    | none =>
      have := (visitTree_none_iff t acc).1 h
      simp [this]
    | some acc' =>
      have : faultT t = false := by
        cases hf : faultT t with
        | false => rfl
        | true => rw [(visitTree_none_iff t acc).2 hf] at h; cases h
      simp [this, visitMods_none_iff rest acc']
  | .skipped rest, acc => by
    unfold visitMods faultM
    exact visitMods_none_iff rest acc
  | .notFound _, _ => by simp [visitMods, faultM]
  | .multiple _, _ => by simp [visitMods, faultM]
  | .cfgAttr alts dk act (.node df dm) ghost rest, acc => by
    unfold visitMods faultM
    by_cases hf : altsFail alts = true
    · simp [hf]
    · simp only [hf, Bool.false_eq_true, if_false, Bool.false_or]
      cases act with
      | fail => simp
      | none => simp only []; exact visitMods_none_iff rest acc
      | file =>
        simp only []
        cases h1 : visitAlts alts (orInsert df (insertAlts alts acc)) with
        | none => simp [(visitAlts_none_iff alts _).1 h1]
        | some a1 =>
          have e1 := false_of_some (visitAlts_none_iff alts _) h1
          dsimp only
          cases h2 : visitMods dm a1 with
          | none => simp [(visitMods_none_iff dm a1).1 h2]
          | some a2 =>
            have e2 := false_of_some (visitMods_none_iff dm a1) h2
            simp [e1, e2, visitMods_none_iff rest a2]
      | declaringItem =>
        simp only []
        cases h1 : visitAlts alts (orInsert ghost (insertAlts alts acc)) with
        | none => simp [(visitAlts_none_iff alts _).1 h1]
        | some a1 =>
          have e1 := false_of_some (visitAlts_none_iff alts _) h1
          simp [e1, visitMods_none_iff rest a1]
      | candidates =>
        simp only []
        cases h1 : visitAlts alts (insertAlts alts acc) with
        | none => simp [(visitAlts_none_iff alts _).1 h1]
        | some a1 =>
          have e1 := false_of_some (visitAlts_none_iff alts _) h1
          simp [e1, visitMods_none_iff rest a1]
theorem visitAlts_none_iff : ∀ (a : Alts) (acc : List File), visitAlts a acc = none ↔ faultA a = true
  | .nil, acc => by simp [visitAlts, faultA]
  | .cons .use (.node f m) rest, acc => by
    unfold visitAlts faultA
    cases h : visitMods m acc with
    | none => simp [(visitMods_none_iff m acc).1 h]
    | some a =>
      have e := false_of_some (visitMods_none_iff m acc) h
      simp [e, visitAlts_none_iff rest a]
  | .cons .fail t rest, acc => by
    unfold visitAlts faultA
    exact visitAlts_none_iff rest acc
  | .cons .skip t rest, acc => by
    unfold visitAlts faultA
    exact visitAlts_none_iff rest acc
end

theorem visitCrate_none_iff (recursive : Bool) (root : Tree) :
    visitCrate recursive root = none ↔ (recursive && faultM root.mods) = true := by
  unfold visitCrate
  cases recursive with
  | false => simp
  | true =>
    simp only [if_true, Bool.true_and]
    cases h : visitMods root.mods [] with
    | none => simp [(visitMods_none_iff _ _).1 h]
    | some m =>
      have : faultM root.mods = false := by
        cases hf : faultM root.mods with
        | false => rfl
        | true => rw [(visitMods_none_iff _ _).2 hf] at h; cases h
      simp [this]

/-! ### every file in the map comes from the tree -/

theorem mem_orInsert {f x : File} : ∀ {l : List File}, x ∈ orInsert f l → x = f ∨ x ∈ l := by
  intro l
  induction l with
  | nil => simp [orInsert]
  | cons g r ih =>
    unfold orInsert
    split
    · simp
    · split
      · intro h; right; exact h
      · intro h
        simp only [List.mem_cons] at h ⊢
        rcases h with h | h
        · right; left; exact h
        · rcases ih h with h | h
          · left; exact h
          · right; right; exact h

theorem mem_insert {f x : File} : ∀ {l : List File}, x ∈ mapInsert f l → x = f ∨ x ∈ l := by
  intro l
  induction l with
  | nil => simp [mapInsert]
  | cons g r ih =>
    unfold mapInsert
    split
    · simp
    · split
      · intro h
        simp only [List.mem_cons] at h ⊢
        rcases h with h | h
        · left; exact h
        · right; right; exact h
      · intro h
        simp only [List.mem_cons] at h ⊢
        rcases h with h | h
        · right; left; exact h
        · rcases ih h with h | h
          · left; exact h
          · right; right; exact h

theorem insertAlts_mem {x : File} : ∀ (a : Alts) (acc : List File), x ∈ insertAlts a acc → x ∈ acc ∨ x ∈ allFilesA a
  | .nil, acc => by unfold insertAlts; intro h; left; exact h
  | .cons .use (.node f m) rest, acc => by
    unfold insertAlts allFilesA allFilesT
    intro h
    rcases insertAlts_mem rest _ h with h1 | h1
    · rcases mem_orInsert h1 with h2 | h2
      · right; simp [h2]
      · left; exact h2
    · right; simp [h1]
  | .cons .fail t rest, acc => by
    unfold insertAlts allFilesA
    intro h
    rcases insertAlts_mem rest _ h with h1 | h1
    · left; exact h1
    · right; simp [h1]
  | .cons .skip t rest, acc => by
    unfold insertAlts allFilesA
    intro h
    rcases insertAlts_mem rest _ h with h1 | h1
    · left; exact h1
    · right; simp [h1]

mutual
theorem visitTree_mem : ∀ (t : Tree) (acc r : List File), visitTree t acc = some r →
    ∀ x ∈ r, x ∈ acc ∨ x ∈ allFilesT t
  | .node f mods, acc, r => by
    unfold visitTree allFilesT
    split
    · intro h; cases h
    · split
      · intro h; cases h; intro x hx; left; exact hx
      · intro h x hx
        rcases visitMods_mem mods _ r h x hx with h1 | h1
        · rcases mem_orInsert h1 with h2 | h2
          · right; simp [h2]
          · left; exact h2
        · right; simp [h1]
theorem visitMods_mem : ∀ (m : Mods) (acc r : List File), visitMods m acc = some r →
    ∀ x ∈ r, x ∈ acc ∨ x ∈ allFilesM m
  | .nil, acc, r => by
    unfold visitMods; intro h; cases h; intro x hx; left; exact hx
  | .found t rest, acc, r => by
    unfold visitMods allFilesM
    cases h : visitTree t acc with
    | none => intro h'; cases h'
    | some acc' =>
      intro h' x hx
      rcases visitMods_mem rest acc' r h' x hx with h1 | h1
      · rcases visitTree_mem t acc acc' h x h1 with h2 | h2
        · left; exact h2
        · right; simp [h2]
      · right; simp [h1]
  | .skipped rest, acc, r => by
    unfold visitMods allFilesM
    exact visitMods_mem rest acc r
  | .notFound _, _, _ => by unfold visitMods; intro h; cases h
  | .multiple _, _, _ => by unfold visitMods; intro h; cases h
  | .cfgAttr alts dk act (.node df dm) ghost rest, acc, r => by
    unfold visitMods allFilesM allFilesT
    by_cases hf : altsFail alts = true
    · simp [hf]
    · simp only [hf, Bool.false_eq_true, if_false]
      cases act with
      | fail => intro h; cases h
      | none =>
        simp only []
        intro h x hx
        rcases visitMods_mem rest acc r h x hx with k | k <;> simp [k]
      | file =>
        simp only []
        cases h1 : visitAlts alts (orInsert df (insertAlts alts acc)) with
        | none => intro h; cases h
        | some a1 =>
          dsimp only
          cases h2 : visitMods dm a1 with
          | none => intro h; cases h
          | some a2 =>
            dsimp only
            intro h x hx
            rcases visitMods_mem rest a2 r h x hx with k | k
            · rcases visitMods_mem dm a1 a2 h2 x k with k | k
              · rcases visitAlts_mem alts _ a1 h1 x k with k | k
                · rcases mem_orInsert k with k | k
                  · simp [k]
                  · rcases insertAlts_mem alts acc k with k | k <;> simp [k]
                · simp [k]
              · simp [k]
            · simp [k]
      | declaringItem =>
        simp only []
        cases h1 : visitAlts alts (orInsert ghost (insertAlts alts acc)) with
        | none => intro h; cases h
        | some a1 =>
          dsimp only
          intro h x hx
          rcases visitMods_mem rest a1 r h x hx with k | k
          · rcases visitAlts_mem alts _ a1 h1 x k with k | k
            · rcases mem_orInsert k with k | k
              · simp [k]
              · rcases insertAlts_mem alts acc k with k | k <;> simp [k]
            · simp [k]
          · simp [k]
      | candidates =>
        simp only []
        cases h1 : visitAlts alts (insertAlts alts acc) with
        | none => intro h; cases h
        | some a1 =>
          dsimp only
          intro h x hx
          rcases visitMods_mem rest a1 r h x hx with k | k
          · rcases visitAlts_mem alts _ a1 h1 x k with k | k
            · rcases insertAlts_mem alts acc k with k | k <;> simp [k]
            · simp [k]
          · simp [k]
theorem visitAlts_mem : ∀ (a : Alts) (acc r : List File), visitAlts a acc = some r →
    ∀ x ∈ r, x ∈ acc ∨ x ∈ allFilesA a
  | .nil, acc, r => by
    unfold visitAlts; intro h; cases h; intro x hx; left; exact hx
  | .cons .use (.node f m) rest, acc, r => by
    unfold visitAlts allFilesA allFilesT
    cases h : visitMods m acc with
    | none => intro h'; cases h'
    | some a =>
      intro h' x hx
      rcases visitAlts_mem rest a r h' x hx with k | k
      · rcases visitMods_mem m acc a h x k with k | k
        · left; exact k
        · right; simp [k]
      · right; simp [k]
  | .cons .fail t rest, acc, r => by
    unfold visitAlts allFilesA
    intro h x hx
    rcases visitAlts_mem rest acc r h x hx with k | k
    · left; exact k
    · right; simp [k]
  | .cons .skip t rest, acc, r => by
    unfold visitAlts allFilesA
    intro h x hx
    rcases visitAlts_mem rest acc r h x hx with k | k
    · left; exact k
    · right; simp [k]
end

theorem visitCrate_mem (recursive : Bool) (root : Tree) (r : List File)
    (h : visitCrate recursive root = some r) : ∀ x ∈ r, x ∈ allFilesT root := by
  intro x hx
  cases root with
  | node f mods =>
    unfold visitCrate at h
    simp only [Tree.mods, Tree.file] at h
    unfold allFilesT
    cases recursive with
    | false =>
      simp at h; subst h
      rcases mem_insert hx with h1 | h1
      · simp [h1]
      · cases h1
    | true =>
      simp only [if_true] at h
      cases hm : visitMods mods [] with
      | none => rw [hm] at h; cases h
      | some m =>
        rw [hm] at h
        simp at h; subst h
        rcases mem_insert hx with h1 | h1
        · simp [h1]
        · rcases visitMods_mem mods [] m hm x h1 with h2 | h2
          · cases h2
          · simp [h2]

/-! ### one file: what is written is the complete text, and only if it differs -/

/-- `e` is a file-system call of emitter `kind` on `f`'s path carrying `text`. -/
def IsWriteOf (kind : EmitterKind) (f : File) (text : Text) (e : Effect) : Prop :=
  e.path = f.path ∧ e.text = text ∧ text ≠ f.orig ∧ e.op ∈ fsOps kind

theorem emitFile_mem {kind : EmitterKind} {f : File} {text : Text} {effs : List Effect}
    (h : emitFile kind f text = some effs) : ∀ e ∈ effs, IsWriteOf kind f text e := by
  unfold emitFile at h
  split at h
  · rename_i hne
    split at h
    · cases h
    · cases h
      intro e he
      simp only [List.mem_map] at he
      obtain ⟨op, hop, rfl⟩ := he
      exact ⟨rfl, rfl, fun h => hne h.symm, hop⟩
  · cases h; intro e he; cases he

theorem runFileSteps_effects (ops : FileOps) (kind : EmitterKind) (f : File) :
    ∀ (steps : List FileStep) (s s' : FileSt), fileStepsSafe steps = true →
      runFileSteps ops kind f steps s = some s' →
      ∀ e ∈ s'.effects, e ∈ s.effects ∨ IsWriteOf kind f (pipeline ops f steps s.buffer) e := by
  intro steps
  induction steps with
  | nil => intro s s' h; simp [fileStepsSafe] at h
  | cons st r ih =>
    intro s s' hsafe hrun e he
    cases r with
    | nil =>
      -- the single remaining step is `emit`
      simp only [fileStepsSafe, beq_iff_eq] at hsafe
      subst hsafe
      simp only [runFileSteps] at hrun
      cases hem : emitFile kind f s.buffer with
      | none => rw [hem] at hrun; cases hrun
      | some effs =>
        rw [hem] at hrun
        simp only [Option.some.injEq] at hrun
        subst hrun
        simp only [List.mem_append] at he
        rcases he with he | he
        · left; exact he
        · right; simpa [pipeline] using emitFile_mem hem e he
    | cons st2 r2 =>
      simp only [fileStepsSafe, Bool.and_eq_true, bne_iff_ne, ne_eq] at hsafe
      obtain ⟨hne, hrest⟩ := hsafe
      cases st with
      | emit => exact absurd rfl hne
      | visit =>
        simp only [runFileSteps] at hrun
        simpa [pipeline] using ih _ s' hrest hrun e he
      | appendNewline =>
        simp only [runFileSteps] at hrun
        simpa [pipeline] using ih _ s' hrest hrun e he
      | formatLines =>
        simp only [runFileSteps] at hrun
        simpa [pipeline] using ih _ s' hrest hrun e he
      | applyNewlineStyle =>
        simp only [runFileSteps] at hrun
        simpa [pipeline] using ih _ s' hrest hrun e he

theorem runFile_effects (steps : List FileStep) (ops : FileOps) (kind : EmitterKind) (f : File)
    (fs : FileSt) (hsafe : fileStepsSafe steps = true) (h : runFile steps ops kind f = some fs) :
    ∀ e ∈ fs.effects, IsWriteOf kind f (complete steps ops f) e := by
  intro e he
  rcases runFileSteps_effects ops kind f steps {} fs hsafe h e he with h1 | h1
  · cases h1
  · exact h1

/-- an effect that is a complete, differing write of some file of the list -/
def FromFiles (steps : List FileStep) (ops : FileOps) (kind : EmitterKind) (fl : List File) (e : Effect) : Prop :=
  ∃ f ∈ fl, IsWriteOf kind f (complete steps ops f) e

theorem formatLoop_log (steps : List FileStep) (ops : FileOps) (kind : EmitterKind)
    (hsafe : fileStepsSafe steps = true) :
    ∀ (q : List File) (rep : Flags) (log : List Effect),
      ∀ e ∈ (formatLoop steps ops kind q rep log).2, e ∈ log ∨ FromFiles steps ops kind q e := by
  intro q
  induction q with
  | nil => intro rep log e he; left; simpa [formatLoop] using he
  | cons f r ih =>
    intro rep log e he
    unfold formatLoop at he
    cases hf : runFile steps ops kind f with
    | none => rw [hf] at he; left; exact he
    | some fs =>
      rw [hf] at he
      rcases ih _ _ e he with h1 | ⟨g, hg, hw⟩
      · simp only [List.mem_append] at h1
        rcases h1 with h1 | h1
        · left; exact h1
        · right; exact ⟨f, by simp, runFile_effects steps ops kind f fs hsafe hf e h1⟩
      · right; exact ⟨g, by simp [hg], hw⟩

/-! ### the phases -/

theorem exec_cons (e : Env) (p : Phase) (ps : List Phase) (s : St) :
    exec e (p :: ps) s = match step e p s with | .next s' => exec e ps s' | .done r => r := by
  rfl

/-! equations of `step`, one per way through each phase -/

theorem step_new_ok {e : Env} {s : St} (h : e.cfg.ignoreGlobOk = true) :
    step e .newParseSess s = .next { s with psess := true } := by simp [step, h]
theorem step_new_bad {e : Env} {s : St} (h : e.cfg.ignoreGlobOk = false) :
    step e .newParseSess s = .done ⟨.err, s.log⟩ := by simp [step, h]
theorem step_ign_stuck {e : Env} {s : St} (h : s.psess = false) :
    step e .ignoreRootCheck s = .done ⟨.stuck, s.log⟩ := by simp [step, h]
theorem step_ign_ret {e : Env} {s : St} (h : s.psess = true)
    (h2 : (e.cfg.skipChildren && e.root.file.ignored) = true) :
    step e .ignoreRootCheck s = .done ⟨.ok {}, s.log⟩ := by
  simp only [step, h, h2, Bool.not_true, Bool.false_eq_true, if_false, if_true]
theorem step_ign_next {e : Env} {s : St} (h : s.psess = true)
    (h2 : (e.cfg.skipChildren && e.root.file.ignored) = false) :
    step e .ignoreRootCheck s = .next s := by
  simp only [step, h, h2, Bool.not_true, Bool.false_eq_true, if_false]
theorem step_parse_stuck {e : Env} {s : St} (h : s.psess = false) :
    step e .parseCrate s = .done ⟨.stuck, s.log⟩ := by simp [step, h]
theorem step_parse_fault {e : Env} {s : St} (h : s.psess = true) (h2 : e.root.file.parse ≠ .ok) :
    step e .parseCrate s = .done ⟨.ok { s.report with parsing := true }, s.log⟩ := by
  simp only [step, h, h2, Bool.not_true, Bool.false_eq_true, if_false, if_true, ne_eq, not_false_eq_true]
theorem step_parse_ok {e : Env} {s : St} (h : s.psess = true) (h2 : e.root.file.parse = .ok) :
    step e .parseCrate s = .next { s with krate := some e.root, queue := [e.root.file] } := by
  simp only [step, h, h2, Bool.not_true, Bool.false_eq_true, if_false, ne_eq, not_true_eq_false]
theorem step_res_stuck {e : Env} {s : St} (h : s.krate = none) :
    step e .resolveModules s = .done ⟨.stuck, s.log⟩ := by simp [step, h]
theorem step_res_err {e : Env} {s : St} {k : Tree} (h : s.krate = some k)
    (h2 : visitCrate (!e.cfg.skipChildren) k = none) :
    step e .resolveModules s = .done ⟨.err, s.log⟩ := by simp [step, h, h2]
theorem step_res_ok {e : Env} {s : St} {k : Tree} {files : List File} (h : s.krate = some k)
    (h2 : visitCrate (!e.cfg.skipChildren) k = some files) :
    step e .resolveModules s = .next { s with queue := files } := by simp [step, h, h2]
theorem step_filter {e : Env} {s : St} :
    step e .filterFiles s =
      .next { s with queue := s.queue.filter fun f => !shouldSkip e.cfg e.root.file.path f } := rfl
theorem step_loop_err {e : Env} {s : St} {log : List Effect}
    (h : formatLoop e.steps e.ops e.kind s.queue s.report s.log = (none, log)) :
    step e .formatLoop s = .done ⟨.err, log⟩ := by simp [step, h]
theorem step_loop_ok {e : Env} {s : St} {log : List Effect} {rep : Flags}
    (h : formatLoop e.steps e.ops e.kind s.queue s.report s.log = (some rep, log)) :
    step e .formatLoop s = .next { s with report := rep, log := log } := by simp [step, h]

/-- the invariant of `exec_log_complete` across one phase -/
theorem step_log_complete (e : Env) (hsafe : fileStepsSafe e.steps = true) (p : Phase) (s : St)
    (hq : ∀ x ∈ s.queue, x ∈ allFilesT e.root) (hk : ∀ k, s.krate = some k → k = e.root) :
    match step e p s with
    | .next s' =>
      (∀ x ∈ s'.queue, x ∈ allFilesT e.root) ∧ (∀ k, s'.krate = some k → k = e.root) ∧
      (∀ x ∈ s'.log, x ∈ s.log ∨ FromFiles e.steps e.ops e.kind (allFilesT e.root) x)
    | .done r => ∀ x ∈ r.log, x ∈ s.log ∨ FromFiles e.steps e.ops e.kind (allFilesT e.root) x := by
  have triv : ∀ x ∈ s.log, x ∈ s.log ∨ FromFiles e.steps e.ops e.kind (allFilesT e.root) x :=
    fun x hx => Or.inl hx
  cases p with
  | newParseSess =>
    cases h : e.cfg.ignoreGlobOk with
    | true => rw [step_new_ok h]; exact ⟨hq, hk, triv⟩
    | false => rw [step_new_bad h]; exact triv
  | ignoreRootCheck =>
    cases hps : s.psess with
    | false => rw [step_ign_stuck hps]; exact triv
    | true =>
      cases h : (e.cfg.skipChildren && e.root.file.ignored) with
      | true => rw [step_ign_ret hps h]; exact triv
      | false => rw [step_ign_next hps h]; exact ⟨hq, hk, triv⟩
  | parseCrate =>
    cases hps : s.psess with
    | false => rw [step_parse_stuck hps]; exact triv
    | true =>
      by_cases h : e.root.file.parse = .ok
      · rw [step_parse_ok hps h]
        refine ⟨?_, ?_, triv⟩
        · intro y hy
          simp only [List.mem_singleton] at hy
          subst hy
          cases e.root with
          | node f m => simp [Tree.file, allFilesT]
        · intro k hk'
          simp only [Option.some.injEq] at hk'
          exact hk'.symm
      · rw [step_parse_fault hps h]; exact triv
  | resolveModules =>
    cases hkr : s.krate with
    | none => rw [step_res_stuck hkr]; exact triv
    | some k =>
      have hke := hk k hkr
      subst hke
      cases hv : visitCrate (!e.cfg.skipChildren) e.root with
      | none => rw [step_res_err hkr hv]; exact triv
      | some files =>
        rw [step_res_ok hkr hv]
        exact ⟨visitCrate_mem _ _ _ hv, hk, triv⟩
  | filterFiles =>
    rw [step_filter]
    exact ⟨fun y hy => hq y (List.mem_filter.1 hy).1, hk, triv⟩
  | formatLoop =>
    have hl := formatLoop_log e.steps e.ops e.kind hsafe s.queue s.report s.log
    cases hfl : formatLoop e.steps e.ops e.kind s.queue s.report s.log with
    | mk o log =>
      rw [hfl] at hl
      have key : ∀ y ∈ log, y ∈ s.log ∨ FromFiles e.steps e.ops e.kind (allFilesT e.root) y := by
        intro y hy
        rcases hl y hy with h1 | ⟨g, hg, hw⟩
        · left; exact h1
        · right; exact ⟨g, hq g hg, hw⟩
      cases o with
      | none => rw [step_loop_err hfl]; exact key
      | some rep => rw [step_loop_ok hfl]; exact ⟨hq, hk, key⟩

/-- Every logged effect of a run is a complete, differing write of a file of the tree (any phase order). -/
theorem exec_log_complete (e : Env) (hsafe : fileStepsSafe e.steps = true) :
    ∀ (ps : List Phase) (s : St),
      (∀ x ∈ s.queue, x ∈ allFilesT e.root) →
      (∀ k, s.krate = some k → k = e.root) →
      ∀ x ∈ (exec e ps s).log, x ∈ s.log ∨ FromFiles e.steps e.ops e.kind (allFilesT e.root) x := by
  intro ps
  induction ps with
  | nil => intro s _ _ x hx; left; simpa [exec] using hx
  | cons p ps ih =>
    intro s hq hk x hx
    rw [exec_cons] at hx
    have hstep := step_log_complete e hsafe p s hq hk
    cases hs : step e p s with
    | next s' =>
      rw [hs] at hx hstep
      simp only at hx hstep
      obtain ⟨h1, h2, h3⟩ := hstep
      rcases ih s' h1 h2 x hx with h | h
      · exact h3 x h
      · right; exact h
    | done r =>
      rw [hs] at hx hstep
      exact hstep x hx

/-- General lemma: under a safe phase order a faulty root leaves the log as it was and the failure is
recorded (unless the root is on the ignore list under `skip_children`, in which case it is not even parsed). -/
theorem exec_fault (e : Env) (hf : faulty e.cfg e.root = true) :
    ∀ (ps : List Phase) (s : St) (psess krate filtered : Bool),
      safeFrom psess krate false filtered ps = true →
      (psess = true → s.psess = true) →
      (krate = true → s.krate = some e.root ∧ e.root.file.parse = .ok) →
      (exec e ps s).log = s.log ∧
      ((e.cfg.skipChildren && e.root.file.ignored) = false → (exec e ps s).flagged = true) := by
  intro ps
  induction ps with
  | nil => intro s psess krate filtered h; simp [safeFrom] at h
  | cons p ps ih =>
    intro s psess krate filtered hsafe hp hk
    rw [exec_cons]
    cases p with
    | newParseSess =>
      simp only [safeFrom] at hsafe
      cases h : e.cfg.ignoreGlobOk with
      | true =>
        rw [step_new_ok h]
        exact ih { s with psess := true } true krate filtered hsafe (fun _ => rfl) hk
      | false => rw [step_new_bad h]; simp [Result.flagged]
    | ignoreRootCheck =>
      simp only [safeFrom, Bool.and_eq_true] at hsafe
      have hps := hp hsafe.1
      cases h : (e.cfg.skipChildren && e.root.file.ignored) with
      | true => rw [step_ign_ret hps h]; simp
      | false =>
        rw [step_ign_next hps h]
        have := ih s psess krate filtered hsafe.2 hp hk
        rw [h] at this
        exact this
    | parseCrate =>
      simp only [safeFrom, Bool.and_eq_true] at hsafe
      have hps := hp hsafe.1.1
      by_cases h : e.root.file.parse = .ok
      · rw [step_parse_ok hps h]
        exact ih { s with krate := some e.root, queue := [e.root.file] } psess true filtered hsafe.2
          hp (fun _ => ⟨rfl, h⟩)
      · rw [step_parse_fault hps h]; simp [Result.flagged]
    | resolveModules =>
      simp only [safeFrom, Bool.and_eq_true] at hsafe
      obtain ⟨hkr, hok⟩ := hk hsafe.1
      have hfault : visitCrate (!e.cfg.skipChildren) e.root = none := by
        rw [visitCrate_none_iff]
        simp only [faulty, hok, bne_self_eq_false, Bool.false_or] at hf
        exact hf
      rw [step_res_err hkr hfault]; simp [Result.flagged]
    | filterFiles =>
      simp only [safeFrom] at hsafe
      rw [step_filter]
      exact ih { s with queue := s.queue.filter fun f => !shouldSkip e.cfg e.root.file.path f }
        psess krate true hsafe hp hk
    | formatLoop =>
      simp [safeFrom] at hsafe

/-- A well-scoped phase list never uses a value before it is produced. -/
theorem exec_not_stuck (e : Env) :
    ∀ (ps : List Phase) (s : St) (psess krate resolved filtered : Bool),
      safeFrom psess krate resolved filtered ps = true →
      (psess = true → s.psess = true) →
      (krate = true → s.krate.isSome = true) →
      (exec e ps s).outcome ≠ .stuck := by
  intro ps
  induction ps with
  | nil => intro s _ _ _ _ _ _ _; simp [exec]
  | cons p ps ih =>
    intro s psess krate resolved filtered hsafe hp hk
    rw [exec_cons]
    cases p with
    | newParseSess =>
      simp only [safeFrom] at hsafe
      cases h : e.cfg.ignoreGlobOk with
      | true =>
        rw [step_new_ok h]
        exact ih { s with psess := true } true krate resolved filtered hsafe (fun _ => rfl) hk
      | false => rw [step_new_bad h]; simp
    | ignoreRootCheck =>
      simp only [safeFrom, Bool.and_eq_true] at hsafe
      have hps := hp hsafe.1
      cases h : (e.cfg.skipChildren && e.root.file.ignored) with
      | true => rw [step_ign_ret hps h]; simp
      | false =>
        rw [step_ign_next hps h]
        exact ih s psess krate resolved filtered hsafe.2 hp hk
    | parseCrate =>
      simp only [safeFrom, Bool.and_eq_true] at hsafe
      have hps := hp hsafe.1.1
      by_cases h : e.root.file.parse = .ok
      · rw [step_parse_ok hps h]
        exact ih { s with krate := some e.root, queue := [e.root.file] } psess true resolved filtered
          hsafe.2 hp (fun _ => rfl)
      · rw [step_parse_fault hps h]; simp
    | resolveModules =>
      simp only [safeFrom, Bool.and_eq_true] at hsafe
      have hks := hk hsafe.1
      cases hkr : s.krate with
      | none => rw [hkr] at hks; cases hks
      | some k =>
        cases hv : visitCrate (!e.cfg.skipChildren) k with
        | none => rw [step_res_err hkr hv]; simp
        | some files =>
          rw [step_res_ok hkr hv]
          exact ih { s with queue := files } psess krate true false hsafe.2 hp hk
    | filterFiles =>
      simp only [safeFrom] at hsafe
      rw [step_filter]
      exact ih { s with queue := s.queue.filter fun f => !shouldSkip e.cfg e.root.file.path f }
        psess krate resolved true hsafe hp hk
    | formatLoop =>
      simp only [safeFrom, Bool.and_eq_true] at hsafe
      cases hfl : formatLoop e.steps e.ops e.kind s.queue s.report s.log with
      | mk o log =>
        cases o with
        | none => rw [step_loop_err hfl]; simp
        | some rep =>
          rw [step_loop_ok hfl]
          exact ih { s with report := rep, log := log } psess krate resolved filtered hsafe.2 hp hk

end RF.Lemmas.Project
