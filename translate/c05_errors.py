#!/usr/bin/env python3
"""translator:c05_errors — the parse-error bookkeeping of src/parse/session.rs (the emitter
`SilentOnIgnoredFilesEmitter`: every assignment to `has_non_ignorable_parser_errors` and every store to the
shared `can_reset` flag, with the branch it sits in) and the decisions src/parse/parser.rs takes from it
(`parse_file_as_module`: the `Err(e)` arm of the closure and the arms of `match result`; `parse_crate`: the
guarded returns; `ParserBuilder::build` / `parse_crate_mod`: what each failing arm does)
-> RF/Gen/ParseErrs.lean.

C05's theorems `can_reset_implies_only_ignored`, `non_ignored_error_never_reset`, `fault_implies_no_write`
are about these generated tables, so a change to one of the assignments or arms is re-judged by `lake build`.
The translator understands exactly the statement shapes listed in STMT_SHAPES / PSTMT_SHAPES / GUARDS / PATS /
RETS below and refuses on anything else; it also counts every `.store(` and every assignment to the two
fields in the non-test part of session.rs so that no writer can exist outside the recognised places."""
import os, re, sys
sys.path.insert(0, os.path.dirname(os.path.abspath(__file__)))
from common import *

NAME = "c05_errors"


def squeeze(s):
    return re.sub(r"\s+", "", s)


def fn_body_in(src, header_rx, what):
    ms = list(re.finditer(header_rx, src))
    if len(ms) != 1:
        refuse(NAME, f"{what}: expected exactly one match of /{header_rx}/, found {len(ms)}")
    m = ms[0]
    i = m.start() + re.search(r"fn\s+\w+\s*\(", src[m.start():]).end() - 1
    d = 0
    j = i
    while True:
        if src[j] == "(":
            d += 1
        elif src[j] == ")":
            d -= 1
            if d == 0:
                break
        j += 1
    body, _ = block_after(src, j)
    return body


def split_stmts(body, what):
    """statements of a (whitespace-free) block: `…;` or `if…{…}` ; returns list of strings"""
    out = []
    i, n = 0, len(body)
    while i < n:
        if body.startswith("if", i) and "{" in body[i:]:  # whitespace-free text: a statement that starts with `if` is taken as one (a wrong guess fails a later shape)
            k = body.index("{", i)
            _, e = block_after(body, k)
            if body.startswith("else", e):
                refuse(NAME, f"{what}: `else` branch not understood near `{body[i:i + 60]}`")
            out.append(body[i:e])
            i = e
            if i < n and body[i] == ";":
                i += 1
        else:
            d = 0
            j = i
            while j < n:
                c = body[j]
                if c in "({[":
                    d += 1
                elif c in ")}]":
                    d -= 1
                elif c == ";" and d == 0:
                    break
                j += 1
            out.append(body[i:j])
            i = j + 1
    return [s for s in out if s]


# ---- session.rs: statements of the emitter
STMT_SHAPES = [
    (r"self\.has_non_ignorable_parser_errors=(true|false)$", lambda m: f".setHasNonIgn {m.group(1)}"),
    (r"self\.can_reset\.store\((true|false),Ordering::\w+\)$", lambda m: f".storeCanReset {m.group(1)}"),
    (r"self\.emitter\.emit_diagnostic\(diag,registry\)$", lambda m: ".forward"),
    (r"if!self\.has_non_ignorable_parser_errors\{self\.can_reset\.store\((true|false),Ordering::\w+\);\}$",
     lambda m: f".storeCanResetUnlessHasNonIgn {m.group(1)}"),
]


def emitter_stmts(body, what):
    res = []
    for st in split_stmts(body, what):
        for rx, f in STMT_SHAPES:
            m = re.match(rx, st)
            if m:
                res.append(f(m))
                break
        else:
            refuse(NAME, f"{what}: statement `{st[:120]}` is none of the shapes the bookkeeping model knows")
    return res


# ---- parser.rs
PSTMT_SHAPES = [
    (r"e\.emit\(\)$", ".emitErr"),
    (r"ifpsess\.can_reset_errors\(\)\{psess\.reset_errors\(\);\}$", ".resetIfCanReset"),
    (r"psess\.reset_errors\(\)$", ".resetErrors"),
]
GUARDS = {"!psess.has_errors()": ".noErrors", "psess.can_reset_errors()": ".canReset", "path.exists()": ".pathExists", None: ".always"}
PATS = {"Ok(Some(m))": ".okSome", "Ok(_)": ".okAny", "Err(..)": ".unwound", "Err(_)": ".unwound"}
RETS = {"Ok(m)": ".ok", "Ok(krate)": ".ok", "Err(ParserError::ParseError)": ".parseError",
        "Err(ParserError::ParsePanicError)": ".parsePanicError", "Err(ParserError::ParserCreationError)": ".parserCreationError"}


def parser_stmts(stmts, what):
    res = []
    for st in stmts:
        for rx, v in PSTMT_SHAPES:
            if re.match(rx, st):
                res.append(v)
                break
        else:
            refuse(NAME, f"{what}: statement `{st[:120]}` is none of the shapes the parse-decision model knows")
    return res


def split_arms(body, what):
    """arms of a whitespace-free match body: list of (pattern-with-guard, body-text)"""
    arms = []
    i, n = 0, len(body)
    while i < n:
        k = body.find("=>", i)
        if k < 0:
            if body[i:].strip(","):
                refuse(NAME, f"{what}: trailing text `{body[i:i + 60]}` after the last arm")
            break
        head = body[i:k]
        j = k + 2
        if body[j] == "{":
            blk, e = block_after(body, j)
            arms.append((head, "{" + blk + "}"))
            i = e
            if i < n and body[i] == ",":
                i += 1
        else:
            d = 0
            e = j
            while e < n:
                c = body[e]
                if c in "({[":
                    d += 1
                elif c in ")}]":
                    d -= 1
                elif c == "," and d == 0:
                    break
                e += 1
            arms.append((head, body[j:e]))
            i = e + 1
    return arms


def pat_guard(head, what):
    for p in sorted(PATS, key=len, reverse=True):
        if head.startswith(p):
            rest = head[len(p):]
            if rest == "":
                return PATS[p], GUARDS[None]
            if rest.startswith("if") and rest[2:] in GUARDS:
                return PATS[p], GUARDS[rest[2:]]
            refuse(NAME, f"{what}: guard `{rest}` of arm `{head}` not understood")
    refuse(NAME, f"{what}: pattern of arm `{head}` not understood")


def arm_body(text, what):
    """-> (statements, ret)"""
    if text.startswith("{"):
        inner = text[1:-1]
        sts = split_stmts(inner, what)
        if not sts:
            refuse(NAME, f"{what}: empty arm")
        last = sts[-1]
        if last not in RETS:
            refuse(NAME, f"{what}: arm ends in `{last[:80]}`, not one of {sorted(RETS)}")
        return parser_stmts(sts[:-1], what), RETS[last]
    if text not in RETS:
        refuse(NAME, f"{what}: arm value `{text[:80]}` is not one of {sorted(RETS)}")
    return [], RETS[text]


def lst(xs):
    return "[" + ", ".join(xs) + "]"


def main():
    a = args()
    # ------------------------------------------------------------------ session.rs
    sess_full = strip_rust_comments(read(a.repo, "src/parse/session.rs", NAME))
    sess = cut_tests(sess_full)
    hbody = squeeze(fn_body_in(sess, r"fn\s+handle_non_ignoreable_error\s*\(", "session.rs handle_non_ignoreable_error"))
    handle = emitter_stmts(hbody, "handle_non_ignoreable_error")
    m = re.search(r"impl\s+Emitter\s+for\s+SilentOnIgnoredFilesEmitter\s*\{", sess)
    if not m:
        refuse(NAME, "session.rs: `impl Emitter for SilentOnIgnoredFilesEmitter` not found")
    impl, _ = block_after(sess, m.start())
    ebody = squeeze(fn_body_in(impl, r"fn\s+emit_diagnostic\s*\(", "session.rs emit_diagnostic"))
    CALL = r"self\.handle_non_ignoreable_error\(diag,registry\)"
    shape = (r"^ifdiag\.level\(\)==DiagnosticLevel::Fatal\{return" + CALL + r";\}"
             r"ifletSome\(primary_span\)=&diag\.span\.primary_span\(\)\{"
             r"letfile_name=self\.source_map\.span_to_filename\(\*primary_span\);"
             r"ifletrustc_span::FileName::Real\(rustc_span::RealFileName::LocalPath\(refpath\)\)=file_name\{"
             r"ifself\.ignore_path_set\.is_match\(&FileName::Real\(path\.to_path_buf\(\)\)\)\{(?P<body>.*?)return;\}\};?\}"
             + CALL + r";?$")
    em = re.match(shape, ebody)
    if not em:
        refuse(NAME, "session.rs emit_diagnostic: the branch structure is no longer `if level == Fatal { return handle(..) }` / "
                     "`if let Some(primary_span) … if let Real(LocalPath(path)) … if ignore_path_set.is_match(..) { …; return; }` / `handle(..)`: " + ebody[:400])
    ignored_branch = emitter_stmts(em.group("body"), "emit_diagnostic, ignored-file branch")
    # no other writer of the two pieces of state in the non-test part of the file
    n_store = len(re.findall(r"\.store\(", sess))
    rec_store = sum(1 for s in handle + ignored_branch if "storeCanReset" in s)
    if n_store != rec_store:
        refuse(NAME, f"session.rs: {n_store} `.store(` calls outside the tests, {rec_store} of them inside the two recognised blocks")
    n_asg = len(re.findall(r"has_non_ignorable_parser_errors\s*=[^=]", sess))
    rec_asg = sum(1 for s in handle + ignored_branch if "setHasNonIgn" in s)
    if n_asg != rec_asg:
        refuse(NAME, f"session.rs: {n_asg} assignments to has_non_ignorable_parser_errors outside the tests, {rec_asg} recognised")
    # initial values
    lit = re.search(r"SilentOnIgnoredFilesEmitter\s*\{([^{}]*)\}\s*\)\s*\)", sess)
    if not lit:
        refuse(NAME, "session.rs default_dcx: the SilentOnIgnoredFilesEmitter literal was not found")
    mi = re.search(r"has_non_ignorable_parser_errors\s*:\s*(true|false)\s*,", lit.group(1))
    if not mi or not re.search(r"\bcan_reset\s*,", lit.group(1)):
        refuse(NAME, "session.rs default_dcx: initial has_non_ignorable_parser_errors / shared can_reset not found in the literal")
    init_has = mi.group(1)
    new_body = fn_body_in(sess, r"pub\(crate\)\s+fn\s+new\s*\(", "session.rs ParseSess::new")
    mc = re.search(r"let\s+can_reset_errors\s*=\s*Arc::new\(AtomicBool::new\((true|false)\)\)\s*;", new_body)
    if not mc or len(re.findall(r"Arc::clone\(&can_reset_errors\)", new_body)) != 1 or "Ok(ParseSess{raw_psess,ignore_path_set,can_reset_errors,})" not in squeeze(new_body):
        refuse(NAME, "session.rs ParseSess::new: the flag is no longer created once, cloned once into default_dcx and kept in the ParseSess")
    init_can = mc.group(1)
    sq = squeeze(sess)
    for need, why in [
        ("fncan_reset_errors(&self)->bool{self.can_reset_errors.load(Ordering::Acquire)}", "ParseSess::can_reset_errors no longer just loads the shared flag"),
        ("fnreset_errors(&self){self.raw_psess.dcx().reset_err_count();}", "ParseSess::reset_errors is no longer dcx().reset_err_count()"),
        ("fnemit_diagnostics(&self,diagnostics:Vec<Diag<'_>>){fordiagnosticindiagnostics{diagnostic.emit();}}", "ParseSess::emit_diagnostics no longer emits each diagnostic"),
    ]:
        if need not in sq:
            refuse(NAME, "session.rs: " + why)

    # has_errors: with or without flushing the stashed diagnostics first
    hb = squeeze(fn_body_in(sess, r"pub\(super\)\s+fn\s+has_errors\s*\(", "session.rs ParseSess::has_errors"))
    if hb == "self.raw_psess.dcx().has_errors().is_some()":
        flush = "false"
    elif hb == "self.raw_psess.dcx().emit_stashed_diagnostics();self.raw_psess.dcx().has_errors().is_some()":
        flush = "true"
    else:
        refuse(NAME, "session.rs ParseSess::has_errors is neither `dcx().has_errors().is_some()` nor `dcx().emit_stashed_diagnostics(); dcx().has_errors().is_some()`: " + hb[:200])
    n_he = len(re.findall(r"\.has_errors\(\)", cut_tests(strip_rust_comments(read(a.repo, "src/parse/parser.rs", NAME)))))
    if n_he != 2:
        refuse(NAME, f"parser.rs: {n_he} calls of has_errors(), expected the two guards (`Ok(Some(m)) if !psess.has_errors()` and `if !psess.has_errors()`)")

    # ------------------------------------------------------------------ parser.rs
    par = cut_tests(strip_rust_comments(read(a.repo, "src/parse/parser.rs", NAME)))
    fb = squeeze(fn_body_in(par, r"pub\(crate\)\s+fn\s+parse_file_as_module\s*\(", "parser.rs parse_file_as_module"))
    fshape = (r"^letresult=catch_unwind\(AssertUnwindSafe\(\|\|\{"
              r"letmutparser=unwrap_or_emit_fatal\(new_parser_from_file\(psess\.inner\(\),path,Some\(span\)\)\);"
              r"matchparser\.parse_mod\(exp!\(Eof\)\)\{Ok\(\(a,i,spans\)\)=>Some\(\(a,i,spans\.inner_span\)\),"
              r"Err\(e\)=>\{(?P<errarm>.*?)None\}\}\}\)\);matchresult\{(?P<arms>.*)\}$")
    fm = re.match(fshape, fb)
    if not fm:
        refuse(NAME, "parser.rs parse_file_as_module: no longer `let result = catch_unwind(|| { parser = unwrap_or_emit_fatal(new_parser_from_file(..)); "
                     "match parser.parse_mod(..) { Ok(..) => Some(..), Err(e) => { …; None } } }); match result { … }`: " + fb[:300])
    mod_err_arm = parser_stmts(split_stmts(fm.group("errarm"), "parse_file_as_module Err(e) arm"), "parse_file_as_module Err(e) arm")
    file_arms = []
    for head, body in split_arms(fm.group("arms"), "parse_file_as_module match result"):
        p, g = pat_guard(head, "parse_file_as_module match result")
        sts, ret = arm_body(body, "parse_file_as_module match result")
        file_arms.append(f"⟨{p}, {g}, {lst(sts)}, {ret}⟩")
    cb = squeeze(fn_body_in(par, r"pub\(crate\)\s+fn\s+parse_crate\s*\(", "parser.rs parse_crate"))
    pre = "letkrate=Parser::parse_crate_inner(input,psess)?;"
    if not cb.startswith(pre):
        refuse(NAME, "parser.rs parse_crate: does not start with `let krate = Parser::parse_crate_inner(input, psess)?;`")
    crate_arms = []
    sts = split_stmts(cb[len(pre):], "parse_crate")
    for st in sts[:-1]:
        mm = re.match(r"^if(.+?)\{(.*)\}$", st)
        if not mm or mm.group(1) not in GUARDS:
            refuse(NAME, f"parser.rs parse_crate: statement `{st[:100]}` is not `if <known guard> {{ …; return Ok(krate); }}`")
        inner = split_stmts(mm.group(2), "parse_crate")
        if not inner or not inner[-1].startswith("return") or inner[-1][6:] not in RETS:
            refuse(NAME, f"parser.rs parse_crate: guarded block `{mm.group(2)[:100]}` does not end in a known return")
        crate_arms.append(f"⟨.okAny, {GUARDS[mm.group(1)]}, {lst(parser_stmts(inner[:-1], 'parse_crate'))}, {RETS[inner[-1][6:]]}⟩")
    if not sts or sts[-1] not in RETS:
        refuse(NAME, "parser.rs parse_crate: the final expression is not a known result")
    crate_arms.append(f"⟨.okAny, .always, [], {RETS[sts[-1]]}⟩")
    # parse_crate_inner, build, parse_crate_mod: every arm other than Ok(Ok(_)) returns Err
    ib = squeeze(fn_body_in(par, r"fn\s+parse_crate_inner\s*\(", "parser.rs parse_crate_inner"))
    if ib != "ParserBuilder::default().input(input).psess(psess).build()?.parse_crate_mod()":
        refuse(NAME, "parser.rs parse_crate_inner: no longer `ParserBuilder::default().input(input).psess(psess).build()?.parse_crate_mod()`")
    bb = squeeze(fn_body_in(par, r"pub\(crate\)\s+fn\s+build\s*\(", "parser.rs ParserBuilder::build"))
    bm = re.search(r"letparser=matchcatch_unwind\(AssertUnwindSafe\(\|\|Self::parser\(psess\.inner\(\),input\)\)\)\{"
                   r"Ok\(Ok\(p\)\)=>p,Ok\(Err\(diagnostics\)\)=>\{psess\.emit_diagnostics\(diagnostics\);return(Err\(ParserError::\w+\));\}"
                   r"Err\(_\)=>return(Err\(ParserError::\w+\)),\};Ok\(Parser\{parser\}\)$", bb)
    if not bm or bm.group(1) not in RETS or bm.group(2) not in RETS:
        refuse(NAME, "parser.rs ParserBuilder::build: the catch_unwind match no longer has the arms Ok(Ok(p)) / Ok(Err(diagnostics)) => emit + return Err / Err(_) => return Err")
    mb = squeeze(fn_body_in(par, r"fn\s+parse_crate_mod\s*\(\s*&mut\s+self", "parser.rs Parser::parse_crate_mod"))
    mm = re.match(r"^letmutparser=AssertUnwindSafe\(&mutself\.parser\);leterr=(Err\(ParserError::\w+\));"
                  r"matchcatch_unwind\(move\|\|parser\.parse_crate_mod\(\)\)\{Ok\(Ok\(k\)\)=>Ok\(k\),Ok\(Err\(db\)\)=>\{db\.emit\(\);err\}Err\(_\)=>err,\}$", mb)
    if not mm or mm.group(1) not in RETS:
        refuse(NAME, "parser.rs Parser::parse_crate_mod: the catch_unwind match no longer has the arms Ok(Ok(k)) / Ok(Err(db)) => emit + err / Err(_) => err")
    build_arms = [f"⟨.build, .okErr, true, {RETS[bm.group(1)]}⟩", f"⟨.build, .unwound, false, {RETS[bm.group(2)]}⟩"]
    mod_arms = [f"⟨.crateMod, .okErr, true, {RETS[mm.group(1)]}⟩", f"⟨.crateMod, .unwound, false, {RETS[mm.group(1)]}⟩"]

    L = f"""/- GENERATED by translate/c05_errors.py from src/parse/session.rs and src/parse/parser.rs.  Do not edit. -/
namespace RF.Gen.ParseErrs

/-- the statements found in the bookkeeping of `SilentOnIgnoredFilesEmitter` -/
inductive Stmt where
  | setHasNonIgn (v : Bool)                  -- `self.has_non_ignorable_parser_errors = v;`
  | storeCanReset (v : Bool)                 -- `self.can_reset.store(v, …);`
  | storeCanResetUnlessHasNonIgn (v : Bool)  -- `if !self.has_non_ignorable_parser_errors {{ self.can_reset.store(v, …); }}`
  | forward                                  -- `self.emitter.emit_diagnostic(diag, registry);`
  deriving DecidableEq, Repr

/-- body of `handle_non_ignoreable_error`, in source order -/
def handleNonIgnorable : List Stmt := {lst(handle)}

/-- `emit_diagnostic`: (1) `level == Fatal` ⇒ `handle_non_ignoreable_error`; (2) primary span in a local file
that matches the ignore set ⇒ these statements, then `return`; (3) anything else ⇒ `handle_non_ignoreable_error` -/
def ignoredFileBranch : List Stmt := {lst(ignored_branch)}

/-- the struct literal in `default_dcx` and `AtomicBool::new(..)` in `ParseSess::new` -/
def initHasNonIgn : Bool := {init_has}
def initCanReset : Bool := {init_can}

/-- `ParseSess::has_errors`: does it call `emit_stashed_diagnostics()` before it asks `DiagCtxt::has_errors()`?
(the rustc parser *stashes* some errors — a `static`/`const` item without a type, an expression in pattern
position, … — which count as errors but reach the emitter only when they are emitted) -/
def hasErrorsEmitsStashed : Bool := {flush}

/-- statements found in the arms of src/parse/parser.rs -/
inductive PStmt where
  | emitErr          -- `e.emit();`
  | resetIfCanReset  -- `if psess.can_reset_errors() {{ psess.reset_errors(); }}`
  | resetErrors      -- `psess.reset_errors();`
  deriving DecidableEq, Repr

inductive Guard where | always | noErrors | canReset | pathExists
  deriving DecidableEq, Repr
/-- `okSome`: `Ok(Some(m))`; `okAny`: `Ok(_)`; `unwound`: `Err(_)` of `catch_unwind`; `okErr`: `Ok(Err(_))` -/
inductive Pat where | okSome | okAny | okErr | unwound
  deriving DecidableEq, Repr
inductive Ret where | ok | parseError | parsePanicError | parserCreationError
  deriving DecidableEq, Repr

structure Arm where
  pat : Pat
  guard : Guard
  body : List PStmt
  ret : Ret
  deriving DecidableEq, Repr

/-- `parse_file_as_module`: the `Err(e)` arm of `parser.parse_mod(..)` inside the closure (its value is `None`) -/
def modErrArm : List PStmt := {lst(mod_err_arm)}

/-- `parse_file_as_module`: the arms of `match result`, in source order -/
def fileArms : List Arm := {lst(file_arms)}

/-- `parse_crate` after `parse_crate_inner(..)?`: the guarded returns and the final value, in source order -/
def crateArms : List Arm := {lst(crate_arms)}

inductive Stage where | build | crateMod
  deriving DecidableEq, Repr
/-- a failing arm of one of the two `catch_unwind` matches under `parse_crate_inner`: does it emit the pending
diagnostic(s), and which `ParserError` leaves `parse_crate` through `?` -/
structure InnerArm where
  stage : Stage
  pat : Pat
  emits : Bool
  ret : Ret
  deriving DecidableEq, Repr

def innerArms : List InnerArm := {lst(build_arms + mod_arms)}

end RF.Gen.ParseErrs
"""
    changed = write_if_changed(os.path.join(a.out, "ParseErrs.lean"), L)
    print(f"c05_errors: ok ({'rewritten' if changed else 'unchanged'}); handleNonIgnorable = {handle}; ignoredFileBranch = {ignored_branch}; "
          f"fileArms = {len(file_arms)}; crateArms = {len(crate_arms)}; hasErrorsEmitsStashed = {flush}")


if __name__ == "__main__":
    main()
