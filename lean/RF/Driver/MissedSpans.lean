import RF.Model.Proto
import RF.Model.MissedSpans
import RF.Model.ListsRc
/-!
Line-protocol operations for the missed-span writer (`src/missed_spans.rs`).

`<text>` is a string in the `RF.Proto` encoding (hex of UTF-8, `-` for empty); numbers are decimal,
booleans `0`/`1`.  `<cfg>` is the seven values
`<hard_tabs> <tab_spaces> <max_width> <comment_width> <lower> <upper> <ed2024>`.
`rewrite_comment` is `RF.Lists.identifyCommentLight` (normalize_comments = wrap_comments = false),
`unicode_str_width` is `msWidth` below.

model
  ms.write <big> <base> <buffer> <block_indent> <alignment> <last_pos> <end> <entry> <cfg>
        -> <buffer afterwards>:<line_number>:<last_pos> | panic
        one call of `format_missing(end)` (entry 0), `format_missing_with_indent(end)` (1) or
        `format_missing_no_indent(end)` (2) on a visitor over the text `big` that starts at `base` in the
        source map, whose buffer was filled with `push_str(buffer)`; positions are byte offsets into `big`
  ms.log <same arguments>   -> the pieces pushed, `<tag><text>` joined by `,` (`_` for none) | panic
        tags: v vertical spaces, b other fixed blanks, c comment, x code, l last snippet
  ms.close <big> <buffer> <block_indent> <alignment> <lo> <hi> <unindent_comment> <cfg>
        -> <buffer afterwards>:<line_number>:<block_indent>:<alignment> | panic
        `close_block(mk_sp(lo, hi), unindent_comment)` on the same kind of visitor
  ms.width <text>           -> n                 `unicode_str_width` (see `msWidth`)
  ms.slice <text> <a> <b>   -> text | panic      `&text[a..b]`
  ms.lfcrlf <text>          -> <lf>:<crlf>       `count_lf_crlf`
oracles (judge what the real code wrote: `delta` = the buffer afterwards minus the buffer before)
  ms.oracle.blankgap <snippet>              -> 1 | 0    white space and comments only
  ms.oracle.content <snippet> <delta>       -> ok | bad   same non-blank characters
  ms.oracle.comments <snippet> <delta>      -> ok | bad   every comment slice is written, in order
  ms.oracle.only <snippet> <delta>          -> ok | bad   nothing but blanks and the comments is written
  ms.oracle.clamp <before> <delta> <upper>  -> ok | bad   runs of line breaks outside comments
  ms.oracle.close <snippet> <delta>         -> ok | bad:<expected>   close_block: the non-blank characters
        written are the comments, the code that is more than `;`, and the closing brace
-/
namespace RF.Driver.MissedSpans
open RF.Proto RF.Missed RF.Shape

def decBool : String → Option Bool
  | "0" => some false | "1" => some true | _ => none

/-- `rewrite_comment` under the default comment options, for either style-edition class. -/
def rcLight (config : Config) (ed2024 : Bool) : Rc := fun orig _ shape =>
  RF.Lists.identifyCommentLight (RF.Lists.indentString shape.indent config)
    (fun g => RF.Lists.trimLeftPreserveLayout g shape.indent config ed2024) (orig.length + 1) orig

/-- `unicode_str_width` for the texts of the correspondence check: `RF.Lists.strWidth` (every character
one column, `\n` and a `\r` directly in front of it none) plus one more column for every wide character
(U+3000 and the CJK blocks).  Combining marks and other zero-width characters are outside. -/
def isWide (c : Char) : Bool :=
  let n := c.toNat
  (0x1100 ≤ n && n ≤ 0x115F) || (0x2E80 ≤ n && n ≤ 0xA4CF && n != 0x303F) || (0xAC00 ≤ n && n ≤ 0xD7A3) ||
  (0xF900 ≤ n && n ≤ 0xFAFF) || (0xFE30 ≤ n && n ≤ 0xFE6F) || (0xFF00 ≤ n && n ≤ 0xFF60) ||
  (0xFFE0 ≤ n && n ≤ 0xFFE6)

def msWidth (s : List Char) : Nat := RF.Lists.strWidth s + (s.filter isWide).length

structure Call where
  env : Env
  vis : Vis
  end_ : Nat
  entry : Nat

def decCall : List String → Option Call
  | [big, base, buffer, b, a, lastPos, end_, entry, ht, ts, mw, cw, lo, up, ed] => do
    let big ← decChars big
    let base ← base.toNat?
    let buffer ← decChars buffer
    let b ← b.toNat?
    let a ← a.toNat?
    let lastPos ← lastPos.toNat?
    let end_ ← end_.toNat?
    let entry ← entry.toNat?
    let ht ← decBool ht
    let ts ← ts.toNat?
    let mw ← mw.toNat?
    let cw ← cw.toNat?
    let lo ← lo.toNat?
    let up ← up.toNat?
    let ed ← decBool ed
    let config : Config := ⟨ht, ts, mw, cw⟩
    let env : Env :=
      { config := config, lower := lo, upper := up, ed2024 := ed, base := base, big := big,
        rc := rcLight config ed, width := msWidth }
    let v0 : Vis := { buffer := [], lineNumber := 0, lastPos := lastPos, blockIndent := ⟨b, a⟩, log := [] }
    let v := { v0.push .last buffer with log := [] }
    pure { env := env, vis := v, end_ := end_, entry := entry }
  | _ => none

def Call.run (c : Call) : Option Vis :=
  match c.entry with
  | 0 => formatMissing c.env c.end_ c.vis
  | 1 => formatMissingIndent c.env true c.end_ c.vis
  | _ => formatMissingIndent c.env false c.end_ c.vis

def tagLetter : Tag → String
  | .vspace => "v" | .blank => "b" | .comment => "c" | .code => "x" | .last => "l"

def okBad (b : Bool) : String := if b then "ok" else "bad"

def handle (op : String) (args : List String) : Option String :=
  match op, args with
  | "ms.write", args => some <| (do
      let c ← decCall args
      pure (match c.run with
        | none => "panic"
        | some v => s!"{encChars v.buffer}:{v.lineNumber}:{v.lastPos}")).getD "?"
  | "ms.log", args => some <| (do
      let c ← decCall args
      pure (match c.run with
        | none => "panic"
        | some v =>
          if v.log.isEmpty then "_"
          else String.intercalate "," (v.log.map fun (p : Piece) => tagLetter p.tag ++ encChars p.text))).getD "?"
  | "ms.close", [big, buffer, b, a, lo, hi, un, ht, ts, mw, cw, lower, up, ed] => some <| (do
      let c ← decCall [big, "0", buffer, b, a, "0", "0", "0", ht, ts, mw, cw, lower, up, ed]
      let lo ← lo.toNat?
      let hi ← hi.toNat?
      let un ← decBool un
      pure (match closeBlock c.env lo hi un c.vis with
        | none => "panic"
        | some v =>
          s!"{encChars v.buffer}:{v.lineNumber}:{v.blockIndent.block_indent}:{v.blockIndent.alignment}")).getD "?"
  | "ms.oracle.close", [s, d] => some <| (do
      let s ← decChars s
      let d ← decChars d
      pure (if closeContentOk s d then "ok" else "bad:" ++ encChars (closeContent s))).getD "?"
  | "ms.width", [t] => some <| (do
      let t ← decChars t
      pure (toString (msWidth t))).getD "?"
  | "ms.slice", [t, a, b] => some <| (do
      let t ← decChars t
      let a ← a.toNat?
      let b ← b.toNat?
      pure (match sliceBytes? t a b with
        | some r => encChars r
        | none => "panic")).getD "?"
  | "ms.lfcrlf", [t] => some <| (do
      let t ← decChars t
      let r := countLfCrlf false t
      pure s!"{r.1}:{r.2}").getD "?"
  | "ms.oracle.blankgap", [s] => some <| (do
      let s ← decChars s
      pure (if isBlankGap s then "1" else "0")).getD "?"
  | "ms.oracle.content", [s, d] => some <| (do
      let s ← decChars s
      let d ← decChars d
      pure (okBad (contentOk s d))).getD "?"
  | "ms.oracle.comments", [s, d] => some <| (do
      let s ← decChars s
      let d ← decChars d
      pure (okBad (commentsEmitted s d))).getD "?"
  | "ms.oracle.only", [s, d] => some <| (do
      let s ← decChars s
      let d ← decChars d
      pure (okBad (onlyBlanksAndComments s d))).getD "?"
  | "ms.oracle.clamp", [b, d, up] => some <| (do
      let b ← decChars b
      let d ← decChars d
      let up ← up.toNat?
      pure (okBad (clampOk b d up))).getD "?"
  | _, _ => none

end RF.Driver.MissedSpans
