import RF.Lemmas.Shape

/-!
# C16 (arithmetic part)  The `Shape` / `Indent` API of shape.rs

`RF.Model.Shape` gives every operation of shape.rs a result type that says how it can end:
a plain value (cannot fail), `Option` / `Except ExceedsMaxWidthError` (the recoverable "does not fit"
of the `*_opt` / `Result` API), or `Except Panic` (the dev build aborts).  Only these are typed
`Except Panic`:

    Indent::from_width, Indent::block_unindent, Indent::to_string, Indent::to_string_with_newline,
    Indent::to_string_inner, Indent - Indent, Indent - usize, Shape::to_string_with_newline

`checked_api_total` shows that all of them except the two subtractions return normally for every input
once `tab_spaces ≥ 1`; `panicking_api_exact` gives, for each one that can panic, the exact set of inputs
on which it does.  Everything else in shape.rs (`new`, `empty`, `block_only`, `block_indent`, `width`,
`Indent + Indent`, `Indent + usize`, `legacy`, `indented`, `with_max_width`, `visual_indent`,
`block_indent`, `block_left`, `add_offset`, `block`, `saturating_sub_width`, `sub_width(_opt)`,
`shrink_left(_opt)`, `offset_left(_opt)`, `used_width`, `rhs_overhead`, `comment`, `infinite_width`,
`exceeds_max_width_error`) uses only `+`, `*`, `min`, `saturating_sub`, `checked_sub`, so it is a total
function in the model by construction; `checked_api_exact` states what the fallible ones return.
`usize` overflow of `+`/`*` is out of scope (values below 2^63).
-/
namespace RF.Props.C16shape
open RF.Shape

/-- Every `Except Panic`-typed operation other than the two `Sub` impls returns normally for all
inputs when `tab_spaces ≥ 1` (and `to_string_inner` never slices `INDENT_BUFFER` out of range for the
two offsets it is called with). -/
theorem checked_api_total (c : Config) (hts : 1 ≤ c.tab_spaces) (i : Indent) (s : Shape) (w : Nat) :
    (∃ r, Indent.from_width c w = .ok r) ∧
    (∃ r, i.block_unindent c = .ok r) ∧
    (∃ r, i.to_string c = .ok r) ∧
    (∃ r, i.to_string_with_newline c = .ok r) ∧
    (∃ r, i.to_string_inner c 0 = .ok r) ∧
    (∃ r, i.to_string_inner c 1 = .ok r) ∧
    (∃ r, s.to_string_with_newline c = .ok r) :=
  ⟨⟨_, RF.Lemmas.Shape.from_width_ok c w (fun _ => hts)⟩,
   ⟨_, RF.Lemmas.Shape.block_unindent_ok i c⟩,
   ⟨_, RF.Lemmas.Shape.to_string_eq i c (fun _ => hts)⟩,
   ⟨_, RF.Lemmas.Shape.to_string_with_newline_eq i c (fun _ => hts)⟩,
   ⟨_, RF.Lemmas.Shape.to_string_inner_eq i c 0 (Or.inl rfl) (fun _ => hts)⟩,
   ⟨_, RF.Lemmas.Shape.to_string_inner_eq i c 1 (Or.inr rfl) (fun _ => hts)⟩,
   ⟨_, RF.Lemmas.Shape.shape_to_string_with_newline_eq s c (fun _ => hts)⟩⟩

example : (1 : Nat) ≤ (Config.mk true 4 100 80).tab_spaces := by decide

/-- `block_unindent` is guarded and cannot panic whatever the configuration. -/
theorem block_unindent_total (i : Indent) (c : Config) : ∃ r, i.block_unindent c = .ok r :=
  ⟨_, RF.Lemmas.Shape.block_unindent_ok i c⟩

/-- The complete list of operations of shape.rs that can panic, each with its exact precondition:
  * `Indent - Indent`: a field of the left operand is smaller than that of the right one;
  * `Indent - usize`: the alignment is smaller than the subtrahend;
  * `Indent::from_width`: `hard_tabs` with `tab_spaces = 0` (division by zero);
  * `Indent::to_string`, `Indent::to_string_with_newline`, `Shape::to_string_with_newline`: the same;
  * the private `to_string_inner` at an arbitrary `offset`: the same, or the static-buffer slice
    `INDENT_BUFFER[offset..=n]` with `offset > n + 1` (impossible for the offsets 0 and 1 it is called
    with). -/
theorem panicking_api_exact (a b : Indent) (s : Shape) (n off w : Nat) (c : Config) :
    (a.sub b = .error .subOverflow ↔
        (a.block_indent < b.block_indent ∨ a.alignment < b.alignment)) ∧
    (a.sub b = .ok ⟨a.block_indent - b.block_indent, a.alignment - b.alignment⟩ ↔
        (b.block_indent ≤ a.block_indent ∧ b.alignment ≤ a.alignment)) ∧
    (a.sub_usize n = .error .subOverflow ↔ a.alignment < n) ∧
    (a.sub_usize n = .ok ⟨a.block_indent, a.alignment - n⟩ ↔ n ≤ a.alignment) ∧
    (Indent.from_width c w = .error .divByZero ↔ (c.hard_tabs = true ∧ c.tab_spaces = 0)) ∧
    ((∃ e, a.to_string c = .error e) ↔ (c.hard_tabs = true ∧ c.tab_spaces = 0)) ∧
    ((∃ e, a.to_string_with_newline c = .error e) ↔ (c.hard_tabs = true ∧ c.tab_spaces = 0)) ∧
    ((∃ e, s.to_string_with_newline c = .error e) ↔ (c.hard_tabs = true ∧ c.tab_spaces = 0)) ∧
    ((∃ e, a.to_string_inner c off = .error e) ↔
      (c.hard_tabs = true ∧ c.tab_spaces = 0) ∨
      ((c.hard_tabs = true → c.tab_spaces ≠ 0) ∧
        (if c.hard_tabs then a.block_indent / c.tab_spaces = 0 ∧ a.alignment + off ≤ 80 ∧
            a.alignment + 1 < off
         else a.width + off ≤ 80 ∧ a.width + 1 < off))) := by
  refine ⟨RF.Lemmas.Shape.indent_sub_error_iff a b, RF.Lemmas.Shape.indent_sub_ok_iff a b,
    RF.Lemmas.Shape.indent_sub_usize_error_iff a n, RF.Lemmas.Shape.indent_sub_usize_ok_iff a n,
    RF.Lemmas.Shape.from_width_error_iff c w, ?_, ?_, ?_,
    RF.Lemmas.Shape.to_string_inner_error_iff a c off⟩
  · have := RF.Lemmas.Shape.to_string_inner_error_iff a c 1
    simp only [Indent.to_string, this]
    cases c.hard_tabs <;> simp <;> omega
  · have := RF.Lemmas.Shape.to_string_inner_error_iff a c 0
    simp only [Indent.to_string_with_newline, this]
    cases c.hard_tabs <;> simp
  · have := RF.Lemmas.Shape.to_string_inner_error_iff { s.indent with alignment := s.offset } c 0
    simp only [Shape.to_string_with_newline, this]
    cases c.hard_tabs <;> simp

/-- The two reachable panics, concretely. -/
example : (Indent.mk 4 0).sub (Indent.mk 8 0) = .error .subOverflow := by decide
example : (Indent.mk 4 2).sub_usize 3 = .error .subOverflow := by decide
example : Indent.from_width ⟨true, 0, 100, 80⟩ 7 = .error .divByZero := by decide
example : (Indent.mk 0 0).to_string_inner ⟨false, 4, 100, 80⟩ 5 = .error .sliceIndex := by decide

/-- What the fallible (non-panicking) width operations return: they fail exactly when `delta` exceeds
the width, the error carries the current width, and on success the fields are as computed. -/
theorem checked_api_exact (s : Shape) (d : Nat) :
    (s.sub_width_opt d = if s.width < d then none else some { s with width := s.width - d }) ∧
    (s.shrink_left_opt d = if s.width < d then none else
        some ⟨s.width - d, ⟨s.indent.block_indent, s.indent.alignment + d⟩, s.offset + d⟩) ∧
    (s.offset_left_opt d = if s.width < d then none else
        some ⟨s.width - d, s.indent, s.offset + d⟩) ∧
    (s.sub_width d = if s.width < d then .error ⟨s.width⟩ else .ok { s with width := s.width - d }) ∧
    (s.shrink_left d = if s.width < d then .error ⟨s.width⟩ else
        .ok ⟨s.width - d, ⟨s.indent.block_indent, s.indent.alignment + d⟩, s.offset + d⟩) ∧
    (s.offset_left d = if s.width < d then .error ⟨s.width⟩ else
        .ok ⟨s.width - d, s.indent, s.offset + d⟩) ∧
    (s.block_left d = if s.width < d then .error ⟨s.width⟩ else
        .ok { s.block_indent d with width := s.width - d }) := by
  have hbi : (s.block_indent d).width = s.width := by
    unfold Shape.block_indent; split <;> rfl
  by_cases h : s.width < d
  · simp [Shape.sub_width_opt, Shape.shrink_left_opt, Shape.offset_left_opt, Shape.sub_width,
      Shape.shrink_left, Shape.offset_left, Shape.block_left, Shape.add_offset, checkedSub,
      Shape.exceeds_max_width_error, hbi, h]
  · simp [Shape.sub_width_opt, Shape.shrink_left_opt, Shape.offset_left_opt, Shape.sub_width,
      Shape.shrink_left, Shape.offset_left, Shape.block_left, Shape.add_offset, checkedSub,
      Indent.add_usize, Indent.new, hbi, h]

/-- Saturating operations never exceed their input and are exact when there is room. -/
theorem saturating_api (s : Shape) (i : Indent) (c : Config) (d : Nat) :
    (s.saturating_sub_width d).width = s.width - d ∧
    (Shape.indented i c).width = c.max_width - i.width ∧
    (s.with_max_width c).width = c.max_width - s.indent.width ∧
    s.rhs_overhead c = c.max_width - (s.indent.block_indent + s.offset + s.width) ∧
    (s.comment c).width = min s.width (c.comment_width - s.indent.width) := by
  refine ⟨rfl, rfl, rfl, rfl, rfl⟩

end RF.Props.C16shape
