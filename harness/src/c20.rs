//! C20: the --backup write protocol never loses the original.
//!
//! The op lists are GENERATED (`RF.Gen.Emitters.fsOps`, asked from the model driver with `bk.ops`);
//! this harness ties them to the running code and evaluates the Lean oracles on real directories:
//!  1. translator validation: `strace` of the real binary; observed syscall order = generated order,
//!     and the observed list passes the Lean oracle `bk.check`;
//!  2. crash points (binary built with `verif-hooks`): the process aborts at every point before /
//!     between / after the operations, for every position of the file in a 1-3 file run; the
//!     directory must be what the model computes for that prefix of the generated list (`bk.run`),
//!     must be one of the model's reachable states (`bk.observed`) and must satisfy the property's
//!     two invariants (`bk.safe`);
//!  3. fault injection: the same with one operation returning an error (hook), and hook-free:
//!     `x.tmp` is a directory, `x.bk` is a non-empty directory, read-only directory, and a file-size
//!     limit that stops the write half-way (kill by SIGXFSZ, and EFBIG when the signal is ignored):
//!     a real partial write;
//!  4. enumerated probes of the three `with_extension` collisions (known findings).
use std::collections::BTreeMap;
use std::path::{Path, PathBuf};
use std::process::Command;

use regex::Regex;
use serde_json::json;

use crate::cli::{self, enc_content, Ran, Src};
use crate::util::*;

#[derive(Clone, Copy, PartialEq, Eq, Debug)]
pub enum Mode {
    Backup,
    Files,
}

impl Mode {
    fn point(self) -> &'static str {
        match self {
            Mode::Backup => "backup",
            Mode::Files => "files",
        }
    }
    fn kind(self) -> &'static str {
        match self {
            Mode::Backup => "filesWithBackup",
            Mode::Files => "files",
        }
    }
    fn args(self) -> Vec<String> {
        match self {
            Mode::Backup => vec!["--backup".into()],
            Mode::Files => vec!["--emit".into(), "files".into()],
        }
    }
}

#[derive(Clone, Debug, PartialEq, Eq)]
enum Inject {
    None,
    /// abort at crash point j (= before op j; j = number of ops: after the last) of the k-th rewritten file
    Crash(usize, usize),
    /// op j of the k-th rewritten file returns an error instead of running
    Fail(usize, usize),
}

#[derive(Clone, Debug)]
struct FileSpec {
    stem: String,
    src: usize,
    changed: bool,
    stale_tmp: Option<Vec<u8>>,
    stale_bk: Option<Vec<u8>>,
}

#[derive(Clone, Debug)]
struct RunSpec {
    id: usize,
    mode: Mode,
    hooked: bool,
    files: Vec<FileSpec>,
    inject: Inject,
    family: &'static str,
}

#[derive(Clone, Debug)]
struct FileObs {
    file: Option<Vec<u8>>,
    tmp: Option<Vec<u8>>,
    bk: Option<Vec<u8>>,
    before: (i64, i64, u64),
    after: Option<(i64, i64, u64)>,
}

struct RunObs {
    ran: Ran,
    files: Vec<FileObs>,
    extra: Vec<String>,
}

fn stat(p: &Path) -> Option<(i64, i64, u64)> {
    use std::os::unix::fs::MetadataExt;
    std::fs::symlink_metadata(p).ok().map(|m| (m.mtime(), m.mtime_nsec(), m.ino()))
}

/// make the file look old so that any write to it shows in the mtime
fn age(p: &Path) {
    if let Ok(f) = std::fs::File::options().write(true).open(p) {
        let _ = f.set_modified(std::time::SystemTime::now() - std::time::Duration::from_secs(100_000));
    }
}

fn disk_text<'a>(fs: &FileSpec, pool: &'a [Src]) -> (&'a str, &'a str) {
    let s = &pool[fs.src];
    if fs.changed { (&s.orig, &s.fmt) } else { (&s.fmt, &s.fmt) }
}

fn exec(spec: &RunSpec, pool: &[Src], plain: &Path, hooked: &Path, scratch: &Path) -> RunObs {
    let d = cli::fresh_dir(scratch, &format!("run{}", spec.id));
    let mut before = vec![];
    for fs in &spec.files {
        let (disk, _) = disk_text(fs, pool);
        let p = d.join(format!("{}.rs", fs.stem));
        std::fs::write(&p, disk).expect("write source");
        age(&p);
        if let Some(b) = &fs.stale_tmp {
            std::fs::write(d.join(format!("{}.tmp", fs.stem)), b).unwrap();
        }
        if let Some(b) = &fs.stale_bk {
            std::fs::write(d.join(format!("{}.bk", fs.stem)), b).unwrap();
        }
        before.push(stat(&p).unwrap());
    }
    let mut args = spec.mode.args();
    for fs in &spec.files {
        args.push(format!("{}.rs", fs.stem));
    }
    let envs: Vec<(String, String)> = match &spec.inject {
        Inject::None => vec![],
        Inject::Crash(j, k) => vec![("RUSTFMT_VERIF_CRASH_AT".into(), format!("{}:{}@{}", spec.mode.point(), j, k))],
        Inject::Fail(j, k) => vec![("RUSTFMT_VERIF_FAIL_AT".into(), format!("{}:{}@{}", spec.mode.point(), j, k))],
    };
    let ran = cli::rustfmt_env(if spec.hooked { hooked } else { plain }, &d, &args, &envs);
    let mut files = vec![];
    let mut known: Vec<String> = vec!["rustfmt.toml".into()];
    for (fs, b) in spec.files.iter().zip(before) {
        let p = d.join(format!("{}.rs", fs.stem));
        files.push(FileObs {
            file: cli::content(&p),
            tmp: cli::content(&d.join(format!("{}.tmp", fs.stem))),
            bk: cli::content(&d.join(format!("{}.bk", fs.stem))),
            before: b,
            after: stat(&p),
        });
        for e in ["rs", "tmp", "bk"] {
            known.push(format!("{}.{}", fs.stem, e));
        }
    }
    let extra: Vec<String> = cli::snapshot(&d).keys().filter(|k| !known.contains(k)).cloned().collect();
    let _ = std::fs::remove_dir_all(&d);
    RunObs { ran, files, extra }
}

fn enc_ops(ops: &[String]) -> String {
    if ops.is_empty() { "_".into() } else { ops.join(",") }
}

fn dec_ops(s: &str) -> Vec<String> {
    if s == "_" { vec![] } else { s.split(',').map(|x| x.to_string()).collect() }
}

struct Gen {
    backup: Vec<String>,
    files: Vec<String>,
}

impl Gen {
    fn of(&self, m: Mode) -> &Vec<String> {
        match m {
            Mode::Backup => &self.backup,
            Mode::Files => &self.files,
        }
    }
}

fn describe(spec: &RunSpec) -> String {
    let pat: String = spec.files.iter().map(|f| if f.changed { 'C' } else { 'U' }).collect();
    format!("{} {:?} {} files={} inject={:?}", spec.family, spec.mode, if spec.hooked { "hooked" } else { "plain" }, pat, spec.inject)
}

fn evaluate(o: &mut Outcome, spec: &RunSpec, obs: &RunObs, pool: &[Src], gen: &Gen) {
    let full = gen.of(spec.mode);
    let nchanged = spec.files.iter().filter(|f| f.changed).count();
    let desc = describe(spec);
    if obs.ran.timed_out {
        // over the wall-clock limit (machine load): inconclusive, never a violation
        o.count("status:timeout(run skipped)");
        return;
    }
    // exit status
    let want = match &spec.inject {
        Inject::None => "exit0".to_string(),
        Inject::Crash(_, k) if *k <= nchanged => "signal6".to_string(),
        Inject::Fail(_, k) if *k <= nchanged => "exit1".to_string(),
        _ => "exit0".to_string(),
    };
    let got = obs.ran.status_word();
    o.count(&format!("status:{}", got));
    if got != want {
        o.direct_failures.push(json!({"sig": "c20:exit-status", "what": format!("process ended with {} where {} was expected ({})", got, want, desc), "stderr": obs.ran.stderr.chars().take(400).collect::<String>()}));
    }
    if let Inject::Fail(..) = spec.inject {
        if !obs.ran.stderr.contains("injected failure") {
            o.direct_failures.push(json!({"sig": "c20:fault-not-reported", "what": format!("an I/O error was injected but stderr does not mention it ({})", desc), "stderr": obs.ran.stderr.chars().take(400).collect::<String>()}));
        }
    }
    if !obs.extra.is_empty() {
        o.direct_failures.push(json!({"sig": "c20:unexpected-entry", "what": format!("directory entries other than the files and their .tmp/.bk siblings appeared: {:?} ({})", obs.extra, desc)}));
    }
    let mut c = 0;
    for (fs, fo) in spec.files.iter().zip(&obs.files) {
        let (disk, fmt) = disk_text(fs, pool);
        let ops_i: Vec<String> = if !fs.changed {
            vec![]
        } else {
            c += 1;
            match &spec.inject {
                Inject::None => full.clone(),
                Inject::Crash(j, k) => {
                    if c < *k { full.clone() } else if c == *k { full[..(*j).min(full.len())].to_vec() } else { vec![] }
                }
                Inject::Fail(j, k) => {
                    if c == *k { full[..(*j).min(full.len())].to_vec() } else { full.clone() }
                }
            }
        };
        let hit = fs.changed && match &spec.inject { Inject::None => false, Inject::Crash(_, k) | Inject::Fail(_, k) => c == *k };
        let d = format!("{} file={} ops_done={}", desc, fs.stem, enc_ops(&ops_i));
        let (eo, ef) = (enc_str(disk), enc_str(fmt));
        let observed = format!("{}:{}:{}", enc_content(&fo.file), enc_content(&fo.tmp), enc_content(&fo.bk));
        // model: the prefix of the generated list that ran, from (file = orig, stale siblings)
        o.push("corr", "bk.run", format!("bk.run {} {} {} {} {}", enc_ops(&ops_i), eo, ef, enc_content(&fs.stale_tmp), enc_content(&fs.stale_bk)), observed, d.clone(), fs.changed);
        // model: is this one of the states reachable by crash/fault while the guarded list runs?
        let guarded = if fs.changed { enc_ops(full) } else { "_".to_string() };
        o.push("corr", "bk.observed", format!("bk.observed {} {} {} {} {} {}", guarded, eo, ef, enc_content(&fo.file), enc_content(&fo.tmp), enc_content(&fo.bk)), "ok".into(), d.clone(), hit);
        if spec.mode == Mode::Backup {
            // the property's two invariants on what is on disk now
            o.push("oracle", "bk.safe", format!("bk.safe {} {} {} {}", eo, ef, enc_content(&fo.file), enc_content(&fo.bk)), "ok".into(), d.clone(), hit);
        }
        if ops_i.is_empty() && fo.after != Some(fo.before) {
            o.direct_failures.push(json!({"sig": "c20:untouched-file-touched", "what": format!("a file on which no operation ran has a new mtime or inode ({})", d)}));
        }
        if spec.mode == Mode::Backup && spec.inject == Inject::None {
            if fs.changed {
                o.count("final:rewritten-file");
                let ok = fo.file.as_deref() == Some(fmt.as_bytes()) && fo.bk.as_deref() == Some(disk.as_bytes()) && fo.tmp.is_none();
                if !ok {
                    o.direct_failures.push(json!({"sig": "c20:final-state", "what": format!("after a successful --backup run the file does not hold the formatted text with the original in .bk and no .tmp ({})", d), "file": enc_content(&fo.file), "bk": enc_content(&fo.bk), "tmp": enc_content(&fo.tmp)}));
                }
            } else {
                o.count("final:unchanged-file");
                if fo.bk != fs.stale_bk || fo.tmp != fs.stale_tmp || fo.file.as_deref() != Some(disk.as_bytes()) {
                    o.direct_failures.push(json!({"sig": "c20:unchanged-file-got-bk", "what": format!("an already formatted file was touched or got a .bk/.tmp ({})", d)}));
                }
            }
        }
        if hit {
            let j = match &spec.inject { Inject::Crash(j, _) | Inject::Fail(j, _) => *j, _ => 0 };
            o.count(&format!("{}:{}:point{}:pos{}of{}", if matches!(spec.inject, Inject::Crash(..)) { "crash" } else { "fail" }, spec.mode.point(), j, c, nchanged));
        }
    }
}

// ------------------------------------------------------------------------------------------------
// strace

#[derive(Debug, Clone)]
struct Ev {
    stem: String,
    op: String,
}

fn role(path: &str, stems: &[String]) -> Option<(String, &'static str)> {
    let base = path.rsplit('/').next().unwrap_or(path);
    for s in stems {
        if base == format!("{}.rs", s) {
            return Some((s.clone(), "file"));
        }
        if base == format!("{}.tmp", s) {
            return Some((s.clone(), "tmp"));
        }
        if base == format!("{}.bk", s) {
            return Some((s.clone(), "bk"));
        }
    }
    None
}

/// the operations on the files' paths, in the order the kernel saw them, and the number of bytes
/// written through each write-open
fn strace_events(text: &str, stems: &[String]) -> (Vec<Ev>, BTreeMap<(String, String), u64>) {
    let re_open = Regex::new(r#"^\d+\s+openat\(AT_FDCWD, "([^"]*)", ([A-Z_|0-9]+)(?:, [0-7]+)?\)\s+= (-?\d+)"#).unwrap();
    let re_creat = Regex::new(r#"^\d+\s+creat\("([^"]*)", [0-7]+\)\s+= (-?\d+)"#).unwrap();
    let re_rename = Regex::new(r#"^\d+\s+rename\("([^"]*)", "([^"]*)"\)\s+= (-?\d+)"#).unwrap();
    let re_renameat = Regex::new(r#"^\d+\s+renameat2?\(AT_FDCWD, "([^"]*)", AT_FDCWD, "([^"]*)"(?:, [A-Z_|0-9]+)?\)\s+= (-?\d+)"#).unwrap();
    let re_unlink = Regex::new(r#"^\d+\s+unlink\("([^"]*)"\)\s+= (-?\d+)"#).unwrap();
    let re_unlinkat = Regex::new(r#"^\d+\s+unlinkat\(AT_FDCWD, "([^"]*)", [A-Z_|0-9]+\)\s+= (-?\d+)"#).unwrap();
    let re_write = Regex::new(r#"^\d+\s+write\((\d+), .*, (\d+)\)\s+= (-?\d+)"#).unwrap();
    let mut evs = vec![];
    let mut fds: BTreeMap<String, (String, String)> = BTreeMap::new();
    let mut written: BTreeMap<(String, String), u64> = BTreeMap::new();
    let fail = |ret: &str| if ret.starts_with('-') { "x" } else { "" };
    for line in text.lines() {
        if let Some(c) = re_open.captures(line) {
            let (path, flags, ret) = (&c[1], &c[2], &c[3]);
            fds.remove(ret);
            if flags.contains("O_WRONLY") || flags.contains("O_RDWR") {
                if let Some((stem, p)) = role(path, stems) {
                    evs.push(Ev { stem: stem.clone(), op: format!("{}w:{}", fail(ret), p) });
                    if !ret.starts_with('-') {
                        fds.insert(ret.to_string(), (stem.clone(), p.to_string()));
                        written.insert((stem, p.to_string()), 0);
                    }
                }
            }
        } else if let Some(c) = re_creat.captures(line) {
            if let Some((stem, p)) = role(&c[1], stems) {
                evs.push(Ev { stem: stem.clone(), op: format!("{}w:{}", fail(&c[2]), p) });
                if !c[2].starts_with('-') {
                    fds.insert(c[2].to_string(), (stem.clone(), p.to_string()));
                    written.insert((stem, p.to_string()), 0);
                }
            }
        } else if let Some(c) = re_rename.captures(line).or_else(|| re_renameat.captures(line)) {
            match (role(&c[1], stems), role(&c[2], stems)) {
                (Some((s1, p1)), Some((s2, p2))) if s1 == s2 => evs.push(Ev { stem: s1, op: format!("{}r:{}:{}", fail(&c[3]), p1, p2) }),
                (Some((s1, p1)), other) => evs.push(Ev { stem: s1, op: format!("{}r:{}:{}", fail(&c[3]), p1, other.map(|x| format!("{}.{}", x.0, x.1)).unwrap_or_else(|| "elsewhere".into())) }),
                (None, Some((s2, p2))) => evs.push(Ev { stem: s2, op: format!("{}r:elsewhere:{}", fail(&c[3]), p2) }),
                _ => {}
            }
        } else if let Some(c) = re_unlink.captures(line).or_else(|| re_unlinkat.captures(line)) {
            if let Some((stem, p)) = role(&c[1], stems) {
                evs.push(Ev { stem, op: format!("{}d:{}", fail(&c[2]), p) });
            }
        } else if let Some(c) = re_write.captures(line) {
            if let Some(k) = fds.get(&c[1]) {
                if let Ok(n) = c[3].parse::<u64>() {
                    *written.entry(k.clone()).or_insert(0) += n;
                }
            }
        }
    }
    (evs, written)
}

fn strace_case(o: &mut Outcome, bin: &Path, label: &str, mode: Mode, files: &[(String, usize, bool)], pool: &[Src], gen: &Gen, scratch: &Path) {
    let d = cli::fresh_dir(scratch, &format!("strace_{}", label));
    let trace = scratch.join(format!("strace_{}.txt", label));
    let _ = std::fs::remove_file(&trace);
    let mut cmd = Command::new("strace");
    cmd.current_dir(&d).arg("-f").arg("-e").arg("trace=openat,write,rename,renameat,renameat2,unlink,unlinkat,creat").arg("-o").arg(&trace).arg(bin);
    cmd.env_remove("RUSTFMT_VERIF_CRASH_AT").env_remove("RUSTFMT_VERIF_FAIL_AT");
    cmd.args(mode.args());
    let mut stems = vec![];
    for (stem, si, changed) in files {
        let s = &pool[*si];
        std::fs::write(d.join(format!("{}.rs", stem)), if *changed { &s.orig } else { &s.fmt }).unwrap();
        cmd.arg(format!("{}.rs", stem));
        stems.push(stem.clone());
    }
    let ran = cli::run(&mut cmd, b"", cli::LIMIT);
    if ran.timed_out {
        o.count("strace:timeout(run skipped)");
        return;
    }
    let text = std::fs::read_to_string(&trace).unwrap_or_default();
    if ran.code != Some(0) || text.is_empty() {
        o.count("strace:unavailable");
        o.notes.push(format!("strace run `{}` did not work here ({}; {}): the syscall-order validation of the translator was skipped for it", label, ran.status_word(), ran.stderr.chars().take(200).collect::<String>()));
        return;
    }
    o.count("strace:runs");
    let (evs, written) = strace_events(&text, &stems);
    // per file
    let mut last_index_of_prev: Option<usize> = None;
    for (stem, si, changed) in files {
        let s = &pool[*si];
        let mine: Vec<(usize, &Ev)> = evs.iter().enumerate().filter(|(_, e)| &e.stem == stem).collect();
        let seen: Vec<String> = mine.iter().map(|(_, e)| e.op.clone()).collect();
        let d = format!("strace {} {:?} file={} changed={}", label, mode, stem, changed);
        if *changed {
            o.push("corr", "bk.ops", format!("bk.ops {}", mode.kind()), enc_ops(&seen), d.clone(), true);
            if mode == Mode::Backup {
                o.push("oracle", "bk.check", format!("bk.check {}", enc_ops(&seen)), "ok".into(), d.clone(), true);
            }
            // the write carries the whole formatted text
            if let Some(first) = gen.of(mode).first() {
                if let Some(dst) = first.strip_prefix("w:") {
                    let n = written.get(&(stem.clone(), dst.to_string())).copied().unwrap_or(0);
                    o.count("strace:write-size-compared");
                    if n != s.fmt.len() as u64 {
                        o.direct_failures.push(json!({"sig": "c20:strace-write-size", "what": format!("{} bytes were written to the {} of {} where the formatted text has {} ({})", n, dst, stem, s.fmt.len(), d)}));
                    }
                }
            }
            if let (Some(prev), Some((first, _))) = (last_index_of_prev, mine.first()) {
                if *first < prev {
                    o.direct_failures.push(json!({"sig": "c20:strace-interleaved", "what": format!("operations of two files of one run are interleaved ({})", d)}));
                }
            }
            if let Some((last, _)) = mine.last() {
                last_index_of_prev = Some(*last);
            }
        } else {
            o.count("strace:unchanged-file");
            if !seen.is_empty() {
                o.direct_failures.push(json!({"sig": "c20:unchanged-file-got-bk", "what": format!("file-system operations {:?} on an already formatted file ({})", seen, d)}));
            }
        }
    }
    let _ = std::fs::remove_dir_all(&d);
}

// ------------------------------------------------------------------------------------------------
// hook-free faults

/// does dropping CAP_DAC_OVERRIDE with setpriv make a 0555 directory unwritable here?
fn ro_dir_works(scratch: &Path) -> bool {
    use std::os::unix::fs::PermissionsExt;
    let d = cli::fresh_dir(scratch, "ro_probe");
    let _ = std::fs::set_permissions(&d, std::fs::Permissions::from_mode(0o555));
    let r = cli::run(Command::new("setpriv").arg("--bounding-set=-dac_override,-dac_read_search").arg("sh").arg("-c").arg("touch \"$0/y\"").arg(&d), b"", cli::LIMIT);
    let works = r.code == Some(1) && !d.join("y").exists();
    let _ = std::fs::set_permissions(&d, std::fs::Permissions::from_mode(0o755));
    let _ = std::fs::remove_dir_all(&d);
    works
}

struct Fault {
    name: &'static str,
    mode: Mode,
    want_status: &'static str,
    partial: bool,
}

/// (kind, source path, destination path) of an op string of the driver's encoding
fn op_parts(op: &str) -> (char, Option<&str>, Option<&str>) {
    let v: Vec<&str> = op.split(':').collect();
    match v.as_slice() {
        ["w", d] => ('w', None, Some(*d)),
        ["r", s, d] => ('r', Some(*s), Some(*d)),
        ["d", p] => ('d', Some(*p), None),
        ["c", s, d] => ('c', Some(*s), Some(*d)),
        _ => ('?', None, None),
    }
}

/// how many ops of the generated list complete before the environment `fault` stops one
fn ops_before_fault(ops: &[String], fault: &str) -> usize {
    let mut exists: Vec<&str> = vec!["file"];
    if fault == "readonly-dir-with-writable-tmp" {
        exists.push("tmp");
    }
    for (i, op) in ops.iter().enumerate() {
        let (k, src, dst) = op_parts(op);
        let stops = match fault {
            // a directory sits where the temporary should be: creating, replacing or renaming it fails
            "tmp-is-directory" => dst == Some("tmp") || src == Some("tmp"),
            // a non-empty directory cannot be replaced by a file
            "bk-is-nonempty-directory" => dst == Some("bk") || src == Some("bk"),
            // no directory entry can be created, removed or renamed; existing files stay writable
            _ => match k {
                'w' | 'c' => !exists.contains(&dst.unwrap_or("")),
                _ => true,
            },
        };
        if stops {
            return i;
        }
    }
    ops.len()
}

fn real_fault(o: &mut Outcome, plain: &Path, scratch: &Path, id: usize, f: &Fault, s: &Src, gen: &Gen, ro_ok: bool) {
    use std::os::unix::fs::PermissionsExt;
    let d = cli::fresh_dir(scratch, &format!("fault{}", id));
    let x = d.join("x.rs");
    std::fs::write(&x, &s.orig).unwrap();
    age(&x);
    let before = stat(&x);
    let mut stale_tmp: Option<Vec<u8>> = None;
    let mut stale_bk: Option<Vec<u8>> = None;
    let mut cmd;
    match f.name {
        "tmp-is-directory" => {
            std::fs::create_dir(d.join("x.tmp")).unwrap();
            stale_tmp = Some(b"<DIR>".to_vec());
            cmd = cli::base_cmd(plain, &d);
        }
        "bk-is-nonempty-directory" => {
            std::fs::create_dir(d.join("x.bk")).unwrap();
            std::fs::write(d.join("x.bk").join("keep"), b"k").unwrap();
            stale_bk = Some(b"<DIR>".to_vec());
            cmd = cli::base_cmd(plain, &d);
        }
        "readonly-dir" | "readonly-dir-with-writable-tmp" => {
            if !ro_ok {
                o.count("fault:readonly-dir:skipped(no way to drop CAP_DAC_OVERRIDE)");
                return;
            }
            if f.name == "readonly-dir-with-writable-tmp" {
                std::fs::write(d.join("x.tmp"), b"stale").unwrap();
                stale_tmp = Some(b"stale".to_vec());
            }
            std::fs::set_permissions(&d, std::fs::Permissions::from_mode(0o555)).unwrap();
            cmd = Command::new("setpriv");
            cmd.current_dir(&d).arg("--bounding-set=-dac_override,-dac_read_search").arg(plain);
            cmd.env_remove("RUSTFMT_VERIF_CRASH_AT").env_remove("RUSTFMT_VERIF_FAIL_AT");
        }
        "fsize-limit-kill" | "fsize-limit-efbig" => {
            cmd = Command::new("sh");
            let script = if f.name == "fsize-limit-kill" { "ulimit -f 1; exec \"$0\" \"$@\"" } else { "trap '' XFSZ; ulimit -f 1; exec \"$0\" \"$@\"" };
            cmd.current_dir(&d).arg("-c").arg(script).arg(plain);
            cmd.env_remove("RUSTFMT_VERIF_CRASH_AT").env_remove("RUSTFMT_VERIF_FAIL_AT");
        }
        _ => unreachable!(),
    }
    cmd.args(f.mode.args()).arg("x.rs");
    let ran = cli::run(&mut cmd, b"", cli::LIMIT);
    let _ = std::fs::set_permissions(&d, std::fs::Permissions::from_mode(0o755));
    if ran.timed_out {
        o.count("fault:timeout(run skipped)");
        return;
    }
    let (file, tmp, bk) = (cli::content(&x), cli::content(&d.join("x.tmp")), cli::content(&d.join("x.bk")));
    let after = stat(&x);
    let desc = format!("real-fault {} {:?} src={}", f.name, f.mode, s.name);
    o.count(&format!("fault:{}:{:?}:{}", f.name, f.mode, ran.status_word()));
    if ran.status_word() != f.want_status {
        o.direct_failures.push(json!({"sig": "c20:exit-status", "what": format!("process ended with {} where {} was expected ({})", ran.status_word(), f.want_status, desc), "stderr": ran.stderr.chars().take(300).collect::<String>()}));
    }
    let full = gen.of(f.mode);
    let (eo, ef) = (enc_str(&s.orig), enc_str(&s.fmt));
    o.push("corr", "bk.observed", format!("bk.observed {} {} {} {} {} {}", enc_ops(full), eo, ef, enc_content(&file), enc_content(&tmp), enc_content(&bk)), "ok".into(), desc.clone(), true);
    let n_done = if f.partial { 0 } else { ops_before_fault(full, f.name) };
    if !f.partial {
        let done = full[..n_done].to_vec();
        o.push("corr", "bk.run", format!("bk.run {} {} {} {} {}", enc_ops(&done), eo, ef, enc_content(&stale_tmp), enc_content(&stale_bk)), format!("{}:{}:{}", enc_content(&file), enc_content(&tmp), enc_content(&bk)), desc.clone(), true);
    } else {
        // the write stopped at the limit: its target holds a strict, non-empty prefix of the formatted text
        let target = if f.mode == Mode::Backup { &tmp } else { &file };
        let is_part = target.as_ref().map(|t| !t.is_empty() && t.len() < s.fmt.len() && s.fmt.as_bytes().starts_with(t)).unwrap_or(false);
        o.count(if is_part { "fault:partial-write-observed" } else { "fault:partial-write-NOT-observed" });
        if !is_part {
            o.notes.push(format!("{}: the size limit did not leave a partial write (target = {} bytes)", desc, target.as_ref().map(|t| t.len()).unwrap_or(0)));
        }
    }
    if f.mode == Mode::Backup {
        o.push("oracle", "bk.safe", format!("bk.safe {} {} {} {}", eo, ef, enc_content(&file), enc_content(&bk)), "ok".into(), desc.clone(), true);
        let file_involved = full[..n_done].iter().any(|op| { let (k, src, dst) = op_parts(op); dst == Some("file") || (k != 'c' && src == Some("file")) });
        if !file_involved && (file.as_deref() != Some(s.orig.as_bytes()) || before != after) {
            o.direct_failures.push(json!({"sig": "c20:original-not-intact-after-fault", "what": format!("the fault came before any operation on the file itself but the file is not the untouched original ({})", desc)}));
        }
    } else if f.partial {
        // contrast (not part of the property): the plain Files emitter leaves a truncated file
        let lost = file.as_deref() != Some(s.orig.as_bytes()) && file.as_deref() != Some(s.fmt.as_bytes());
        o.count(if lost { "contrast:plain-files-left-a-partial-file" } else { "contrast:plain-files-intact" });
    }
    let _ = std::fs::remove_dir_all(&d);
}

// ------------------------------------------------------------------------------------------------
// known findings: with_extension collisions

fn probe_collisions(o: &mut Outcome, plain: &Path, scratch: &Path) {
    let a = "fn main(){let x=1;}\n";
    let b = "fn other(){let y=2;}\n";
    let anywhere = |d: &Path, text: &str| cli::snapshot(d).values().any(|s| s.bytes.as_deref() == Some(text.as_bytes()));
    let listing = |d: &Path| -> String {
        cli::snapshot(d).iter().filter(|(k, _)| k.as_str() != "rustfmt.toml").map(|(k, s)| format!("{} = {:?}", k, String::from_utf8_lossy(s.bytes.as_deref().unwrap_or(b"<DIR>")))).collect::<Vec<_>>().join("; ")
    };
    {
        let d = cli::fresh_dir(scratch, "probe_bk");
        std::fs::write(d.join("x.bk"), a).unwrap();
        let r = cli::rustfmt(plain, &d, &["--backup", "x.bk"]);
        let lost = !anywhere(&d, a);
        o.probes.push(json!({"id": "F20a", "fails": lost, "what": "rustfmt --backup x.bk: with_extension(\"bk\") is the file itself; the file is rewritten and no copy of the original exists", "detail": format!("{}; after: {}", r.status_word(), listing(&d))}));
    }
    {
        let d = cli::fresh_dir(scratch, "probe_stem");
        std::fs::write(d.join("a.rs"), a).unwrap();
        std::fs::write(d.join("a.txt"), b).unwrap();
        let r = cli::rustfmt(plain, &d, &["--backup", "a.rs", "a.txt"]);
        let lost = !anywhere(&d, a) || !anywhere(&d, b);
        o.probes.push(json!({"id": "F20b", "fails": lost, "what": "rustfmt --backup a.rs a.txt: both files use a.bk; the second backup replaces the first and the original of a.rs is gone", "detail": format!("{}; after: {}", r.status_word(), listing(&d))}));
    }
    {
        let d = cli::fresh_dir(scratch, "probe_tmp");
        std::fs::write(d.join("x.tmp"), a).unwrap();
        let r = cli::rustfmt(plain, &d, &["--backup", "x.tmp"]);
        let lost = !anywhere(&d, a);
        o.probes.push(json!({"id": "F20c", "fails": lost, "what": "rustfmt --backup x.tmp: the temporary is the file itself; the write destroys the original, the last rename fails (exit 1) and x.bk holds the formatted text", "detail": format!("{}; after: {}", r.status_word(), listing(&d))}));
    }
    {
        // one file reached under two spellings of its path (C13's finding F13e): it is emitted twice, and the second
        // emission backs up the text the first one wrote
        let d = cli::fresh_dir(scratch, "probe_twice");
        std::fs::create_dir_all(d.join("sub")).unwrap();
        std::fs::write(d.join("lib.rs"), "mod a;\n#[path = \"sub/../a.rs\"]\nmod b;\n").unwrap();
        std::fs::write(d.join("a.rs"), a).unwrap();
        let r = cli::rustfmt(plain, &d, &["--backup", "lib.rs"]);
        let lost = !anywhere(&d, a);
        o.probes.push(json!({"id": "F20d", "fails": lost, "what": "rustfmt --backup lib.rs where lib.rs reaches a.rs twice (`mod a;` and `#[path = \"sub/../a.rs\"] mod b;`): a.rs is emitted twice and the second backup renames the already formatted a.rs over a.bk; no copy of the original is left", "detail": format!("{}; after: {}", r.status_word(), listing(&d))}));
    }
}

// ------------------------------------------------------------------------------------------------

fn patterns(n: usize) -> Vec<Vec<bool>> {
    (1..(1u32 << n)).map(|m| (0..n).map(|i| m & (1 << i) != 0).collect()).collect()
}

pub fn run(tier: &str, seed: u64, out: &Path) -> i32 {
    let mut o = Outcome::new("C20", tier, seed);
    let thorough = tier == "thorough";
    let mut rng = Rng::new(seed ^ 0xc20);
    std::fs::create_dir_all(out).ok();
    let scratch: PathBuf = std::fs::canonicalize(out).unwrap_or_else(|_| out.to_path_buf()).join("scratch");
    let _ = std::fs::remove_dir_all(&scratch);
    std::fs::create_dir_all(&scratch).unwrap();
    let plain = cli::build_rustfmt(false).unwrap_or_else(|e| panic!("{}", e));
    let hooked = cli::build_rustfmt(true).unwrap_or_else(|e| panic!("{}", e));
    // the generated op lists
    let ans = run_model(&["bk.ops filesWithBackup".to_string(), "bk.ops files".to_string()], 1);
    let gen = Gen { backup: dec_ops(&ans[0]), files: dec_ops(&ans[1]) };
    o.notes.push(format!("generated op lists: backup = {}, files = {}", ans[0], ans[1]));
    if ans.iter().any(|a| a.starts_with('?') || a.starts_with('!')) {
        panic!("model driver does not answer bk.ops: {:?}", ans);
    }
    // sources: small ones for the matrix, larger ones (formatted text > 512 bytes) for the size limit
    let pool = cli::sources(&mut rng, if thorough { 60 } else { 14 }, 0, 2500, &plain, &scratch);
    let big = cli::sources(&mut rng, if thorough { 12 } else { 4 }, 1200, 6000, &plain, &scratch);
    o.count_n("sources:small", pool.len() as u64);
    o.count_n("sources:large", big.len() as u64);
    if pool.len() < 4 || big.is_empty() {
        panic!("could not build the source pool ({} small, {} large)", pool.len(), big.len());
    }
    for s in pool.iter().take(2) {
        o.sample(json!({"source": s.name, "orig_bytes": s.orig.len(), "fmt_bytes": s.fmt.len(), "fmt_is_fixed_point": s.fmt_fixed}));
    }
    let fixed: Vec<usize> = (0..pool.len()).filter(|i| pool[*i].fmt_fixed).collect();

    // 1. translator validation by strace (hook-free and hooked binary)
    for (label, bin) in [("plain", &plain), ("hooked", &hooked)] {
        let a = rng.below(pool.len());
        let b = rng.below(pool.len());
        let u = *rng.pick(&fixed);
        strace_case(&mut o, bin, &format!("{}_backup1", label), Mode::Backup, &[("x".into(), a, true)], &pool, &gen, &scratch);
        strace_case(&mut o, bin, &format!("{}_files1", label), Mode::Files, &[("x".into(), a, true)], &pool, &gen, &scratch);
        strace_case(&mut o, bin, &format!("{}_backup3", label), Mode::Backup, &[("p".into(), b, true), ("q".into(), u, false), ("r".into(), a, true)], &pool, &gen, &scratch);
        strace_case(&mut o, bin, &format!("{}_files3", label), Mode::Files, &[("p".into(), b, true), ("q".into(), u, false), ("r".into(), a, true)], &pool, &gen, &scratch);
    }

    // 2./3. crash points and injected faults, every position in every changed/unchanged pattern of 1..3 files
    let mut specs: Vec<RunSpec> = vec![];
    let rounds = if thorough { 150 } else { 4 };
    let stale_choices: [Option<&[u8]>; 4] = [None, None, Some(&b"stale junk\n"[..]), Some(&b""[..])];
    for round in 0..rounds {
        for n in 1..=3usize {
            for pat in patterns(n) {
                let mk_files = |rng: &mut Rng| -> Vec<FileSpec> {
                    pat.iter().enumerate().map(|(i, ch)| {
                        let src = if *ch { rng.below(pool.len()) } else { *rng.pick(&fixed) };
                        FileSpec { stem: format!("f{}", i), src, changed: *ch, stale_tmp: (*rng.pick(&stale_choices)).map(|b| b.to_vec()), stale_bk: (*rng.pick(&stale_choices)).map(|b| b.to_vec()) }
                    }).collect()
                };
                let nch = pat.iter().filter(|b| **b).count();
                for mode in [Mode::Backup, Mode::Files] {
                    let nops = gen.of(mode).len();
                    if mode == Mode::Files && round > 0 {
                        continue;
                    }
                    for k in 1..=nch {
                        for j in 0..=nops {
                            let mut files = mk_files(&mut rng);
                            if mode == Mode::Files { for f in files.iter_mut() { f.stale_tmp = None; f.stale_bk = None; } }
                            specs.push(RunSpec { id: specs.len(), mode, hooked: true, files, inject: Inject::Crash(j, k), family: "crash" });
                        }
                        for j in 0..nops {
                            let mut files = mk_files(&mut rng);
                            if mode == Mode::Files { for f in files.iter_mut() { f.stale_tmp = None; f.stale_bk = None; } }
                            specs.push(RunSpec { id: specs.len(), mode, hooked: true, files, inject: Inject::Fail(j, k), family: "fail" });
                        }
                    }
                    // fault-free runs: hooked binary and the hook-free one
                    for hooked_bin in [true, false] {
                        let mut files = mk_files(&mut rng);
                        if mode == Mode::Files { for f in files.iter_mut() { f.stale_tmp = None; f.stale_bk = None; } }
                        specs.push(RunSpec { id: specs.len(), mode, hooked: hooked_bin, files, inject: Inject::None, family: "success" });
                    }
                }
            }
        }
    }
    // all-unchanged runs
    for n in 1..=2usize {
        let files: Vec<FileSpec> = (0..n).map(|i| FileSpec { stem: format!("u{}", i), src: *rng.pick(&fixed), changed: false, stale_tmp: None, stale_bk: if i == 1 { Some(b"old backup".to_vec()) } else { None } }).collect();
        specs.push(RunSpec { id: specs.len(), mode: Mode::Backup, hooked: false, files, inject: Inject::None, family: "success" });
    }
    o.count_n("runs:crash", specs.iter().filter(|s| s.family == "crash").count() as u64);
    o.count_n("runs:fail", specs.iter().filter(|s| s.family == "fail").count() as u64);
    o.count_n("runs:success", specs.iter().filter(|s| s.family == "success").count() as u64);
    let observed: Vec<RunObs> = par_map(&specs, |s| exec(s, &pool, &plain, &hooked, &scratch));
    for (s, ob) in specs.iter().zip(&observed) {
        evaluate(&mut o, s, ob, &pool, &gen);
    }

    // 3b. faults without hooks
    let ro_ok = ro_dir_works(&scratch);
    o.notes.push(format!("read-only directory test {}", if ro_ok { "active (CAP_DAC_OVERRIDE dropped with setpriv)" } else { "skipped: setpriv cannot drop CAP_DAC_OVERRIDE here" }));
    let faults = [
        Fault { name: "tmp-is-directory", mode: Mode::Backup, want_status: "exit1", partial: false },
        Fault { name: "bk-is-nonempty-directory", mode: Mode::Backup, want_status: "exit1", partial: false },
        Fault { name: "readonly-dir", mode: Mode::Backup, want_status: "exit1", partial: false },
        Fault { name: "readonly-dir-with-writable-tmp", mode: Mode::Backup, want_status: "exit1", partial: false },
        Fault { name: "fsize-limit-kill", mode: Mode::Backup, want_status: "signal25", partial: true },
        Fault { name: "fsize-limit-efbig", mode: Mode::Backup, want_status: "exit1", partial: true },
        Fault { name: "fsize-limit-kill", mode: Mode::Files, want_status: "signal25", partial: true },
    ];
    let mut fid = 0;
    for f in &faults {
        let srcs: Vec<&Src> = if f.partial { big.iter().filter(|s| s.fmt.len() > 600).collect() } else { pool.iter().take(if thorough { 8 } else { 3 }).collect() };
        for s in srcs {
            real_fault(&mut o, &plain, &scratch, fid, f, s, &gen, ro_ok);
            fid += 1;
        }
    }

    // 4. known findings
    probe_collisions(&mut o, &plain, &scratch);

    let _ = std::fs::remove_dir_all(&scratch);
    o.notes.push("non-trivial: bk.run = the file was to be rewritten; bk.observed / bk.safe = the crash or fault hit this very file (or a hook-free fault); bk.ops / bk.check = a strace of a rewriting run".into());
    o.finish(out, jobs())
}
