//! C04: skip-marked code and opted-out files are emitted verbatim.
//!
//! 1. correspondence (in-process, `verif_hooks::skip`): attribute recognition (`is_skip`,
//!    `contains_skip`, `get_skip_names`, `is_skip_attr`, `is_unknown_rustfmt_attr`) on generated and
//!    fixture attributes parsed by rustfmt's own parser; `SkipNameContext` scripts; the skip context a
//!    file and a nested visitor start with; `is_generated_file`; `str::trim`; the visitor's buffer
//!    operations (`push_str`, `format_missing_with_indent`, `push_rewrite`, `push_skipped_with_span`)
//!    against the Lean log machine.
//! 2. search (real formatter through the worker pool; the real binary for files on disk): generated
//!    programs with each accepted spelling of the skip attribute on every node kind that takes one,
//!    nested 0-3 deep, badly laid out and surrounded by badly laid out code; `skip::macros`,
//!    `skip_macro_invocations`, `skip::attributes`; out-of-line modules; whole-file opt-outs in every
//!    emit mode (decision table of the model vs real runs).
//!    Skip-marked items and statements directly inside `macro_rules!` bodies (the second reader of the
//!    skipped ranges: `MacroBranch::rewrite` re-indents every line outside a range), formatted twice;
//!    the correspondence `skip.mbody` of that re-indentation; `skip::macros` at three nesting levels;
//!    byte-exactness of opted-out files with BOM / CRLF / no final newline in every emit mode.
//! 3. enumerated probes of inputs known to be dirty on the pinned tree.
//!
//! "The node" of a skip attribute, for the oracle: for items and statements the source text from the
//! node's first outer attribute or doc comment (`full`; `visit_item` / `visit_stmt` copy that span) and,
//! for every node kind, the source text from the first token after the
//! node's outer attributes to the node's last token (items: through the closing brace or `;`; a
//! statement: through its `;`; a field, variant or match arm: without the separating comma, which is
//! list punctuation and is normalised; an expression: the expression).  It starts and ends with a
//! non-blank character (the code pushes `snippet.trim()`, `pushSkipped_untrimmed_counterexample`), is
//! LF-only and carries an identifier that occurs nowhere else in the program, so "occurs exactly
//! once" is meaningful.  For impl / trait items, fields, variants, arms and expressions the attributes
//! are not part of the node (tests/target/issue-4398.rs pins that the attributes of a skipped impl item
//! are laid out by the missing-text path).
use std::path::{Path, PathBuf};
use std::process::Command;
use std::time::Duration;

use rustfmt_nightly::verif_hooks::skip as hs;
use rustfmt_nightly::Config;
use serde_json::json;

use crate::corpus;
use crate::gen::*;
use crate::pool::{self, Job, Status};
use crate::util::*;

// ------------------------------------------------------------------------------------------------
// attribute meta trees

#[derive(Clone, Debug)]
enum Meta {
    Word(Vec<String>),
    NameValue(Vec<String>),
    List(Vec<String>, Vec<Nested>),
}

#[derive(Clone, Debug)]
enum Nested {
    Meta(Meta),
    Lit,
}

#[derive(Clone, Debug)]
enum Attr {
    Normal(Meta),
    /// a normal attribute whose arguments are not a meta item (`meta() == None`): path, raw arguments
    Bad(Vec<String>, String),
    Doc,
}

fn p(segs: &[&str]) -> Vec<String> {
    segs.iter().map(|s| s.to_string()).collect()
}

/// what rustc's `Ident::to_string` gives for a segment written `r#x` with `x` not reserved
fn seg_seen(s: &str) -> &str {
    s.strip_prefix("r#").unwrap_or(s)
}

fn enc_path(path: &[String]) -> String {
    path.iter().map(|s| seg_seen(s)).collect::<Vec<_>>().join(".")
}

fn enc_meta(m: &Meta) -> String {
    match m {
        Meta::Word(pa) => format!("w:{}", enc_path(pa)),
        Meta::NameValue(pa) => format!("n:{}", enc_path(pa)),
        Meta::List(pa, args) => format!(
            "l:{}({})",
            enc_path(pa),
            args.iter().map(|n| match n { Nested::Meta(m) => enc_meta(m), Nested::Lit => "#".to_string() }).collect::<Vec<_>>().join("|")
        ),
    }
}

fn enc_attr(a: &Attr) -> String {
    match a {
        Attr::Normal(m) => enc_meta(m),
        Attr::Bad(pa, _) => format!("x:{}", enc_path(pa)),
        Attr::Doc => "d".to_string(),
    }
}

fn enc_attrs(encs: &[String]) -> String {
    if encs.is_empty() { "_".into() } else { encs.join(",") }
}

fn sp(rng: &mut Rng) -> &'static str {
    match rng.below(8) {
        0 => " ",
        1 => "  ",
        2 => "\n",
        _ => "",
    }
}

fn render_path(path: &[String], rng: &mut Rng) -> String {
    let mut s = String::new();
    for (i, seg) in path.iter().enumerate() {
        if i > 0 {
            s.push_str(sp(rng));
            s.push_str("::");
            s.push_str(sp(rng));
        }
        s.push_str(seg);
    }
    s
}

const LITS: &[&str] = &["\"s\"", "1", "1.5", "b'x'", "'c'", "r\"raw\"", "\"rustfmt::skip\"", "0x10"];

fn render_meta(m: &Meta, rng: &mut Rng) -> String {
    match m {
        Meta::Word(pa) => render_path(pa, rng),
        Meta::NameValue(pa) => format!("{}{}={}{}", render_path(pa, rng), sp(rng), sp(rng), rng.pick(LITS)),
        Meta::List(pa, args) => {
            let mut s = render_path(pa, rng);
            s.push_str(sp(rng));
            s.push('(');
            for (i, a) in args.iter().enumerate() {
                if i > 0 {
                    s.push(',');
                }
                s.push_str(sp(rng));
                match a {
                    Nested::Meta(m) => s.push_str(&render_meta(m, rng)),
                    Nested::Lit => s.push_str(*rng.pick(LITS)),
                }
                s.push_str(sp(rng));
            }
            if !args.is_empty() && rng.chance(1, 5) {
                s.push(',');
            }
            s.push(')');
            s
        }
    }
}

fn render_attr(a: &Attr, inner: bool, rng: &mut Rng) -> String {
    let bang = if inner { "!" } else { "" };
    match a {
        Attr::Normal(m) => format!("#{}[{}{}{}]{}", bang, sp(rng), render_meta(m, rng), sp(rng), if rng.chance(1, 2) { "\n" } else { " " }),
        Attr::Bad(pa, raw) => format!("#{}[{}{}]\n", bang, render_path(pa, rng), raw),
        Attr::Doc => {
            if inner {
                if rng.chance(1, 2) { "//! rustfmt::skip\n".to_string() } else { "/*! #[rustfmt::skip] */\n".to_string() }
            } else if rng.chance(1, 2) {
                "/// #[rustfmt::skip]\n".to_string()
            } else {
                "/** rustfmt::skip */\n".to_string()
            }
        }
    }
}

fn path_pool() -> Vec<Vec<String>> {
    vec![
        p(&["rustfmt", "skip"]),
        p(&["rustfmt_skip"]),
        p(&["", "rustfmt", "skip"]),
        p(&["", "rustfmt_skip"]),
        p(&["rustfmt", "skip", "macros"]),
        p(&["rustfmt", "skip", "attributes"]),
        p(&["rustfmt", "skip", "other"]),
        p(&["rustfmt", "skip", "macros", "x"]),
        p(&["rustfmt"]),
        p(&["skip"]),
        p(&["cfg_attr"]),
        p(&["", "cfg_attr"]),
        p(&["rustfmt", "cfg_attr"]),
        p(&["cfg_attr", "x"]),
        p(&["r#cfg_attr"]),
        p(&["rustfmt", "r#skip"]),
        p(&["r#rustfmt", "skip"]),
        p(&["rustfmt", "skipx"]),
        p(&["Rustfmt", "skip"]),
        p(&["rustfmt", "Skip"]),
        p(&["rustfmt_skip", "x"]),
        p(&["rustfmt", "skip", "skip"]),
        p(&["rustfmt", "rustfmt", "skip"]),
        p(&["rustfmt", "other"]),
        p(&["allow"]),
        p(&["derive"]),
        p(&["doc"]),
        p(&["any"]),
        p(&["all"]),
        p(&["feature"]),
        p(&["a", "b"]),
        p(&["clippy", "skip"]),
        p(&["macros"]),
        p(&["attributes"]),
    ]
}

/// paths that matter (skip spellings, cfg_attr) with weight, any other path otherwise
fn pick_path(rng: &mut Rng, pool: &[Vec<String>]) -> Vec<String> {
    if rng.chance(1, 2) { pool[rng.below(11)].clone() } else { rng.pick(pool).clone() }
}

fn random_meta(rng: &mut Rng, pool: &[Vec<String>], depth: usize) -> Meta {
    let k = rng.below(10);
    if depth == 0 || k < 4 {
        if k == 0 { Meta::NameValue(pick_path(rng, pool)) } else { Meta::Word(pick_path(rng, pool)) }
    } else {
        let path = if rng.chance(3, 5) { p(&["cfg_attr"]) } else { pick_path(rng, pool) };
        let n = *rng.pick(&[0usize, 1, 2, 2, 2, 2, 3, 3, 4]);
        let args = (0..n)
            .map(|i| {
                if rng.chance(1, 8) {
                    Nested::Lit
                } else if i + 1 == n || rng.chance(1, 3) {
                    Nested::Meta(random_meta(rng, pool, depth - 1))
                } else {
                    Nested::Meta(random_meta(rng, pool, 0))
                }
            })
            .collect();
        Meta::List(path, args)
    }
}

fn random_attr(rng: &mut Rng, pool: &[Vec<String>]) -> Attr {
    match rng.below(14) {
        0 => Attr::Doc,
        1 => {
            let raw = *rng.pick(&["[a b]", "{a}", "(a b)", "(+)", " = a::b", "(a = b)", "(1 2)", "[rustfmt::skip]", "{rustfmt::skip}"]);
            Attr::Bad(pick_path(rng, pool), raw.to_string())
        }
        _ => {
            let d = rng.below(5);
            Attr::Normal(random_meta(rng, pool, d))
        }
    }
}

/// a skip-names attribute `rustfmt::skip::<kind>(names…)` with the occasional non-identifier argument
fn names_attr(rng: &mut Rng, pool: &[Vec<String>]) -> Attr {
    let kind = *rng.pick(&["macros", "attributes", "macros", "attributes", "other"]);
    let path = if rng.chance(1, 8) { p(&["", "rustfmt", "skip", kind]) } else { p(&["rustfmt", "skip", kind]) };
    let n = rng.below(5);
    let args = (0..n)
        .map(|_| match rng.below(8) {
            0 => Nested::Lit,
            1 => Nested::Meta(Meta::Word(p(&["a", "b"]))),
            2 => Nested::Meta(Meta::NameValue(p(&[*rng.pick(NAMES)]))),
            3 => Nested::Meta(Meta::List(p(&[*rng.pick(NAMES)]), vec![Nested::Meta(Meta::Word(p(&["inner"])))])),
            4 => Nested::Meta(random_meta(rng, pool, 1)),
            _ => Nested::Meta(Meta::Word(p(&[*rng.pick(NAMES)]))),
        })
        .collect::<Vec<_>>();
    match rng.below(10) {
        0 => Attr::Normal(Meta::Word(path)),
        1 => Attr::Normal(Meta::NameValue(path)),
        2 => Attr::Bad(path, "[a, b]".into()),
        _ => Attr::Normal(Meta::List(path, args)),
    }
}

const NAMES: &[&str] = &["a", "b", "html", "println", "derive", "custom", "vec", "r#try", "x1"];

fn path_of_enc(enc: &str) -> Option<&str> {
    if enc == "d" {
        return None;
    }
    let rest = &enc[2..];
    Some(rest.split('(').next().unwrap_or(rest))
}

fn bit(b: bool) -> String {
    if b { "1".into() } else { "0".into() }
}

fn names_enc(v: &[String]) -> String {
    if v.is_empty() { "_".into() } else { v.join(",") }
}

fn sorted_dedup(v: &[String]) -> Vec<String> {
    let mut w = v.to_vec();
    w.sort();
    w.dedup();
    w
}

const KINDS: &[&str] = &["macros", "attributes", "other"];

/// pushes the comparisons for one attribute list as the code saw it
fn attrs_cases(o: &mut Outcome, info: &hs::AttrsInfo, desc: &str) {
    let encs: Vec<String> = info.attrs.iter().map(|a| a.enc.clone()).collect();
    let list = enc_attrs(&encs);
    let depth = encs.iter().map(|e| e.matches('(').count()).max().unwrap_or(0);
    o.push("corr", "skip.contains", format!("skip.contains {}", list), bit(info.contains_skip), desc.into(), info.contains_skip || depth > 0 || encs.len() > 1);
    o.count(if info.contains_skip { "attrs:contains_skip=1" } else { "attrs:contains_skip=0" });
    for a in &info.attrs {
        if let Some(s) = a.is_skip {
            let d = a.enc.matches('(').count();
            o.push("corr", "skip.is_skip", format!("skip.is_skip {}", a.enc), bit(s), desc.into(), s || d > 0);
            o.count(&format!("is_skip:{}:depth{}", s as u8, d.min(5)));
        } else {
            o.count(if a.enc == "d" { "attr:doc" } else { "attr:meta-none" });
        }
        if let (Some(pa), Some(isa), Some(unk)) = (path_of_enc(&a.enc), a.is_skip_attr, a.unknown_rustfmt) {
            o.push("corr", "skip.is_skip_attr", format!("skip.is_skip_attr {}", pa), bit(isa), desc.into(), pa.contains("rustfmt"));
            o.push("corr", "skip.unknown_attr", format!("skip.unknown_attr {}", pa), bit(unk), desc.into(), pa.contains("rustfmt"));
        }
    }
    for (k, names) in KINDS.iter().zip(info.names.iter()) {
        let kk = match *k { "macros" => "m", "attributes" => "a", x => x };
        let nt = !names.is_empty();
        o.push("corr", "skip.namesvec", format!("skip.namesvec {} {}", kk, list), names_enc(names), desc.into(), nt);
        o.push("corr", "skip.names", format!("skip.names {} {}", kk, list), names_enc(&sorted_dedup(names)), desc.into(), nt);
        if nt {
            o.count(&format!("names:{}:nonempty", k));
        }
    }
}

/// One source text: inner attributes, then items each with its outer attributes.
struct AttrSource {
    src: String,
    inner: Vec<Attr>,
    outer: Vec<Vec<Attr>>,
}

fn attr_source(inner: Vec<Attr>, outer: Vec<Vec<Attr>>, rng: &mut Rng) -> AttrSource {
    let mut src = String::new();
    for a in &inner {
        src.push_str(&render_attr(a, true, rng));
    }
    for (i, attrs) in outer.iter().enumerate() {
        for a in attrs {
            src.push_str(&render_attr(a, false, rng));
        }
        src.push_str(&format!("fn f{}() {{}}\n", i));
    }
    AttrSource { src, inner, outer }
}

fn run_attr_sources(o: &mut Outcome, sources: &[AttrSource], family: &str) {
    let parsed: Vec<Option<hs::Parsed>> = par_map(sources, |s| {
        let src = s.src.clone();
        std::panic::catch_unwind(move || hs::analyze(&src, KINDS)).unwrap_or(None)
    });
    for (s, pa) in sources.iter().zip(parsed.iter()) {
        let pa = match pa {
            Some(x) => x,
            None => {
                o.count(&format!("{}:source-does-not-parse", family));
                o.sample(json!({"family": family, "does_not_parse": s.src}));
                continue;
            }
        };
        o.count(&format!("{}:sources", family));
        // the generator's expectation of what rustc's `meta()` gives: an assumption about rustc
        let exp_inner: Vec<String> = s.inner.iter().map(enc_attr).collect();
        let got_inner: Vec<String> = pa.krate.attrs.iter().map(|a| a.enc.clone()).collect();
        let mut exp = vec![enc_attrs(&exp_inner)];
        let mut got = vec![enc_attrs(&got_inner)];
        for attrs in &s.outer {
            exp.push(enc_attrs(&attrs.iter().map(enc_attr).collect::<Vec<_>>()));
        }
        for it in &pa.items {
            got.push(enc_attrs(&it.attrs.attrs.iter().map(|a| a.enc.clone()).collect::<Vec<_>>()));
        }
        if exp != got {
            o.direct_failures.push(json!({"sig": "c04:assume:meta-tree-of-generated-attribute", "what": "rustc's Attribute::meta() of a generated attribute is not the tree the generator wrote (harness assumption, not a rustfmt defect)", "src": s.src, "expected": exp, "got": got}));
        }
        o.direct_evals += 1;
        attrs_cases(o, &pa.krate, family);
        for it in &pa.items {
            attrs_cases(o, &it.attrs, family);
        }
    }
}

/// every `cfg_attr` chain of depth `d`: at each level an arity 1..=4 and the position of the child
fn cfg_chains(d: usize, leaf: &Meta) -> Vec<Meta> {
    if d == 0 {
        return vec![leaf.clone()];
    }
    let mut res = vec![];
    for inner in cfg_chains(d - 1, leaf) {
        for arity in 1..=4usize {
            for pos in 0..arity {
                let args = (0..arity)
                    .map(|i| if i == pos { Nested::Meta(inner.clone()) } else if i == 0 { Nested::Meta(Meta::List(p(&["any"]), vec![])) } else { Nested::Meta(Meta::List(p(&["allow"]), vec![Nested::Meta(Meta::Word(p(&["dead_code"])))])) })
                    .collect();
                res.push(Meta::List(p(&["cfg_attr"]), args));
            }
        }
    }
    res
}

fn part_attrs(o: &mut Outcome, rng: &mut Rng, thorough: bool) {
    let pool = path_pool();
    // (a) enumerated: every path of the pool as a word, name-value, empty list, one-argument list
    let mut sources = vec![];
    let mut outer = vec![];
    for pa in &pool {
        outer.push(vec![Attr::Normal(Meta::Word(pa.clone()))]);
        outer.push(vec![Attr::Normal(Meta::NameValue(pa.clone()))]);
        outer.push(vec![Attr::Normal(Meta::List(pa.clone(), vec![]))]);
        outer.push(vec![Attr::Normal(Meta::List(pa.clone(), vec![Nested::Meta(Meta::Word(p(&["x"])))]))]);
        outer.push(vec![Attr::Normal(Meta::List(p(&["cfg_attr"]), vec![Nested::Meta(Meta::Word(p(&["x"]))), Nested::Meta(Meta::Word(pa.clone()))]))]);
        outer.push(vec![Attr::Bad(pa.clone(), "[x]".into())]);
    }
    sources.push(attr_source(vec![], outer, &mut Rng(1)));
    // every pool path as an inner attribute of the crate, one source each (an inner skip is a whole-file opt-out)
    for pa in &pool {
        sources.push(attr_source(vec![Attr::Normal(Meta::Word(pa.clone()))], vec![vec![]], &mut Rng(2)));
    }
    run_attr_sources(o, &sources, "attr-enum");
    // (b) cfg_attr chains: arities 1..4 at every level, child at every position, depth 0..4
    let leaves = [Meta::Word(p(&["rustfmt", "skip"])), Meta::Word(p(&["rustfmt_skip"])), Meta::Word(p(&["rustfmt", "skip", "macros"])), Meta::List(p(&["rustfmt", "skip"]), vec![]), Meta::NameValue(p(&["rustfmt", "skip"]))];
    let mut chains = vec![];
    let maxd = if thorough { 4 } else { 3 };
    for (li, leaf) in leaves.iter().enumerate() {
        for d in 0..=maxd {
            if li >= 2 && d > 2 {
                continue;
            }
            chains.extend(cfg_chains(d, leaf));
        }
    }
    if !thorough {
        // depth 4: a fixed-size sample
        let all4 = cfg_chains(4, &leaves[0]);
        for _ in 0..600 {
            chains.push(all4[rng.below(all4.len())].clone());
        }
    }
    o.count_n("cfg-chain:attributes", chains.len() as u64);
    let mut sources = vec![];
    for chunk in chains.chunks(60) {
        sources.push(attr_source(vec![], chunk.iter().map(|m| vec![Attr::Normal(m.clone())]).collect(), &mut Rng(3)));
    }
    run_attr_sources(o, &sources, "cfg-chain");
    // (c) random attribute lists, random spacing
    let n = if thorough { 30000 } else { 1500 };
    let mut sources = vec![];
    for _ in 0..n {
        let inner: Vec<Attr> = (0..*rng.pick(&[0usize, 0, 0, 1, 2])).map(|_| if rng.chance(1, 3) { names_attr(rng, &pool) } else { random_attr(rng, &pool) }).collect();
        let items = rng.range(1, 8);
        let outer = (0..items)
            .map(|_| (0..*rng.pick(&[0usize, 1, 1, 1, 2, 2, 3, 5])).map(|_| if rng.chance(1, 3) { names_attr(rng, &pool) } else { random_attr(rng, &pool) }).collect())
            .collect();
        sources.push(attr_source(inner, outer, rng));
    }
    run_attr_sources(o, &sources, "attr-random");
    // (d) the attributes of the repository's own fixtures
    let progs = corpus::programs(&["tests/target", "tests/source"]);
    let take = if thorough { progs.len() } else { 300 };
    let texts: Vec<String> = progs.iter().filter(|p| p.src.contains("#[") || p.src.contains("#![")).take(take).map(|p| p.src.clone()).collect();
    let parsed: Vec<Option<hs::Parsed>> = par_map(&texts, |s| {
        let s = s.clone();
        std::panic::catch_unwind(move || hs::analyze(&s, KINDS)).unwrap_or(None)
    });
    for pa in parsed.iter().flatten() {
        o.count("attr-fixture:sources");
        if !pa.krate.attrs.is_empty() {
            attrs_cases(o, &pa.krate, "fixture");
        }
        for it in pa.items.iter().filter(|i| !i.attrs.attrs.is_empty()) {
            attrs_cases(o, &it.attrs, "fixture");
        }
    }
}

// ------------------------------------------------------------------------------------------------
// skip contexts

fn random_names(rng: &mut Rng, max: usize) -> Vec<String> {
    (0..rng.below(max + 1)).map(|_| rng.pick(NAMES).to_string()).collect()
}

fn part_contexts(o: &mut Outcome, rng: &mut Rng, thorough: bool) {
    for _ in 0..(if thorough { 20000 } else { 2000 }) {
        let n = rng.below(6);
        let mut ops = vec![];
        let mut enc = vec![];
        for _ in 0..n {
            match rng.below(8) {
                0 => { ops.push(hs::CtxOp::SkipAll); enc.push("a".to_string()); }
                1 => { ops.push(hs::CtxOp::UpdateAll); enc.push("u:*".to_string()); }
                2 | 3 | 4 => { let v = random_names(rng, 3); enc.push(format!("e:{}", names_enc(&v))); ops.push(hs::CtxOp::Extend(v)); }
                _ => { let v = random_names(rng, 3); enc.push(format!("u:{}", names_enc(&v))); ops.push(hs::CtxOp::UpdateValues(v)); }
            }
        }
        let script = if enc.is_empty() { "_".to_string() } else { enc.join(";") };
        let name = rng.pick(NAMES).to_string();
        let all = script.contains('a') && (script.starts_with("a") || script.contains(";a")) || script.contains("u:*");
        o.push("corr", "skip.ctx", format!("skip.ctx {} {}", script, name), bit(hs::name_ctx_skip(&ops, &name)), "random script".into(), n > 0);
        let show = match hs::name_ctx(&ops) { None => "*".to_string(), Some(v) => names_enc(&v) };
        o.push("corr", "skip.ctxshow", format!("skip.ctxshow {}", script), show, "random script".into(), n > 0);
        o.count(if all { "ctx:all" } else { "ctx:values" });
    }
    // the context a file starts with and the one a nested visitor gets
    let pool = path_pool();
    let cases: Vec<(Vec<String>, AttrSource, String)> = (0..(if thorough { 4000 } else { 500 }))
        .map(|_| {
            let sel: Vec<String> = (0..rng.below(4)).map(|_| if rng.chance(1, 6) { "*".to_string() } else { rng.pick(NAMES).to_string() }).collect();
            let inner: Vec<Attr> = (0..rng.below(3)).map(|_| if rng.chance(3, 4) { names_attr(rng, &pool) } else { random_attr(rng, &pool) }).collect();
            let outer: Vec<Attr> = (0..rng.below(3)).map(|_| if rng.chance(3, 4) { names_attr(rng, &pool) } else { random_attr(rng, &pool) }).collect();
            let src = attr_source(inner, vec![outer], rng);
            (sel, src, rng.pick(NAMES).to_string())
        })
        .collect();
    let answers: Vec<Option<([bool; 4], hs::Parsed)>> = par_map(&cases, |(sel, s, name)| {
        let mut config = Config::default();
        let val = format!("[{}]", sel.iter().map(|x| format!("\"{}\"", x)).collect::<Vec<_>>().join(","));
        config.override_value("skip_macro_invocations", &val);
        let (src, name) = (s.src.clone(), name.clone());
        std::panic::catch_unwind(move || Some((hs::file_ctx(&config, &src, &name)?, hs::analyze(&src, KINDS)?))).unwrap_or(None)
    });
    for ((sel, _s, name), a) in cases.iter().zip(answers.iter()) {
        let (ans, parsed) = match a { Some(x) => x, None => { o.count("filectx:source-does-not-parse"); continue; } };
        let sel_enc = names_enc(sel);
        let krate = enc_attrs(&parsed.krate.attrs.iter().map(|a| a.enc.clone()).collect::<Vec<_>>());
        o.push("corr", "skip.filectx", format!("skip.filectx {} {} {}", sel_enc, krate, name), bit(ans[0]), "from_psess + update_with_attrs(krate.attrs)".into(), ans[0] || !sel.is_empty());
        o.count(if ans[0] { "filectx:skip=1" } else { "filectx:skip=0" });
        // nested visitor: from_psess(sel) then update(parent), parent = file context + the item's names
        let star = sel.iter().any(|s| s == "*");
        let sel_names: Vec<String> = sel.iter().filter(|s| *s != "*").cloned().collect();
        for (which, idx) in [("m", 0usize), ("a", 1usize)] {
            let mut parent: Vec<String> = if which == "m" { sel_names.clone() } else { vec![] };
            parent.extend(parsed.krate.names[idx].iter().cloned());
            if let Some(it) = parsed.items.first() {
                parent.extend(it.attrs.names[idx].iter().cloned());
            }
            let parent_all = which == "m" && star;
            let mut script = vec![];
            if which == "m" {
                if star { script.push("a".to_string()); }
                script.push(format!("e:{}", names_enc(&sel_names)));
            }
            script.push(if parent_all { "u:*".to_string() } else { format!("u:{}", names_enc(&parent)) });
            o.push("corr", "skip.ctx(nested)", format!("skip.ctx {} {}", script.join(";"), name), bit(ans[2 + idx]), "from_context after update_with_attrs(item.attrs)".into(), ans[2 + idx]);
        }
    }
}

// ------------------------------------------------------------------------------------------------
// is_generated_file, trim

fn part_generated_trim(o: &mut Outcome, rng: &mut Rng, thorough: bool) {
    let markers = ["@generated", "// @generated", "/* @generated */ fn f() {}", "x@generatedy", "@generate", "@Generated", "@ generated", "@generated\r", "@@generated", "@gen\nerated"];
    let fillers = ["", "// a", "fn f() {}", "\r", " ", "@", "// generated"];
    // the marker on line 1..=8 (and absent), limit 0..=8, LF / CRLF / no final newline
    for line in 0..=9usize {
        for limit in 0..=9usize {
            for (mi, m) in markers.iter().enumerate() {
                for nl in ["\n", "\r\n"] {
                    for fin in [true, false] {
                        if !thorough && mi >= 4 && (nl == "\r\n" || !fin) {
                            continue;
                        }
                        let mut lines: Vec<String> = (0..9).map(|i| fillers[(i + mi) % fillers.len()].to_string()).collect();
                        if line >= 1 {
                            lines[line - 1] = m.to_string();
                        }
                        let mut text = lines.join(nl);
                        if fin {
                            text.push_str(nl);
                        }
                        let g = hs::is_generated_file(&text, limit);
                        o.push("corr", "skip.generated", format!("skip.generated {} {}", limit, enc_str(&text)), bit(g), format!("marker {:?} on line {} limit {}", m, line, limit), line >= 1);
                        o.count(if g { "generated:1" } else { "generated:0" });
                    }
                }
            }
        }
    }
    for _ in 0..(if thorough { 20000 } else { 2000 }) {
        let n = rng.below(8);
        let mut text = String::new();
        for _ in 0..n {
            text.push_str(*rng.pick(&["@generated", "@gener", "ated", "\n", "\r\n", "\n\n", "x", " ", "// ", "@"]));
        }
        let limit = rng.below(7);
        let g = hs::is_generated_file(&text, limit);
        o.push("corr", "skip.generated", format!("skip.generated {} {}", limit, enc_str(&text)), bit(g), "random".into(), text.contains("@generated"));
        o.count(if g { "generated:1" } else { "generated:0" });
    }
    // str::trim: every character that is white space for Rust or sits next to one, around a core
    let mut cands: Vec<char> = (0u32..0x3100).filter_map(char::from_u32).filter(|c| c.is_whitespace() || (*c as u32) < 0x80).collect();
    let ws: Vec<char> = (0u32..0x3100).filter_map(char::from_u32).filter(|c| c.is_whitespace()).collect();
    for w in &ws {
        for d in [-1i32, 1] {
            if let Some(c) = char::from_u32((*w as i32 + d) as u32) {
                cands.push(c);
            }
        }
    }
    cands.push('\u{feff}');
    cands.push('\u{200b}');
    cands.push('\u{180e}');
    for c in &cands {
        let t = format!("{}a{}b{}", c, c, c);
        o.push("corr", "skip.trim", format!("skip.trim {}", enc_str(&t)), enc_str(t.trim()), format!("U+{:04X}", *c as u32), c.is_whitespace());
    }
    for _ in 0..(if thorough { 10000 } else { 1000 }) {
        let n = rng.below(7);
        let t: String = (0..n).map(|_| *rng.pick(&[' ', '\n', '\t', '\r', 'a', '{', '\u{a0}', '\u{3000}', '\u{85}', '\u{200b}', 'é', '\u{2028}', '\u{b}', '\u{c}'])).collect();
        o.push("corr", "skip.trim", format!("skip.trim {}", enc_str(&t)), enc_str(t.trim()), "random".into(), t.trim().len() != t.len());
    }
}

// ------------------------------------------------------------------------------------------------
// the visitor's buffer operations against the Lean log machine

fn enc_state(st: &hs::BufState) -> String {
    let ranges = if st.skipped.is_empty() { "_".to_string() } else { st.skipped.iter().map(|(a, b)| format!("{}-{}", a, b)).collect::<Vec<_>>().join(",") };
    format!("{}:{}:{}:{}", enc_str(&st.buffer), st.last_pos, st.line_number, ranges)
}

/// (text, for each item: text offset where the node proper starts)
fn buffer_program(rng: &mut Rng) -> String {
    let mut s = String::new();
    let n = rng.range(1, 5);
    for i in 0..n {
        s.push_str(*rng.pick(&["", "", "\n", "\n\n\n", "  ", "\n// c\n", " /* c */ ", "\n\n  // c1\n\n// c2\n", "   \n"]));
        for _ in 0..*rng.pick(&[0usize, 1, 1, 1, 2, 3]) {
            s.push_str(*rng.pick(&["#[rustfmt::skip]", "#[rustfmt::skip]", "#[allow(x)]", "#[cfg_attr(a, rustfmt::skip)]", "#[derive(A,\n   B)]", "/// doc\n"]));
            s.push_str(*rng.pick(&["\n", "\n", " ", "\n\n", "\n    "]));
        }
        s.push_str(&match rng.below(6) {
            0 => format!("fn  f{}( ) {{   \n}}", i),
            1 => format!("struct  S{} ;", i),
            2 => format!("const  A{} :u32=1 ;", i),
            3 => format!("fn g{}() {{\n\n   let x = 1;   \n\n\n}}", i),
            4 => format!("mod m{} {{ fn  h( ) {{ }}   \n }}", i),
            _ => format!("fn k{}() {{}}", i),
        });
    }
    s.push_str(*rng.pick(&["", "\n", "\n\n", "  \n// end\n"]));
    s
}

fn part_buffer(o: &mut Outcome, rng: &mut Rng, thorough: bool) {
    struct Case {
        src: String,
        start: usize,
        indent: usize,
        cfg: Vec<(String, String)>,
        ops: Vec<hs::Op>,
        attr_his: Vec<Vec<usize>>, // per op (Skipped only)
    }
    let mut cases = vec![];
    for _ in 0..(if thorough { 25000 } else { 1500 }) {
        let src = buffer_program(rng);
        let parsed = match hs::analyze(&src, &[]) { Some(p) => p, None => { o.count("buffer:source-does-not-parse"); continue; } };
        let items = &parsed.items;
        let mut ops = vec![];
        let mut his = vec![];
        let first = if rng.chance(1, 6) && items.len() > 1 { rng.below(items.len()) } else { 0 };
        let start = if first == 0 { 0 } else { items[first].lo };
        for (i, it) in items.iter().enumerate().skip(first) {
            if rng.chance(1, 8) {
                ops.push(hs::Op::PushStr(rng.pick(&["\n", "x", "  ", "a\nb\n", ""]).to_string()));
                his.push(vec![]);
            }
            let ah: Vec<usize> = it.attrs.attrs.iter().map(|a| a.hi).collect();
            // where the node proper starts: after the last attribute and the blanks that follow it
            let after = it.attrs.attrs.iter().map(|a| a.hi).max().unwrap_or(it.lo);
            let main_lo = after + src[after..].len() - src[after..].trim_start().len();
            let (lo, hi) = match rng.below(24) {
                0 => (it.lo, src.len() + rng.range(1, 3)), // past the end of the text: the real code panics
                1 if i > 0 => (items[i - 1].lo, it.hi),     // goes back: inverted missing span
                2 => (it.lo, it.lo),
                3 => (it.lo.saturating_sub(rng.below(3)), (it.hi + rng.below(3)).min(src.len())), // blanks inside the span: trimmed
                _ => (it.lo, it.hi),
            };
            match rng.below(10) {
                0 => continue,
                1 => { ops.push(hs::Op::Missing(lo)); his.push(vec![]); }
                2 | 3 => { ops.push(hs::Op::Rewrite { lo, hi, text: None }); his.push(vec![]); }
                4 => { ops.push(hs::Op::Rewrite { lo, hi, text: Some(rng.pick(&["fn f() {}", "", "a\nb", "struct S;\n", "  x  "]).to_string()) }); his.push(vec![]); }
                5 => { ops.push(hs::Op::Skipped { attrs_of: None, lo, hi, main_lo: lo.max(main_lo.min(hi)) }); his.push(vec![]); }
                6 => { ops.push(hs::Op::Skipped { attrs_of: Some(i), lo, hi, main_lo: lo }); his.push(ah); }
                _ => { ops.push(hs::Op::Skipped { attrs_of: Some(i), lo, hi, main_lo: if main_lo <= hi && main_lo >= lo { main_lo } else { lo } }); his.push(ah); }
            }
        }
        if rng.chance(1, 3) {
            ops.push(hs::Op::Missing(src.len()));
            his.push(vec![]);
        }
        if ops.is_empty() {
            continue;
        }
        let cfg = match rng.below(5) {
            0 => vec![("blank_lines_upper_bound".to_string(), "0".to_string())],
            1 => vec![("blank_lines_upper_bound".to_string(), "3".to_string()), ("hard_tabs".to_string(), "true".to_string())],
            _ => vec![],
        };
        cases.push(Case { src, start, indent: *rng.pick(&[0usize, 0, 4, 8]), cfg, ops, attr_his: his });
    }
    // (expected answer, states reached, panicked) for every prefix
    let results: Vec<Vec<(usize, Option<Vec<hs::BufState>>)>> = par_map(&cases, |c| {
        let mut config = Config::default();
        for (k, v) in &c.cfg {
            config.override_value(k, v);
        }
        let mut res = vec![];
        for n in 1..=c.ops.len() {
            let (src, ops, config2) = (c.src.clone(), c.ops[..n].to_vec(), config.clone());
            let (start, indent) = (c.start, c.indent);
            let r = std::panic::catch_unwind(move || hs::run_ops(&src, &config2, start, indent, &ops)).unwrap_or(None);
            let stop = r.is_none();
            res.push((n, r));
            if stop {
                break;
            }
        }
        res
    });
    for (c, res) in cases.iter().zip(results.iter()) {
        let mut ws: Vec<String> = vec![];
        for (n, r) in res {
            if let Some(states) = r {
                ws = states.iter().map(|s| s.missing_text.clone()).collect();
            }
            let mut enc_ops = vec![];
            for (i, op) in c.ops[..*n].iter().enumerate() {
                let w = ws.get(i).map(|w| enc_str(w)).unwrap_or_else(|| "-".to_string());
                enc_ops.push(match op {
                    hs::Op::PushStr(s) => format!("s:{}", enc_str(s)),
                    hs::Op::Missing(e) => format!("m:{}:{}", w, e),
                    hs::Op::Rewrite { lo, hi, text } => format!("r:{}:{}:{}:{}", w, lo, hi, text.as_ref().map(|t| enc_str(t)).unwrap_or_else(|| "~".into())),
                    hs::Op::Skipped { lo, hi, main_lo, .. } => format!("k:{}:{}:{}:{}:{}", w, lo, hi, main_lo, if c.attr_his[i].is_empty() { "_".to_string() } else { c.attr_his[i].iter().map(|x| x.to_string()).collect::<Vec<_>>().join(".") }),
                });
            }
            let req = format!("skip.run {} {} {}", enc_str(&c.src), c.start, enc_ops.join(";"));
            let last_kind = match &c.ops[*n - 1] { hs::Op::PushStr(_) => "s", hs::Op::Missing(_) => "m", hs::Op::Rewrite { text: None, .. } => "r-none", hs::Op::Rewrite { .. } => "r-some", hs::Op::Skipped { .. } => "k" };
            match r {
                Some(states) => {
                    let st = states.last().unwrap();
                    let expect = enc_state(st);
                    o.push("corr", "skip.run", req, expect.clone(), format!("indent {} [{}]", c.indent, cfg_text(&c.cfg)), last_kind == "k" || last_kind == "r-none");
                    // the invariant the code asserts in format_file, on the state the real visitor reached
                    o.push("oracle", "skip.inv", format!("skip.inv {}", expect), "1".into(), "line_number == count_newlines(buffer) on the real visitor".into(), st.line_number > 0);
                    o.count(&format!("buffer:{}:ok", last_kind));
                    if last_kind == "k" {
                        o.count(if st.skipped.last().map(|(a, b)| a <= b).unwrap_or(false) { "buffer:k:range-nonempty" } else { "buffer:k:range-empty" });
                    }
                }
                None => {
                    o.push("corr", "skip.run", req, "panic".into(), format!("indent {} [{}]", c.indent, cfg_text(&c.cfg)), true);
                    o.count(&format!("buffer:{}:panic", last_kind));
                }
            }
        }
    }
}

// ------------------------------------------------------------------------------------------------
// generated programs: a skip attribute on every node kind, nested, in badly laid out surroundings

#[derive(Clone, Copy, PartialEq, Eq, Debug)]
enum Hole {
    Item,
    Stmt,
    ImplItem,
    TraitItem,
    Field,
    TupleField,
    Variant,
    Arm,
    LitField,
    Arg,
}

/// (name, the hole it is written in, the hole it offers, opening text, closing text); `N` = a fresh number
const CONTAINERS: &[(&str, Hole, Hole, &str, &str)] = &[
    ("mod", Hole::Item, Hole::Item, "mod  mN  {", "}"),
    ("mod", Hole::Stmt, Hole::Item, "mod  mN  {", "}"),
    ("fn", Hole::Item, Hole::Stmt, "fn  fN( a:u32 ) {", "}"),
    ("fn", Hole::Stmt, Hole::Stmt, "fn  fN( a:u32 ) {", "}"),
    ("method", Hole::ImplItem, Hole::Stmt, "fn  fN( &self ) {", "}"),
    ("default-method", Hole::TraitItem, Hole::Stmt, "fn  fN( &self ) {", "}"),
    ("impl", Hole::Item, Hole::ImplItem, "impl  TN {", "}"),
    ("impl", Hole::Stmt, Hole::ImplItem, "impl  TN {", "}"),
    ("trait", Hole::Item, Hole::TraitItem, "trait  TrN {", "}"),
    ("closure", Hole::Stmt, Hole::Stmt, "let  cN=| |  {", "} ;"),
    ("closure-arg", Hole::Stmt, Hole::Stmt, "gN( 1 ,move | x |  {", "} ) ;"),
    ("if", Hole::Stmt, Hole::Stmt, "if  cN  {", "}"),
    ("else", Hole::Stmt, Hole::Stmt, "if  cN  { } else  {", "}"),
    ("loop", Hole::Stmt, Hole::Stmt, "loop  {", "}"),
    ("block", Hole::Stmt, Hole::Stmt, "{", "}"),
    ("unsafe", Hole::Stmt, Hole::Stmt, "unsafe  {", "}"),
    ("arm-block", Hole::Stmt, Hole::Stmt, "match  xN { _  => {", "} }"),
    ("let-block", Hole::Stmt, Hole::Stmt, "let  vN={", "} ;"),
    ("struct", Hole::Item, Hole::Field, "struct  SN {", "}"),
    ("struct", Hole::Stmt, Hole::Field, "struct  SN {", "}"),
    ("union", Hole::Item, Hole::Field, "union  UN {", "}"),
    ("tuple-struct", Hole::Item, Hole::TupleField, "struct  SN (", ") ;"),
    ("enum", Hole::Item, Hole::Variant, "enum  EN {", "}"),
    ("enum", Hole::Stmt, Hole::Variant, "enum  EN {", "}"),
    ("struct-variant", Hole::Variant, Hole::Field, "VN {", "}"),
    ("tuple-variant", Hole::Variant, Hole::TupleField, "VN (", ")"),
    ("match", Hole::Stmt, Hole::Arm, "match  xN {", "}"),
    ("let-match", Hole::Stmt, Hole::Arm, "let  vN=match  xN {", "} ;"),
    ("struct-lit", Hole::Stmt, Hole::LitField, "let  sN=SN {", "} ;"),
    ("call", Hole::Stmt, Hole::Arg, "gN(", ") ;"),
    ("method-call", Hole::Stmt, Hole::Arg, "let  rN=xN . mN(", ") ;"),
    ("array", Hole::Stmt, Hole::Arg, "let  aN=[", "] ;"),
    ("tuple", Hole::Stmt, Hole::Arg, "let  tN=(", ") ;"),
    ("macro-args", Hole::Stmt, Hole::Arg, "gN!(", ") ;"),
    ("vec-macro", Hole::Stmt, Hole::Arg, "let  wN=vec![", "] ;"),
    // (a macro_rules! body is not a container here: when the body cannot be laid out the definition is
    // copied with trailing blanks removed, skipped items included: probe C04-macro-def-fallback)
];

/// (kind, hole, node text); `ID` = the node's unique identifier. Multi-line texts carry trailing
/// blanks, over-long lines, comments and strings: all of it must survive.
const NODES: &[(&str, Hole, &str)] = &[
    ("fn", Hole::Item, "fn  ID( a:u32,b :u32 )->u32 {   a+b   }"),
    ("fn", Hole::Item, "fn  ID( ) {   \n        let  x=[1 ,2 ,  3] ;   \n  let yyyyyyyyyyyyyyyyyyyyyyyyyyyyyyyyyyyyyyyyyyyyyyyyyyyyyyyyyyyyyyyyyyyyyyyyyyyyyyyyyyyyyyyyyyyyyyyyyyyyyyyyyyyyyyyyyyyyyyyyyyyyyy = \"a   b\" ;\n\n\n\n   // c   \n}"),
    ("fn-decl", Hole::Item, "fn  ID( a:u32 ) ;"),
    ("struct", Hole::Item, "struct  ID { a:u32,   b :u32 }"),
    ("struct", Hole::Item, "struct  ID {\n a:u32,   \n\n\n        b :u32 /* c */ }"),
    ("tuple-struct", Hole::Item, "struct  ID( u32 ,u32 ) ;"),
    ("unit-struct", Hole::Item, "struct  ID ;"),
    ("enum", Hole::Item, "enum  ID { A,   B( u32 ) }"),
    ("union", Hole::Item, "union  ID { a:u32,   b :u32 }"),
    ("impl", Hole::Item, "impl  ID { fn  m( ) { } }"),
    ("impl-trait", Hole::Item, "impl  Clone  for  ID { fn  clone( &self )->Self { ID } }"),
    ("trait", Hole::Item, "trait  ID { fn  m( ) ; }"),
    ("trait-alias", Hole::Item, "trait  ID=Clone+Copy ;"),
    ("mod-inline", Hole::Item, "mod  ID { fn  m( ) { } }"),
    ("mod-inline", Hole::Item, "mod  ID {\n\n\n fn  m( ) { }   \n      use  a :: b ;\n}"),
    ("const", Hole::Item, "const  ID :u32=1 ;"),
    ("static", Hole::Item, "static  ID :u32=1 ;"),
    ("use", Hole::Item, "use  ID::{b ,  a} ;"),
    ("extern-crate", Hole::Item, "extern  crate  ID ;"),
    ("type", Hole::Item, "type  ID=Vec< u32 > ;"),
    ("macro_rules", Hole::Item, "macro_rules!  ID { ( $a:expr )=>{ $a+1 } }"),
    ("macro-item-brace", Hole::Item, "ID!{ a ,  b }"),
    ("macro-item-paren", Hole::Item, "ID!( a ,  b ) ;"),
    ("extern-block", Hole::Item, "extern  \"C\" { fn  ID( a:u32 ) ; }"),
    ("fn", Hole::ImplItem, "fn  ID( a:u32 ) {   let  x=1;   }"),
    ("fn", Hole::ImplItem, "pub  fn  ID( &self ) {   \n let  x=1;   \n\n\n }"),
    ("const", Hole::ImplItem, "const  ID :u32=1 ;"),
    ("type", Hole::ImplItem, "type  ID=Vec< u32 > ;"),
    ("macro", Hole::ImplItem, "ID!{ a ,  b }"),
    ("fn-default", Hole::TraitItem, "fn  ID( a:u32 ) {   let  x=1;   }"),
    ("fn-required", Hole::TraitItem, "fn  ID( a:u32 ) ;"),
    ("const", Hole::TraitItem, "const  ID :u32 ;"),
    ("type", Hole::TraitItem, "type  ID :Clone ;"),
    ("let", Hole::Stmt, "let  ID=[1 ,2 ,  3] ;"),
    ("let", Hole::Stmt, "let  ID  :  Vec< u32 >=vec![\n 1 ,2 ,   \n\n  3 ] ;"),
    ("let-else", Hole::Stmt, "let  Some( ID )=x  else { return ; } ;"),
    ("call-stmt", Hole::Stmt, "ID( 1 ,2 ,  3 ) ;"),
    ("method-chain-stmt", Hole::Stmt, "ID . a( 1 ,2 ) . b( ) ;"),
    ("if-stmt", Hole::Stmt, "if  ID { a( 1 ,2 ) } else { b( ) }"),
    ("match-stmt", Hole::Stmt, "match  ID { 1=>2 ,  _=>3 }"),
    ("loop-stmt", Hole::Stmt, "loop { ID( 1 ,2 ) ; }"),
    ("for-stmt", Hole::Stmt, "for  i  in  ID( 1 ,2 ) { }"),
    ("while-stmt", Hole::Stmt, "while  ID( 1 ,2 ) { }"),
    ("block-stmt", Hole::Stmt, "{ ID( 1 ,2 ) ; }"),
    ("unsafe-stmt", Hole::Stmt, "unsafe { ID( 1 ,2 ) ; }"),
    ("return-stmt", Hole::Stmt, "return  ID( 1 ,2 ) ;"),
    ("macro-stmt-paren", Hole::Stmt, "ID!( 1 ,2 ,  3 ) ;"),
    ("macro-stmt-bracket", Hole::Stmt, "ID ! [ 1 ,2 ,  3 ] ;"),
    ("macro-stmt-brace", Hole::Stmt, "ID ! { 1 ,2 ,  3 }"),
    ("closure-stmt", Hole::Stmt, "let  ID=| a |  { a+1 } ;"),
    ("field", Hole::Field, "ID :  u32"),
    ("field", Hole::Field, "pub  ID :  Vec< u32 ,\n    u32 >"),
    ("tuple-field", Hole::TupleField, "ID< u32 ,u32 >"),
    ("variant-struct", Hole::Variant, "ID { a :  u32 }"),
    ("variant-tuple", Hole::Variant, "ID ( u32 ,  u32 )"),
    ("variant-discr", Hole::Variant, "ID  =  1"),
    ("variant-unit", Hole::Variant, "ID"),
    ("arm", Hole::Arm, "1  =>  ID( 1 ,2 )"),
    ("arm-block", Hole::Arm, "2  =>  { ID( 1 ,2 ) }"),
    ("arm-guard", Hole::Arm, "Some( x )  if  x>1  =>  ID( x )"),
    ("arm-or", Hole::Arm, "3 |4  =>  ID"),
    ("lit-field", Hole::LitField, "ID :  f( 1 ,2 )"),
    ("expr-call", Hole::Arg, "ID( 1 ,2 )"),
    ("expr-array", Hole::Arg, "[ID ,2 ,  3]"),
    ("expr-closure", Hole::Arg, "| a |  { a+ID }"),
    ("expr-method", Hole::Arg, "ID . a( 1 ,2 )"),
    ("expr-struct", Hole::Arg, "ID { a :1 ,b:2 }"),
    ("expr-macro", Hole::Arg, "ID!( 1 ,2 )"),
    ("expr-block", Hole::Arg, "{ ID( 1 ,2 ) }"),
    ("expr-match", Hole::Arg, "match  ID { 1=>2 ,  _=>3 }"),
];

/// node kinds on which the pinned tree does not honour the attribute (enumerated probes, not generated)
const DIRTY_NODES: &[(&str, &str, &str)] = &[
    ("foreign-fn", "extern \"C\" {\n    ATTR\n    fn  ID( a:u32 ) ;\n}\n", "fn  ID( a:u32 ) ;"),
    ("foreign-static", "extern \"C\" {\n    ATTR\n    static  ID :u32 ;\n}\n", "static  ID :u32 ;"),
    ("foreign-type", "extern \"C\" {\n    ATTR\n    type  ID ;\n}\n", "type  ID ;"),
];

/// a badly laid out neighbour for each hole (`NB` = its unique identifier) and the element separator
fn neighbour(h: Hole) -> (&'static str, &'static str) {
    match h {
        Hole::Item => ("fn  NB( a:u32 ) {   }", ""),
        Hole::Stmt => ("let  NB=f( 1 ,2 ) ;", ""),
        Hole::ImplItem => ("fn  NB( a:u32 ) {   }", ""),
        Hole::TraitItem => ("fn  NB( a:u32 ) ;", ""),
        Hole::Field => ("NB :  u32", " ,"),
        Hole::TupleField => ("NB< u32 ,u32 >", " ,"),
        Hole::Variant => ("NB ( u32 ,  u32 )", " ,"),
        Hole::Arm => ("NB  =>  { 1 }", " ,"),
        Hole::LitField => ("NB :  f( 1 ,2 )", " ,"),
        Hole::Arg => ("NB( 1 ,2 )", " ,"),
    }
}

/// spellings the code accepts (model: `Accepted`), with their meta encoding
const SPELLINGS: &[(&str, &str)] = &[
    ("#[rustfmt::skip]", "w:rustfmt.skip"),
    ("#[rustfmt::skip]", "w:rustfmt.skip"),
    ("#[rustfmt::skip]", "w:rustfmt.skip"),
    ("#[rustfmt_skip]", "w:rustfmt_skip"),
    ("# [ rustfmt :: skip ]", "w:rustfmt.skip"),
    ("#[cfg_attr(rustfmt, rustfmt::skip)]", "l:cfg_attr(w:rustfmt|w:rustfmt.skip)"),
    ("#[cfg_attr(rustfmt, rustfmt_skip)]", "l:cfg_attr(w:rustfmt|w:rustfmt_skip)"),
    ("#[cfg_attr(any(), rustfmt::skip)]", "l:cfg_attr(l:any()|w:rustfmt.skip)"),
    ("#[cfg_attr(feature = \"x\", rustfmt::skip,)]", "l:cfg_attr(n:feature|w:rustfmt.skip)"),
    ("#[cfg_attr(a, cfg_attr(b, rustfmt::skip))]", "l:cfg_attr(w:a|l:cfg_attr(w:b|w:rustfmt.skip))"),
    ("#[cfg_attr(all(a, b), cfg_attr(c, cfg_attr(d, rustfmt_skip)))]", "l:cfg_attr(l:all(w:a|w:b)|l:cfg_attr(w:c|l:cfg_attr(w:d|w:rustfmt_skip)))"),
];

/// spellings that look similar and are NOT accepted: the node must be reformatted (control)
const NON_SPELLINGS: &[&str] = &["#[allow(rustfmt_skip)]", "#[cfg_attr(rustfmt, allow(unused))]", "#[cfg(rustfmt)]", "#[doc = \"rustfmt::skip\"]", "/// #[rustfmt::skip]\n", "#[clippy::skip]"];

#[derive(Clone, Debug)]
struct SkipProgram {
    src: String,
    node: String,
    /// items and statements: the text from the first attribute (doc comment) of the node to its last token
    full: Option<String>,
    kind: String,
    hole: Hole,
    chain: Vec<&'static str>,
    spelling: String,
    honoured_expected: bool,
    before_id: Option<String>,
    after_id: Option<String>,
    /// badly laid out neighbour texts that must not survive
    bad_neighbours: Vec<String>,
}

fn junk_indent(rng: &mut Rng) -> String {
    match rng.below(5) {
        0 => String::new(),
        1 => " ".repeat(rng.range(1, 9)),
        2 => "\t".to_string(),
        _ => "    ".to_string(),
    }
}

/// (text, needs a line break after it, is a doc comment, is a plain comment)
const EXTRA_ATTRS: &[(&str, bool, bool, bool)] = &[
    ("#[allow( dead_code )]", false, false, false),
    ("#[cfg( test )]", false, false, false),
    ("#[cfg(any(feature = \"small-tables\",\n                  feature = \"tiny-tables\"))]", false, false, false),
    ("#[cfg_attr(feature = \"a\",\n   allow( unused ))]", false, false, false),
    ("#[doc  =  \"x  y\"]", false, false, false),
    ("/// doc   comment", true, true, false),
    ("/// Layout:\n        ///     row 0: 1 2\n   ///     row 1: 3 4", true, true, false),
    ("/** block  doc */", false, true, false),
    ("// plain   comment", true, false, true),
];

/// The attributes of a skipped node, from the first one to just before the node's first token: the skip
/// spelling among 0..3 further attributes (one-line, multi-line, doc-comment lines, doc attribute) and
/// possibly a plain comment line, each on its own badly indented line or on the line of the next one.
/// `single_line`: everything on the line of the first attribute (no doc comments, no multi-line attribute),
/// then the node on the same or on the next line.
fn attr_block(rng: &mut Rng, spelling: &str, can_doc: bool, single_line: bool) -> String {
    if spelling.starts_with("///") {
        // (a look-alike control that is a doc comment)
        return format!("{}{}", spelling, junk_indent(rng));
    }
    let mut parts: Vec<(String, bool)> = vec![];
    let n = *rng.pick(&[0usize, 0, 1, 1, 2, 3]);
    let mut plain_seen = false;
    for _ in 0..n {
        let (t, nl, doc, plain) = *rng.pick(EXTRA_ATTRS);
        if (doc && !can_doc) || (plain && plain_seen) { continue; }
        if single_line && (doc || plain || t.contains('\n')) { continue; }
        plain_seen |= plain;
        parts.push((t.to_string(), nl));
    }
    let at = rng.below(parts.len() + 1);
    parts.insert(at, (spelling.to_string(), false));
    if parts[0].0.starts_with("// ") {
        // a comment before the first attribute is not part of the node
        parts.swap(0, at);
    }
    let mut block = String::new();
    for (t, nl) in &parts {
        block.push_str(t);
        if single_line {
            block.push(' ');
        } else if *nl {
            block.push_str(*rng.pick(&["\n", "\n", "  \n"]));
            block.push_str(&junk_indent(rng));
        } else {
            let sep = *rng.pick(&["\n", "\n", "\n", "\n", " ", "  \n", "\n\n"]);
            block.push_str(sep);
            if sep != " " { block.push_str(&junk_indent(rng)); }
        }
    }
    if single_line && rng.chance(2, 3) {
        block.pop();
        block.push('\n');
        block.push_str(&junk_indent(rng));
    }
    block
}

fn chain_to(rng: &mut Rng, target: Hole, depth: usize) -> Option<Vec<usize>> {
    // random walk forward from the root Item hole
    'outer: for _ in 0..200 {
        let mut cur = Hole::Item;
        let mut chain = vec![];
        for step in 0..depth {
            let last = step + 1 == depth;
            let cands: Vec<usize> = (0..CONTAINERS.len()).filter(|i| CONTAINERS[*i].1 == cur && (!last || CONTAINERS[*i].2 == target)).collect();
            if cands.is_empty() {
                continue 'outer;
            }
            let c = *rng.pick(&cands);
            chain.push(c);
            cur = CONTAINERS[c].2;
        }
        if cur == target {
            return Some(chain);
        }
    }
    None
}

fn skip_program(rng: &mut Rng, counter: &mut usize, node_ix: usize, depth: usize, accepted: bool) -> Option<SkipProgram> {
    let (kind, hole, text) = NODES[node_ix];
    let mut depth = depth;
    let chain = loop {
        if let Some(c) = chain_to(rng, hole, depth) { break c; }
        depth += 1;
        if depth > 5 { return None; }
    };
    let mut fresh = |prefix: &str| { *counter += 1; format!("{}{}x", prefix, counter) };
    let id = fresh("zq");
    let node = text.replace("ID", &id);
    let can_doc = !matches!(hole, Hole::Arg | Hole::Stmt | Hole::Arm | Hole::LitField);
    let spelling = if accepted {
        rng.pick(SPELLINGS).0
    } else {
        let mut s = *rng.pick(NON_SPELLINGS);
        while s.starts_with("///") && !can_doc { s = *rng.pick(NON_SPELLINGS); }
        s
    };
    let mut src = String::new();
    let mut bad = vec![];
    // an item above everything, so that a top-level node is not the first thing in the file
    let mut closers: Vec<(String, &'static str)> = vec![];
    let mut cur = Hole::Item;
    for (level, c) in chain.iter().enumerate() {
        let (_, _, offers, open, close) = CONTAINERS[*c];
        // neighbours of the container at this level
        let (nb, sep) = neighbour(cur);
        if rng.chance(2, 3) {
            let t = nb.replace("NB", &fresh("nb"));
            src.push_str(&format!("{}{}{}\n", junk_indent(rng), t, sep));
            bad.push(t);
        }
        let n = level + 1;
        src.push_str(&format!("{}{}\n", junk_indent(rng), open.replace('N', &format!("{}", n))));
        closers.push((close.to_string(), sep));
        cur = offers;
    }
    let (nb, sep) = neighbour(hole);
    // a skipped import / extern crate in the middle of a run of reorderable declarations of its own kind: the run is
    // sorted and normalised around it, the skipped declaration must neither move nor be rewritten
    let same_kind_run = hole == Hole::Item && matches!(kind, "use" | "extern-crate") && rng.chance(2, 3);
    let nb = match (same_kind_run, kind) {
        (true, "use") => *rng.pick(&["use  NB::{d ,  c} ;", "use  zzNB::{d ,  c} ;", "pub  use  NB :: c ;"]),
        (true, _) => *rng.pick(&["extern  crate  NB ;", "extern  crate  zzNB ;"]),
        _ => nb,
    };
    let n_before = if same_kind_run { rng.range(1, 3) } else { rng.below(3) };
    let n_after = if kind == "tail-expr" { 0 } else { rng.below(3) };
    let mut before_id = None;
    let mut after_id = None;
    for _ in 0..n_before {
        let bid = fresh("nb");
        let t = nb.replace("NB", &bid);
        src.push_str(&format!("{}{}{}{}", junk_indent(rng), t, sep, if same_kind_run { "\n" } else { *rng.pick(&["\n", "\n\n\n", "   \n"]) }));
        bad.push(t);
        before_id = Some(bid);
    }
    // the attributes: the skip spelling among 0-2 others, on their own lines or on the node's line; for items,
    // statements and impl / trait items: among 0-3 further attribute lines, multi-line attributes, doc-comment
    // lines, a plain comment line (`attr_block`)
    let mut full = None;
    if matches!(hole, Hole::Item | Hole::Stmt | Hole::ImplItem | Hole::TraitItem) && (accepted || !spelling.starts_with("///")) {
        let block = attr_block(rng, spelling, hole != Hole::Stmt, false);
        src.push_str(&junk_indent(rng));
        if matches!(hole, Hole::Item | Hole::Stmt) {
            // visit_item / visit_stmt copy the whole span, attributes included, as it is written
            full = Some(format!("{}{}", block, node));
        }
        src.push_str(&block);
    } else {
        let others = ["#[allow( dead_code )]", "#[cfg( test )]", "/// doc  comment\n"];
        let mut attrs: Vec<String> = vec![];
        for _ in 0..*rng.pick(&[0usize, 0, 0, 1, 1, 2]) {
            let o = *rng.pick(&others);
            if o.starts_with("///") && !can_doc { continue; }
            attrs.push(o.to_string());
        }
        let at = rng.below(attrs.len() + 1);
        attrs.insert(at, spelling.to_string());
        let ind = junk_indent(rng);
        src.push_str(&ind);
        for a in &attrs {
            src.push_str(a);
            if !a.ends_with('\n') {
                src.push_str(*rng.pick(&["\n", "\n", "\n", " ", "  \n", "\n\n"]));
            }
            src.push_str(&junk_indent(rng));
        }
    }
    src.push_str(&node);
    src.push_str(sep);
    src.push_str(*rng.pick(&["\n", "\n", "   \n", "\n\n\n"]));
    for i in 0..n_after {
        let aid = fresh("nb");
        let t = nb.replace("NB", &aid);
        src.push_str(&format!("{}{}{}\n", junk_indent(rng), t, sep));
        bad.push(t);
        if i == 0 { after_id = Some(aid); }
    }
    for (close, sep) in closers.iter().rev() {
        // the separator belongs to the hole the container sits in
        let _ = sep;
        src.push_str(&format!("{}{}\n", junk_indent(rng), close));
    }
    // separators after containers that are list elements themselves (struct-variant in an enum)
    // are optional in Rust for the last element, which a container always is here
    if rng.chance(1, 2) {
        let t = "fn  NB( a:u32 ) {   }".replace("NB", &fresh("nb"));
        src.push_str(&format!("{}\n", t));
        bad.push(t);
    }
    Some(SkipProgram { src, node, full, kind: kind.to_string(), hole, chain: chain.iter().map(|c| CONTAINERS[*c].0).collect(), spelling: spelling.to_string(), honoured_expected: accepted, before_id, after_id, bad_neighbours: bad })
}

fn e2e_config(rng: &mut Rng, thorough: bool) -> Vec<(String, String)> {
    let mut cfg: Vec<(String, String)> = vec![];
    let w = if thorough && rng.chance(1, 2) { rng.range(20, 200) } else { *rng.pick(WIDTHS_QUICK) };
    cfg.push(("max_width".into(), w.to_string()));
    let n = *rng.pick(&[0usize, 0, 1, 1, 2, 3]);
    for (k, v) in random_option_set(rng, n) {
        if k == "max_width" { continue; }
        cfg.push((k, v));
    }
    cfg
}

/// line endings are converted over the whole text after formatting (C08's subject): compare modulo them
fn canon_newlines(out: &str, cfg: &[(String, String)]) -> String {
    if cfg_get(cfg, "newline_style") == Some("Windows") { out.replace("\r\n", "\n") } else { out.to_string() }
}

fn count_occ(hay: &str, needle: &str) -> usize {
    if needle.is_empty() { 0 } else { hay.matches(needle).count() }
}

fn part_e2e_nodes(o: &mut Outcome, rng: &mut Rng, thorough: bool) {
    let mut counter = 0usize;
    let mut progs: Vec<(SkipProgram, Vec<(String, String)>)> = vec![];
    // every node kind x depth 0..3 (x repetitions with different spellings / surroundings / options)
    let reps = if thorough { 150 } else { 16 };
    for ix in 0..NODES.len() {
        for depth in 0..=3 {
            for _ in 0..reps {
                if let Some(pr) = skip_program(rng, &mut counter, ix, depth, true) {
                    progs.push((pr, e2e_config(rng, thorough)));
                }
            }
        }
        // control: a look-alike attribute must not protect the node
        let d = rng.below(3);
        if let Some(pr) = skip_program(rng, &mut counter, ix, d, false) {
            progs.push((pr, vec![]));
        }
    }
    let jobs_v: Vec<Job> = progs.iter().map(|(p, cfg)| Job { src: p.src.clone(), cfg: cfg.clone(), file_lines: None }).collect();
    let res = pool::run_jobs(&jobs_v, jobs(), Duration::from_secs(if thorough { 20 } else { 10 }));
    for ((pr, cfg), r) in progs.iter().zip(res.iter()) {
        let tag = format!("{:?}/{}", pr.hole, pr.kind);
        match &r.status {
            Status::Timeout => { o.count("e2e:timeout"); continue; }
            Status::Ok => {}
            other => {
                o.direct_failures.push(json!({"sig": format!("c04:e2e-run-failed:{}", tag), "what": format!("the formatter did not finish on a generated program: {:?}", other), "src": pr.src, "config": cfg_text(cfg)}));
                continue;
            }
        }
        if r.flags[1] || r.out.is_empty() {
            // the generator wrote something rustc does not parse: not a case
            o.count(&format!("e2e:not-parsed:{}", tag));
            o.sample(json!({"not_parsed": pr.src}));
            continue;
        }
        let out = canon_newlines(&r.out, cfg);
        o.direct_evals += 1;
        let occ = count_occ(&out, &pr.node);
        if !pr.honoured_expected && pr.kind == "variant-unit" {
            continue; // nothing in a bare identifier can be re-laid out
        }
        if !pr.honoured_expected {
            // control: the node is reformatted
            o.count(if occ == 0 { "e2e:control:reformatted" } else { "e2e:control:unchanged" });
            if occ != 0 {
                o.direct_failures.push(json!({"sig": format!("c04:control-node-not-reformatted:{}", tag), "what": "a node carrying an attribute that is not a skip attribute was left as written: the search would not notice a skip that is not honoured", "attr": pr.spelling, "src": pr.src, "out": r.out}));
            }
            continue;
        }
        o.count(&format!("e2e:node:{}", tag));
        o.count(&format!("e2e:depth:{}", pr.chain.len()));
        o.direct_distinct += 1;
        let mut problems = vec![];
        if occ != 1 {
            problems.push(format!("the node's bytes occur {} times in the output", occ));
        } else {
            let pos = out.find(&pr.node).unwrap();
            let reorder = cfg_get(cfg, "reorder_impl_items") == Some("true") && pr.hole == Hole::ImplItem;
            if !reorder {
                if let Some(b) = &pr.before_id {
                    match out.find(b.as_str()) { Some(pb) if pb < pos => {}, _ => problems.push(format!("the neighbour {} is not before the node", b)) }
                }
                if let Some(a) = &pr.after_id {
                    match out.find(a.as_str()) { Some(pa) if pa > pos => {}, _ => problems.push(format!("the neighbour {} is not after the node", a)) }
                }
            }
        }
        if let Some(full) = &pr.full {
            o.count(&format!("e2e:full:{:?}:attr-lines={}", pr.hole, full[..full.len() - pr.node.len()].matches('\n').count().min(4)));
            o.direct_evals += 1;
            if count_occ(&out, full) != 1 {
                problems.push(format!("the node's bytes WITH its attributes and doc comments (from the first attribute to the last token) occur {} times in the output", count_occ(&out, full)));
            }
        }
        let unformatted: Vec<&String> = pr.bad_neighbours.iter().filter(|t| out.contains(t.as_str())).collect();
        if !unformatted.is_empty() {
            // surroundings left as written: the run did not format at all (not C04's statement, but the
            // case would be vacuous): counted, reported only if nothing was formatted
            o.count("e2e:some-neighbour-unformatted");
            if std::env::var("C04_DEBUG").is_ok() { eprintln!("UNFORMATTED {:?}\n--- src\n{}\n--- out\n{}\n", unformatted, pr.src, r.out); }
            // (at narrow widths a statement that does not fit is left as written by design)
            if unformatted.len() == pr.bad_neighbours.len() {
                o.count("e2e:no-neighbour-reformatted");
            }
        }
        if !problems.is_empty() {
            o.direct_failures.push(json!({"sig": format!("c04:skipped-node-not-verbatim:{}", tag), "what": problems.join("; "), "node": pr.node, "node_with_attributes": pr.full, "attr": pr.spelling, "chain": pr.chain, "config": cfg_text(cfg), "src": pr.src, "out": r.out}));
        }
        if o.samples.len() < 3 {
            o.sample(json!({"e2e": tag, "chain": pr.chain, "attr": pr.spelling, "config": cfg_text(cfg), "src": pr.src}));
        }
    }
}

// ------------------------------------------------------------------------------------------------
// skipped nodes directly inside `macro_rules!` bodies that rustfmt formats
//
// A macro arm's body is formatted by a nested formatter that starts at indentation 0 and the arm's
// indentation is then put in front of every line EXCEPT the lines of a recorded skipped range
// (`MacroBranch::rewrite`, model RF/Model/MacroBody.lean): the second reader of `skipped_range`.  The
// skipped node's bytes, attribute and doc-comment lines included, survive iff the recorded range covers
// its verbatim copy.  Only nodes reached by the nested formatter's TOP-LEVEL visitor are generated
// (directly in the body, in inline modules, in the bodies of fns of the body): the ranges of nested
// visitors (impl / trait bodies, closures, inner blocks) are lost or unshifted on the pinned tree
// (probe C04-macro-body-nested-visitor), and a skipped STATEMENT keeps only its first attribute line
// out of the range on purpose (tests/target/issue-3105.rs), so that further attribute lines of a
// statement are re-indented (probe C04-macro-body-stmt-attrs): statements get one attribute line.

struct BodyProgram {
    src: String,
    /// from the first attribute of the skipped node to its last token
    full: String,
    kind: String,
    shape: String,
    accepted: bool,
    /// badly laid out neighbours inside the same macro body: when they all survive the body was not
    /// formatted at all (it does not fit, format_macro_bodies=false ...): the case is vacuous
    body_bad: Vec<String>,
    cfg: Vec<(String, String)>,
}

fn body_nodes(hole: Hole) -> Vec<usize> {
    (0..NODES.len()).filter(|i| NODES[*i].1 == hole && NODES[*i].2.lines().all(|l| l.len() <= 60) && NODES[*i].0 != "macro_rules").collect()
}

fn macro_body_program(rng: &mut Rng, counter: &mut usize, thorough: bool, accepted: bool) -> Option<BodyProgram> {
    let mut fresh = |prefix: &str| { *counter += 1; format!("{}{}x", prefix, counter) };
    let stmt_body = rng.chance(1, 2);
    // wrappers inside the body that the same visitor walks: inline modules (item bodies), then possibly a fn
    let mut wrappers: Vec<&str> = vec![];
    if !stmt_body {
        for _ in 0..*rng.pick(&[0usize, 0, 0, 1, 1, 2]) { wrappers.push("mod"); }
    }
    if rng.chance(1, 5) { wrappers.push("fn"); }
    let in_stmt_position = stmt_body || wrappers.last() == Some(&"fn");
    let node_hole = if in_stmt_position && rng.chance(2, 3) { Hole::Stmt } else { Hole::Item };
    let ix = *rng.pick(&body_nodes(node_hole));
    let (kind, _, text) = NODES[ix];
    let id = fresh("zq");
    // sometimes the node's name is a macro variable
    let var = accepted && matches!(kind, "fn" | "struct" | "enum" | "const" | "static" | "let" | "unit-struct" | "tuple-struct" | "union" | "type") && rng.chance(1, 3);
    let node = if var { text.replace("ID", &format!("${}", id)) } else { text.replace("ID", &id) };
    let spelling = if accepted { rng.pick(SPELLINGS).0 } else { *rng.pick(&["#[allow(rustfmt_skip)]", "#[cfg_attr(rustfmt, allow(unused))]", "#[clippy::skip]"]) };
    // a statement: every attribute on the first line; an item: attribute lines, multi-line attributes, doc lines
    // (a macro call with attributes in statement position is a statement, StmtKind::MacCall, not an item)
    let as_stmt = node_hole == Hole::Stmt || (in_stmt_position && kind.starts_with("macro-item"));
    let block = attr_block(rng, spelling, !as_stmt, as_stmt);
    let full = format!("{}{}", block, node);
    // the body
    let (nb, _) = neighbour(if stmt_body { Hole::Stmt } else { Hole::Item });
    let mut body = String::new();
    let mut body_bad = vec![];
    let n_before = rng.below(3);
    let n_after = if n_before == 0 { rng.range(1, 3) } else { rng.below(3) };
    for _ in 0..n_before {
        let t = nb.replace("NB", &fresh("nb"));
        body.push_str(&format!("{}{}{}", junk_indent(rng), t, *rng.pick(&["\n", "\n\n\n", "   \n"])));
        body_bad.push(t);
    }
    let mut closers = vec![];
    for (k, w) in wrappers.iter().enumerate() {
        match *w {
            "mod" => { body.push_str(&format!("{}mod  w{}  {{\n", junk_indent(rng), k)); closers.push("}"); }
            _ => { body.push_str(&format!("{}fn  w{}( ) {{\n", junk_indent(rng), k)); closers.push("}"); }
        }
    }
    if !wrappers.is_empty() && rng.chance(1, 2) {
        let (nb2, _) = neighbour(if wrappers.last() == Some(&"fn") { Hole::Stmt } else { Hole::Item });
        let t = nb2.replace("NB", &fresh("nb"));
        body.push_str(&format!("{}{}\n", junk_indent(rng), t));
        body_bad.push(t);
    }
    body.push_str(&junk_indent(rng));
    body.push_str(&full);
    body.push_str(*rng.pick(&["\n", "\n", "   \n", "\n\n\n"]));
    for c in closers.iter().rev() {
        body.push_str(&format!("{}{}\n", junk_indent(rng), c));
    }
    for _ in 0..n_after {
        let t = nb.replace("NB", &fresh("nb"));
        body.push_str(&format!("{}{}\n", junk_indent(rng), t));
        body_bad.push(t);
    }
    // the definition
    let mname = fresh("mr");
    let matcher = if var { format!("( ${}:ident )", id) } else { rng.pick(&["( )", "( $a:expr )", "( $a:expr , $b:ty )", "( x )"]).to_string() };
    let decl2 = !var && rng.chance(1, 8);
    let mut def = String::new();
    if decl2 {
        def.push_str(&format!("{}macro  {}{} {{\n{}{}}}\n", junk_indent(rng), mname, matcher, body, junk_indent(rng)));
    } else {
        def.push_str(&format!("{}macro_rules!  {} {{\n", junk_indent(rng), mname));
        let other_arm = |rng: &mut Rng, k: usize| format!("{}( other{} ) => {{ fn  o{}( ) {{ }} }} ;\n", junk_indent(rng), k, k);
        if rng.chance(1, 4) { let a = other_arm(rng, 1); def.push_str(&a); }
        def.push_str(&format!("{}{} => {{\n{}{}}}{}\n", junk_indent(rng), matcher, body, junk_indent(rng), *rng.pick(&[" ;", ";", ""])));
        if rng.chance(1, 4) { let a = other_arm(rng, 2); def.push_str(&a); }
        def.push_str(&format!("{}}}\n", junk_indent(rng)));
    }
    // around the definition: anything (the body's formatter is a fresh one whatever the definition sits in)
    let target = *rng.pick(&[Hole::Item, Hole::Item, Hole::Stmt]);
    let depth = rng.range(if target == Hole::Item { 0 } else { 1 }, 4);
    let chain = chain_to(rng, target, depth)?;
    let src = render_chain(rng, &chain, None, &def, "");
    let mut cfg: Vec<(String, String)> = vec![("max_width".into(), rng.pick(&[100usize, 100, 137, 200]).to_string())];
    if thorough && rng.chance(1, 2) { cfg[0].1 = rng.range(90, 200).to_string(); }
    let n = *rng.pick(&[0usize, 0, 1, 1, 2]);
    for (k, v) in random_option_set(rng, n) {
        if k == "max_width" || k == "format_macro_bodies" { continue; }
        cfg.push((k, v));
    }
    let shape = format!("{}{} body, wrappers {:?}, node in {} position, definition in {:?}{}", if decl2 { "macro 2.0, " } else { "" }, if stmt_body { "statement" } else { "item" }, wrappers, if in_stmt_position { "statement" } else { "item" }, chain.iter().map(|c| CONTAINERS[*c].0).collect::<Vec<_>>(), if var { ", name is a macro variable" } else { "" });
    Some(BodyProgram { src, full, kind: format!("{:?}/{}", node_hole, kind), shape, accepted, body_bad, cfg })
}

fn part_e2e_macro_bodies(o: &mut Outcome, rng: &mut Rng, thorough: bool) {
    let mut counter = 700000usize;
    let mut progs = vec![];
    let n = if thorough { 60000 } else { 6000 };
    for i in 0..n {
        if let Some(p) = macro_body_program(rng, &mut counter, thorough, i % 12 != 11) { progs.push(p); }
    }
    let limit = Duration::from_secs(if thorough { 20 } else { 10 });
    let jobs1: Vec<Job> = progs.iter().map(|p| Job { src: p.src.clone(), cfg: p.cfg.clone(), file_lines: None }).collect();
    let res1 = pool::run_jobs(&jobs1, jobs(), limit);
    // the second pass: the output of the first as input
    let jobs2: Vec<Job> = progs.iter().zip(res1.iter()).map(|(p, r)| Job { src: if r.status == Status::Ok { canon_newlines(&r.out, &p.cfg) } else { String::new() }, cfg: p.cfg.clone(), file_lines: None }).collect();
    let res2 = pool::run_jobs(&jobs2, jobs(), limit);
    for ((pr, r1), r2) in progs.iter().zip(res1.iter()).zip(res2.iter()) {
        match &r1.status {
            Status::Timeout => { o.count("mbody:timeout"); continue; }
            Status::Ok => {}
            other => {
                o.direct_failures.push(json!({"sig": format!("c04:e2e-run-failed:macro-body:{}", pr.kind), "what": format!("the formatter did not finish on a generated program: {:?}", other), "src": pr.src, "config": cfg_text(&pr.cfg)}));
                continue;
            }
        }
        if r1.flags[1] || r1.out.is_empty() {
            o.count(&format!("mbody:not-parsed:{}", pr.kind));
            o.sample(json!({"not_parsed": pr.src}));
            continue;
        }
        let out1 = canon_newlines(&r1.out, &pr.cfg);
        let survivors = pr.body_bad.iter().filter(|t| out1.contains(t.as_str())).count();
        if survivors == pr.body_bad.len() {
            // the body was left as it is: nothing of it was formatted (it does not fit, or cannot be parsed
            // as items / statements after the variables are replaced): vacuous; what the fallback does to a
            // skipped node's trailing blanks is probe C04-macro-def-fallback
            o.count("mbody:body-not-formatted(vacuous)");
            if std::env::var("C04_DEBUG").is_ok() { eprintln!("VACUOUS [{}] {}\n--- src\n{}\n--- out\n{}\n", cfg_text(&pr.cfg), pr.shape, pr.src, r1.out); }
            continue;
        }
        o.direct_evals += 1;
        let occ1 = count_occ(&out1, &pr.full);
        if !pr.accepted {
            o.count(if occ1 == 0 { "mbody:control:reformatted" } else { "mbody:control:unchanged" });
            if occ1 != 0 {
                o.direct_failures.push(json!({"sig": format!("c04:control-node-not-reformatted:macro-body:{}", pr.kind), "what": "a node carrying an attribute that is not a skip attribute was left as written inside a formatted macro body: the search would not notice a skip that is not honoured", "src": pr.src, "out": r1.out}));
            }
            continue;
        }
        o.direct_distinct += 1;
        o.count(&format!("mbody:node:{}", pr.kind));
        o.count(&format!("mbody:attr-lines={}", pr.full.lines().take_while(|l| { let t = l.trim_start(); t.starts_with('#') || t.starts_with("//") || t.starts_with("/*") || t.is_empty() || !t.contains("zq") }).count().min(6)));
        let mut problems = vec![];
        if occ1 != 1 {
            problems.push(format!("first pass: the node's bytes (attributes and doc comments included) occur {} times in the output", occ1));
        }
        let mut out2 = String::new();
        match &r2.status {
            Status::Ok if !r2.flags[1] && !r2.out.is_empty() => {
                out2 = canon_newlines(&r2.out, &pr.cfg);
                o.direct_evals += 1;
                let occ2 = count_occ(&out2, &pr.full);
                if occ2 != 1 {
                    problems.push(format!("second pass (the output formatted again): the node's bytes occur {} times", occ2));
                }
                o.count(if out2 == out1 { "mbody:second-pass:same-text" } else { "mbody:second-pass:text-changed" });
            }
            Status::Timeout => o.count("mbody:timeout"),
            _ => o.count("mbody:second-pass:did-not-run"),
        }
        if !problems.is_empty() {
            o.direct_failures.push(json!({"sig": format!("c04:skipped-node-in-macro-body-not-verbatim:{}", pr.kind), "what": problems.join("; "), "node_with_attributes": pr.full, "shape": pr.shape, "config": cfg_text(&pr.cfg), "src": pr.src, "out": r1.out, "out_second_pass": out2}));
        }
        if o.samples.len() < 4 {
            o.sample(json!({"mbody": pr.kind, "shape": pr.shape, "config": cfg_text(&pr.cfg), "src": pr.src}));
        }
    }
}

/// correspondence of the re-indentation of a formatted macro body (RF/Model/MacroBody.lean, `rewriteTail`)
/// with `MacroBranch::rewrite` on real definitions: the hook formats the body with the functions the code
/// calls (`format_snippet` / `format_code_block`) and reports the snippet and its non-formatted ranges;
/// the model's result for them must be what `MacroBranch::rewrite` returned.
fn part_mbody_corr(o: &mut Outcome, rng: &mut Rng, thorough: bool) {
    struct Case { src: String, cfg: Vec<(String, String)>, what: String }
    let pieces_items: &[&str] = &[
        "fn  a( x:u32 ) {   }",
        "struct  S { a:u32,   b :u32 }",
        "#[rustfmt::skip]\nfn  b( ) {   \n        let  x=[1 ,2] ;\n  }",
        "  #[rustfmt::skip]\n      #[cfg(any(feature = \"a\",\n                  feature = \"b\"))]\n  /// doc\n  ///     more\n     pub fn  c( ) -> [u8; 4] {\n            [1, 2,\n             3, 4]\n        }",
        "#[allow( unused )]\n#[rustfmt::skip]\nconst  T :[u8;2]=[1,\n   2] ;",
        "const  S :&str=\"first line\n     second line\n  third\" ;",
        "const  S2 :&str=\"wrapped \\\n     continued \\\n  end\" ;",
        "/* a comment with \"a string\n   inside\n*/\nfn  d( ) { }",
        "// \"quoted\n//    text\"\nfn  e( ) { }",
        "mod  inner {\n#[rustfmt::skip]\n   fn  f( ) {  \n }\n fn  g( a:u32 ) { }\n}",
        "impl  S {\n  #[rustfmt::skip]\n   fn  f( ) {  \n      1 ;\n }\n fn  g( a:u32 ) { }\n}",
        "#[rustfmt::skip] use  a::{c ,  b} ;",
        "use  a::{c ,  b} ;",
        "",
    ];
    let pieces_stmts: &[&str] = &[
        "let  a=f( 1 ,2 ) ;",
        "#[rustfmt::skip]\n   let  b  =  [ 1 ,\n  2 ] ;",
        "#[rustfmt::skip] #[allow( unused )]\n   let  c  =  [ 1 ,\n  2 ] ;",
        "#[rustfmt::skip]\n  #[allow( unused )]\n   let  c2  =  [ 1 ,\n  2 ] ;",
        "let  s=\"first line\n     second line\n  third\" ;",
        "let  s2=\"wrapped \\\n     continued \\\n  end\" ;",
        "#[rustfmt::skip]\n  fn  inner( ) {   \n   }",
        "g( | x | {\n #[rustfmt::skip]\n  let  y  =  [ 1 ,\n 2 ] ;\n y } ) ;",
        "$a ;",
        "/* c \"\n  s \" */ h( ) ;",
        "",
    ];
    let mut cases = vec![];
    let n = if thorough { 40000 } else { 4000 };
    for k in 0..n {
        let stmt = rng.chance(1, 2);
        let pool_ = if stmt { pieces_stmts } else { pieces_items };
        let mut body = String::new();
        for _ in 0..rng.range(1, 5) {
            let pc = *rng.pick(pool_);
            for l in pc.split('\n') {
                body.push_str(&junk_indent(rng));
                body.push_str(l);
                body.push('\n');
            }
            if rng.chance(1, 4) { body.push('\n'); }
        }
        let block_body = rng.chance(1, 6);
        let matcher = *rng.pick(&["( )", "( $a:expr )", "( $a:expr , $name:ident )"]);
        if rng.chance(1, 3) { body = body.replacen("fn  a(", "fn  $name(", 1).replacen("let  a=", "let  $name=", 1); }
        let matcher = if body.contains("$name") { "( $a:expr , $name:ident )" } else if body.contains("$a") { "( $a:expr )" } else { matcher };
        let src = if block_body { format!("macro_rules!  m{} {{\n {} => {{{{\n{}}}}} ;\n}}\n", k, matcher, body) } else { format!("macro_rules!  m{} {{\n {} => {{\n{}}} ;\n}}\n", k, matcher, body) };
        let mut cfg: Vec<(String, String)> = vec![];
        if rng.chance(1, 2) { cfg.push(("format_strings".into(), "true".into())); }
        if rng.chance(1, 2) { cfg.push(("style_edition".into(), "2024".into())); }
        match rng.below(6) { 0 => cfg.push(("hard_tabs".into(), "true".into())), 1 => cfg.push(("tab_spaces".into(), "2".into())), 2 => cfg.push(("brace_style".into(), "AlwaysNextLine".into())), 3 => cfg.push(("max_width".into(), "60".into())), _ => {} }
        cases.push(Case { src, cfg, what: format!("{} body{}", if stmt { "statement" } else { "item" }, if block_body { ", block" } else { "" }) });
    }
    let runs: Vec<Option<hs::MacroBodyRun>> = par_map(&cases, |c| {
        let mut config = Config::default();
        for (k, v) in &c.cfg { config.override_value(k, v); }
        let (src, cfg2) = (c.src.clone(), config.clone());
        std::panic::catch_unwind(move || hs::macro_body(&src, &cfg2)).unwrap_or(None)
    });
    for (c, r) in cases.iter().zip(runs.iter()) {
        let r = match r { Some(r) => r, None => { o.count("mbody-corr:no-run(body does not parse / not formattable)"); continue; } };
        let arm = match &r.arm { Some(a) => a, None => { o.count("mbody-corr:MacroBranch::rewrite failed (does not fit)"); continue; } };
        let ranges = if r.ranges.is_empty() { "_".to_string() } else { r.ranges.iter().map(|(a, b)| format!("{}-{}", a, b)).collect::<Vec<_>>().join(",") };
        let substs = if r.substs.is_empty() { "_".to_string() } else { r.substs.iter().map(|(old, new)| format!("{}:{}", enc_str(old), enc_str(new))).collect::<Vec<_>>().join(",") };
        let fs = cfg_get(&c.cfg, "format_strings") == Some("true");
        let ed = cfg_get(&c.cfg, "style_edition") == Some("2024");
        let req = format!("skip.mbody {} {} {} {} {} {} {} {} {}", enc_str(&r.prefix), enc_str(&r.arm_indent), enc_str(&r.body_indent), bit(r.has_block_body), bit(fs), bit(ed), substs, ranges, enc_str(&r.snippet));
        o.push("corr", "skip.mbody", req, enc_str(arm), format!("{} [{}]", c.what, cfg_text(&c.cfg)), !r.ranges.is_empty());
        o.count(&format!("mbody-corr:{}:{}:ranges={}", if r.as_items { "items" } else { "code-block" }, if r.has_block_body { "block" } else { "plain" }, r.ranges.len().min(3)));
        // the definition as visit_item gets it holds the arm
        if let Some(d) = &r.definition {
            if !d.contains(arm.as_str()) {
                o.direct_failures.push(json!({"sig": "c04:macro-def-does-not-hold-the-arm", "what": "rewrite_macro_def's result does not contain what MacroBranch::rewrite returned for the first arm (harness assumption)", "src": c.src, "arm": arm, "definition": d}));
            }
        }
    }
}

/// correspondence of `format_code_block` (lib.rs; a statement-shaped macro body goes through it) in two
/// steps around the real formatter: the model wraps the code in `fn main() {` (`skip.enclose`), the real
/// `format_snippet` formats the model's wrapped text, the model unwraps the result and shifts the ranges
/// (`skip.unwrap`), and that must be what the real `format_code_block` returns for the code (snippet and
/// non-formatted ranges), `None` included.
fn part_codeblock_corr(o: &mut Outcome, rng: &mut Rng, thorough: bool) {
    struct Case { code: String, cfg: Vec<(String, String)> }
    let pieces: &[&str] = &[
        "let  a=f( 1 ,2 ) ;",
        "#[rustfmt::skip]\nlet  b  =  [ 1 ,\n\n  2 ] ;",
        "#[rustfmt::skip]\nstruct  S {\n a:u32,   \n\n\n        b :u32 /* c */ }",
        "#[rustfmt::skip]\n#[cfg(any(a,\n   b))]\nfn  inner( ) {\n\n   1 ;\n\n   }",
        "let  s=\"first line\n     second line\n\n  third\" ;",
        "let  s2=\"wrapped \\\n     continued \\\n  end\" ;",
        "/* c \"\n  s \" */ h( ) ;",
        "// \"quoted\n//    text\"\ng( ) ;",
        "fn  k( ) {\n#[rustfmt::skip]\n   let  y  =  [ 1 ,\n\n 2 ] ;\n}",
        "g( | x | {\n #[rustfmt::skip]\n  let  y  =  [ 1 ,\n 2 ] ;\n y } ) ;",
        "x",
        "}",
        "",
        "",
    ];
    let mut cases = vec![];
    for _ in 0..(if thorough { 20000 } else { 2000 }) {
        let mut code = String::new();
        for _ in 0..rng.range(1, 5) {
            for l in rng.pick(pieces).split('\n') {
                if !l.is_empty() { code.push_str(&junk_indent(rng)); }
                code.push_str(l);
                code.push('\n');
            }
        }
        if rng.chance(1, 2) { code.pop(); }
        let mut cfg: Vec<(String, String)> = vec![];
        if rng.chance(1, 2) { cfg.push(("format_strings".into(), "true".into())); }
        if rng.chance(1, 2) { cfg.push(("style_edition".into(), "2024".into())); }
        match rng.below(8) { 0 => cfg.push(("hard_tabs".into(), "true".into())), 1 => cfg.push(("tab_spaces".into(), "2".into())), 2 => cfg.push(("tab_spaces".into(), "8".into())), 3 => cfg.push(("brace_style".into(), "AlwaysNextLine".into())), 4 => cfg.push(("max_width".into(), "40".into())), _ => {} }
        cases.push(Case { code, cfg });
    }
    let facts = |c: &Case| -> (bool, usize, usize, bool, bool) {
        (cfg_get(&c.cfg, "hard_tabs") == Some("true"), cfg_get(&c.cfg, "tab_spaces").and_then(|v| v.parse().ok()).unwrap_or(4), cfg_get(&c.cfg, "max_width").and_then(|v| v.parse().ok()).unwrap_or(100), cfg_get(&c.cfg, "format_strings") == Some("true"), cfg_get(&c.cfg, "style_edition") == Some("2024"))
    };
    // 1. the model wraps
    let reqs: Vec<String> = cases.iter().map(|c| { let (ht, ts, _, fs, ed) = facts(c); format!("skip.enclose {} {} {} {} {}", bit(ht), ts, bit(fs), bit(ed), enc_str(&c.code)) }).collect();
    let wrapped: Vec<Option<String>> = run_model(&reqs, jobs()).iter().map(|a| dec_str(a)).collect();
    // 2. the real formatter on the model's wrapped text; the real format_code_block on the code
    let idx: Vec<usize> = (0..cases.len()).collect();
    let runs: Vec<(Option<(String, Vec<(usize, usize)>)>, Option<(String, Vec<(usize, usize)>)>)> = par_map(&idx, |i| {
        let c = &cases[*i];
        let mut config = Config::default();
        for (k, v) in &c.cfg { config.override_value(k, v); }
        let mut unix = config.clone();
        unix.override_value("newline_style", "Unix");
        let w = wrapped[*i].clone();
        let code = c.code.clone();
        let inner = match w { Some(w) => std::panic::catch_unwind(move || hs::format_snippet_raw(&w, &unix, true)).unwrap_or(None), None => None };
        let real = std::panic::catch_unwind(move || hs::format_code_block_raw(&code, &config, true)).unwrap_or(None);
        (inner, real)
    });
    let enc_ranges = |rs: &[(usize, usize)]| if rs.is_empty() { "_".to_string() } else { rs.iter().map(|(a, b)| format!("{}-{}", a, b)).collect::<Vec<_>>().join(",") };
    for ((c, w), (inner, real)) in cases.iter().zip(wrapped.iter()).zip(runs.iter()) {
        let (ht, ts, mw, fs, ed) = facts(c);
        if w.is_none() {
            o.direct_failures.push(json!({"sig": "c04:skip.enclose-no-answer", "what": "the model gave no wrapped text", "code": c.code}));
            continue;
        }
        match inner {
            None => {
                // the wrapped text cannot be formatted: format_code_block gives up as well
                o.count("codeblock:wrapped-text-not-formatted");
                o.direct_evals += 1;
                if real.is_some() {
                    o.flushed.disagreements.push(json!({"op": "skip.enclose", "what": "format_snippet fails on the model's wrapped text while format_code_block succeeds on the code: the model's wrapper is not the code's", "code": c.code, "wrapped": w, "config": cfg_text(&c.cfg)}));
                }
            }
            Some((formatted, ranges)) => {
                let req = format!("skip.unwrap {} {} {} {} {} {} {}", bit(ht), ts, mw, bit(fs), bit(ed), enc_ranges(ranges), enc_str(formatted));
                let expect = match real { Some((sn, rs)) => format!("{}:{}", enc_str(sn), enc_ranges(rs)), None => "none".to_string() };
                o.push("corr", "skip.unwrap", req, expect, format!("format_code_block [{}]", cfg_text(&c.cfg)), !ranges.is_empty());
                o.count(&format!("codeblock:{}:ranges={}", if real.is_some() { "some" } else { "none" }, ranges.len().min(3)));
            }
        }
    }
}

// ------------------------------------------------------------------------------------------------
// rustfmt::skip::macros / skip_macro_invocations / rustfmt::skip::attributes

/// containers whose attributes `visit_item` feeds to the skip context
fn is_item_container(c: usize) -> bool {
    matches!(CONTAINERS[c].0, "mod" | "fn" | "impl" | "trait")
}

/// The scoped families also assert the converse (a name nothing brings into scope is NOT protected),
/// which is only observable when the call / attribute can be laid out at all: widths >= 80 (at narrow
/// widths a node that does not fit is left as written by design).
fn wide_enough(rng: &mut Rng, cfg: &mut Vec<(String, String)>, thorough: bool) {
    let w = if thorough && rng.chance(1, 2) { rng.range(80, 200) } else { *rng.pick(&[80usize, 100, 137, 200]) };
    for (k, v) in cfg.iter_mut() {
        if k == "max_width" { *v = w.to_string(); }
    }
}

struct ScopedProgram {
    src: String,
    /// text that must occur exactly once when the name is in scope, and not at all otherwise
    target: String,
    control: String,
    /// a use of the same name in a later sibling of the attributed item: never in scope (the
    /// save / restore of visit_item, theorem skipCtx_siblings)
    sibling: Option<String>,
    in_scope: bool,
    how: String,
    chain: Vec<&'static str>,
    cfg: Vec<(String, String)>,
    /// model request deciding `in_scope`, when the scope comes from something the model covers
    model_req: Option<(String, String)>,
}

/// Renders the chain with `attr` written above the container at `attr_level` and `body` in the hole.
fn render_chain(rng: &mut Rng, chain: &[usize], attr_level: Option<(usize, &str)>, body: &str, inner: &str) -> String {
    let mut src = String::new();
    src.push_str(inner);
    for (level, c) in chain.iter().enumerate() {
        if let Some((l, a)) = attr_level {
            if l == level {
                src.push_str(&format!("{}{}\n", junk_indent(rng), a));
            }
        }
        src.push_str(&format!("{}{}\n", junk_indent(rng), CONTAINERS[*c].3.replace('N', &format!("{}", level + 1))));
    }
    src.push_str(body);
    for c in chain.iter().rev() {
        src.push_str(&format!("{}{}\n", junk_indent(rng), CONTAINERS[*c].4));
    }
    src
}

fn macro_program(rng: &mut Rng, counter: &mut usize, thorough: bool) -> Option<ScopedProgram> {
    *counter += 1;
    let id = format!("zq{}x", counter);
    let name = rng.pick(&["mac", "html", "vec", "println", "my_macro"]).to_string();
    let hole = *rng.pick(&[Hole::Stmt, Hole::Stmt, Hole::Item, Hole::ImplItem, Hole::Arg]);
    let depth = rng.range(if hole == Hole::Item { 0 } else { 1 }, 4);
    let chain = chain_to(rng, hole, depth)?;
    let (call, stmt_tail): (String, &str) = match hole {
        Hole::Stmt => match rng.below(4) {
            0 => (format!("{}!( 1 ,{} ,  3 )", name, id), " ;"),
            1 => (format!("{}![ 1 ,{} ,  3 ]", name, id), " ;"),
            2 => (format!("{}!{{ 1 ,{} ,  3 }}", name, id), ""),
            _ => (format!("{}!( 1 ,{} ,\n   3 )", name, id), " ;"),
        },
        Hole::Item | Hole::ImplItem => if rng.chance(1, 2) { (format!("{}!( 1 ,{} ,  3 )", name, id), " ;") } else { (format!("{}!{{ 1 ,{} ,  3 }}", name, id), "") },
        _ => (format!("{}!( 1 ,{} ,  3 )", name, id), " ,"),
    };
    let prefix = if hole == Hole::Stmt && rng.chance(1, 4) { "let  v9=" } else { "" };
    let control = format!("ctrl!( 1 ,c{} ,  3 )", id);
    let ctl_tail = match hole { Hole::Arg => " ,", _ => " ;" };
    let body = format!("{}{}{}{}\n{}{}{}\n", junk_indent(rng), prefix, call, if prefix.is_empty() { stmt_tail } else { " ;" }, junk_indent(rng), control, ctl_tail);
    // where the name comes from
    let item_levels: Vec<usize> = (0..chain.len()).filter(|l| is_item_container(chain[*l])).collect();
    let mut cfg = e2e_config(rng, thorough);
    cfg.retain(|(k, _)| k != "format_macro_bodies" && k != "format_macro_matchers");
    wide_enough(rng, &mut cfg, thorough);
    let others = ["other", "ctrl2", "x"];
    let mut list: Vec<String> = (0..rng.below(3)).map(|_| rng.pick(&others).to_string()).collect();
    let present = rng.chance(2, 3);
    if present {
        let at = rng.below(list.len() + 1);
        list.insert(at, name.clone());
    }
    let how;
    let mut attr_level = None;
    let attr_text;
    let mut inner = String::new();
    let mut in_scope = present;
    let model_req;
    match rng.below(4) {
        0 if !item_levels.is_empty() => {
            let l = *rng.pick(&item_levels);
            attr_text = format!("#[rustfmt::skip::macros({})]", list.join(", "));
            attr_level = Some((l, attr_text.as_str()));
            how = format!("outer attribute on the {} at level {}", CONTAINERS[chain[l]].0, l);
            let model_req = Some((format!("skip.ctx e:{} {}", names_enc(&list), name), bit(present)));
            let mut src = render_chain(rng, &chain, attr_level, &body, &inner);
            // the same macro before and after the attributed item, outside its scope
            let sib = format!("{}!( 1 ,sib{} ,  3 )", name, id);
            let mut sibling = None;
            if l == 0 && present {
                src.push_str(&format!("{} ;\n", sib));
                if rng.chance(1, 2) { src = format!("{} ;\n{}", sib.replace("sib", "pre"), src); }
                sibling = Some(sib);
            }
            return Some(ScopedProgram { src, target: call, control, sibling, in_scope, how, chain: chain.iter().map(|c| CONTAINERS[*c].0).collect(), cfg, model_req });
        }
        1 => {
            inner = format!("#![rustfmt::skip::macros({})]\n", list.join(", "));
            how = "inner attribute of the crate".to_string();
            model_req = Some((format!("skip.filectx _ l:rustfmt.skip.macros({}) {}", if list.is_empty() { "".to_string() } else { list.iter().map(|n| format!("w:{}", n)).collect::<Vec<_>>().join("|") }, name), bit(present)));
        }
        2 => {
            let star = rng.chance(1, 4);
            let mut sel = list.clone();
            if star { sel.insert(rng.below(sel.len() + 1), "*".to_string()); }
            in_scope = present || star;
            cfg.push(("skip_macro_invocations".into(), format!("[{}]", sel.iter().map(|x| format!("\"{}\"", x)).collect::<Vec<_>>().join(","))));
            how = "skip_macro_invocations".to_string();
            model_req = Some((format!("skip.filectx {} _ {}", names_enc(&sel), name), bit(in_scope)));
        }
        _ => {
            in_scope = false;
            how = "not named anywhere".to_string();
            model_req = Some((format!("skip.filectx _ _ {}", name), bit(false)));
        }
    }
    let src = render_chain(rng, &chain, attr_level, &body, &inner);
    Some(ScopedProgram { src, target: call, control, sibling: None, in_scope, how, chain: chain.iter().map(|c| CONTAINERS[*c].0).collect(), cfg, model_req })
}

fn attribute_program(rng: &mut Rng, counter: &mut usize, thorough: bool) -> Option<ScopedProgram> {
    *counter += 1;
    let id = format!("zq{}x", counter);
    let name = rng.pick(&["custom", "derive", "serde", "my_attr"]).to_string();
    let hole = *rng.pick(&[Hole::Item, Hole::Stmt, Hole::ImplItem, Hole::Field, Hole::Variant]);
    let depth = rng.range(if hole == Hole::Item { 0 } else { 1 }, 4);
    let chain = chain_to(rng, hole, depth)?;
    // (`#[derive = ".."]` is not a derive; the derive merging code leaves it and what follows as written)
    let (target, enc) = match rng.below(3) {
        0 if name != "derive" => (format!("#[{}  =  \"{}\"]", name, id), format!("n:{}", name)),
        _ => (format!("#[{}( a ,{} )]", name, id), format!("l:{}(w:a|w:{})", name, id)),
    };
    let control = format!("#[ctrl( a ,c{} )]", id);
    let (carrier, sep) = match hole {
        Hole::Item => (format!("struct  S{} ;", id), ""),
        Hole::Stmt => (format!("let  l{}=1 ;", id), ""),
        Hole::ImplItem => (format!("fn  m{}( ) {{ }}", id), ""),
        Hole::Field => (format!("f{} :  u32", id), " ,"),
        _ => (format!("V{}", id), " ,"),
    };
    let body = format!("{}{}\n{}{}\n{}{}{}\n", junk_indent(rng), target, junk_indent(rng), control, junk_indent(rng), carrier, sep);
    let item_levels: Vec<usize> = (0..chain.len()).filter(|l| is_item_container(chain[*l]) || matches!(CONTAINERS[chain[*l]].0, "struct" | "enum" | "union")).collect();
    let mut cfg = e2e_config(rng, thorough);
    cfg.retain(|(k, _)| k != "merge_derives" && k != "normalize_doc_attributes");
    wide_enough(rng, &mut cfg, thorough);
    let others = ["other", "allow", "x"];
    let mut list: Vec<String> = (0..rng.below(3)).map(|_| rng.pick(&others).to_string()).collect();
    let present = rng.chance(2, 3);
    if present {
        let at = rng.below(list.len() + 1);
        list.insert(at, name.clone());
    }
    let mut inner = String::new();
    let attr_text = format!("#[rustfmt::skip::attributes({})]", list.join(", "));
    let mut attr_level = None;
    let how;
    let mut in_scope = present;
    match rng.below(3) {
        0 if !item_levels.is_empty() => {
            let l = *rng.pick(&item_levels);
            attr_level = Some((l, attr_text.as_str()));
            how = format!("outer attribute on the {} at level {}", CONTAINERS[chain[l]].0, l);
        }
        1 => {
            inner = format!("#![rustfmt::skip::attributes({})]\n", list.join(", "));
            how = "inner attribute of the crate".to_string();
        }
        _ => {
            in_scope = false;
            list.clear();
            how = "not named anywhere".to_string();
        }
    }
    let model_req = Some((format!("skip.skip_attribute e:{} {}", names_enc(&list), enc), bit(in_scope)));
    let mut src = render_chain(rng, &chain, attr_level, &body, &inner);
    let mut sibling = None;
    if let Some((0, _)) = attr_level {
        if present {
            let sib = format!("#[{}( a ,sib{} )]", name, id);
            src.push_str(&format!("{}\nstruct  Sib{} ;\n", sib, id));
            sibling = Some(sib);
        }
    }
    Some(ScopedProgram { src, target, control, sibling, in_scope, how, chain: chain.iter().map(|c| CONTAINERS[*c].0).collect(), cfg, model_req })
}

/// `#[rustfmt::skip::macros(..)]` on one of three nested items: calls of the named macro before the outermost
/// item, inside each level before and after the next one, and after the outermost item.  A call is kept as
/// written iff it lies inside the annotated item (the name reaches inner modules / impls / fns and is gone
/// after the item: save / restore of visit_item, theorems skipCtx_monotone, skipCtx_siblings).
struct NestProgram {
    src: String,
    /// (position, call text, lies inside the annotated item)
    calls: Vec<(&'static str, String, bool)>,
    how: String,
    list: Vec<String>,
    name: String,
    present: bool,
    cfg: Vec<(String, String)>,
}

fn names_nesting_program(rng: &mut Rng, counter: &mut usize, thorough: bool) -> NestProgram {
    // (opening texts of the three levels, which levels are items that visit_item feeds the context with)
    let shapes: &[([&str; 3], [bool; 3])] = &[
        (["mod  a1  {", "mod  a2  {", "fn  a3( ) {"], [true, true, true]),
        (["mod  a1  {", "fn  a2( ) {", "fn  a3( ) {"], [true, true, true]),
        (["mod  a1  {", "impl  A2 {", "fn  a3( &self ) {"], [true, true, false]),
        (["fn  a1( ) {", "mod  a2  {", "fn  a3( ) {"], [true, true, true]),
        (["mod  a1  {", "trait  A2 {", "fn  a3( &self ) {"], [true, true, false]),
        (["fn  a1( ) {", "fn  a2( ) {", "let  a3=| |  {"], [true, true, false]),
        (["impl  A1 {", "fn  a2( &self ) {", "fn  a3( ) {"], [true, false, true]),
        (["mod  a1  {", "mod  a2  {", "mod  a3  {"], [true, true, true]),
        (["fn  a1( ) {", "impl  A2 {", "fn  a3( &self ) {"], [true, true, false]),
    ];
    let (opens, annotatable) = *rng.pick(shapes);
    let levels: Vec<usize> = (0..3).filter(|l| annotatable[*l]).collect();
    let k = *rng.pick(&levels); // the annotated level, 0-based
    let name = rng.pick(&["mac", "html", "my_macro", "println"]).to_string();
    let others = ["other", "ctrl2", "x"];
    let mut list: Vec<String> = (0..rng.below(3)).map(|_| rng.pick(&others).to_string()).collect();
    let present = rng.chance(3, 4);
    if present {
        let at = rng.below(list.len() + 1);
        list.insert(at, name.clone());
    }
    let attr = match rng.below(4) {
        0 => format!("#[rustfmt::skip::macros({})]", list.join(" ,")),
        1 => format!("#[allow( unused )]\n{}#[rustfmt::skip::macros({})]", junk_indent(rng), list.join(", ")),
        _ => format!("#[rustfmt::skip::macros({})]", list.join(", ")),
    };
    let mut calls = vec![];
    let mut call = |rng: &mut Rng, pos: &'static str, inside: bool, src: &mut String| {
        *counter += 1;
        let t = format!("{}!( 1 ,zq{}x ,  3 )", name, counter);
        src.push_str(&format!("{}{} ;\n", junk_indent(rng), t));
        calls.push((pos, t, inside));
    };
    let mut src = String::new();
    call(rng, "before the outermost item", false, &mut src);
    let positions_a = ["inside level 1, before level 2", "inside level 2, before level 3", "inside level 3"];
    let positions_b = ["", "inside level 2, after level 3", "inside level 1, after level 2"];
    // same-name nesting: an inner item lists the name again; leaving it must not take the name from the outer item
    let inner: Vec<usize> = levels.iter().copied().filter(|l| *l > k).collect();
    let k2 = if present && !inner.is_empty() && rng.chance(1, 3) { Some(*rng.pick(&inner)) } else { None };
    for l in 0..3 {
        if l == k { src.push_str(&format!("{}{}\n", junk_indent(rng), attr)); }
        if Some(l) == k2 { src.push_str(&format!("{}#[rustfmt::skip::macros({})]\n", junk_indent(rng), name)); }
        src.push_str(&format!("{}{}\n", junk_indent(rng), opens[l]));
        call(rng, positions_a[l], l >= k, &mut src);
    }
    for l in (0..3).rev() {
        let closer = if opens[l].starts_with("let") { "} ;" } else { "}" };
        src.push_str(&format!("{}{}\n", junk_indent(rng), closer));
        if l > 0 { call(rng, positions_b[3 - l], l - 1 >= k, &mut src); }
    }
    call(rng, "after the outermost item", false, &mut src);
    let mut cfg = e2e_config(rng, thorough);
    cfg.retain(|(k, _)| k != "format_macro_bodies" && k != "format_macro_matchers" && k != "skip_macro_invocations");
    wide_enough(rng, &mut cfg, thorough);
    NestProgram { src, calls, how: format!("{:?}{}, attribute on level {}", opens, k2.map(|l| format!(" (name listed again on level {})", l + 1)).unwrap_or_default(), k + 1), list, name, present, cfg }
}

fn part_e2e_scoped(o: &mut Outcome, rng: &mut Rng, thorough: bool) {
    let mut counter = 100000usize;
    let mut progs: Vec<(&'static str, ScopedProgram)> = vec![];
    let n = if thorough { 30000 } else { 1500 };
    for _ in 0..n {
        if let Some(p) = macro_program(rng, &mut counter, thorough) { progs.push(("macros", p)); }
    }
    for _ in 0..n {
        if let Some(p) = attribute_program(rng, &mut counter, thorough) { progs.push(("attributes", p)); }
    }
    let jobs_v: Vec<Job> = progs.iter().map(|(_, p)| Job { src: p.src.clone(), cfg: p.cfg.clone(), file_lines: None }).collect();
    let res = pool::run_jobs(&jobs_v, jobs(), Duration::from_secs(if thorough { 20 } else { 10 }));
    for ((fam, pr), r) in progs.iter().zip(res.iter()) {
        match &r.status {
            Status::Timeout => { o.count("scoped:timeout"); continue; }
            Status::Ok => {}
            other => {
                o.direct_failures.push(json!({"sig": format!("c04:e2e-run-failed:skip::{}", fam), "what": format!("the formatter did not finish on a generated program: {:?}", other), "src": pr.src, "config": cfg_text(&pr.cfg)}));
                continue;
            }
        }
        if r.flags[1] || r.out.is_empty() {
            o.count(&format!("scoped:{}:not-parsed", fam));
            o.sample(json!({"not_parsed": pr.src}));
            continue;
        }
        let out = canon_newlines(&r.out, &pr.cfg);
        let occ = count_occ(&out, &pr.target);
        let ctl = count_occ(&out, &pr.control);
        let observed = occ == 1;
        o.direct_evals += 1;
        o.direct_distinct += 1;
        o.count(&format!("scoped:{}:{}:in_scope={}", fam, pr.how.split(" at level").next().unwrap_or(""), pr.in_scope as u8));
        // model vs code: is the name in scope (decided by the model) <-> were the bytes kept (observed)
        if let Some((req, _)) = &pr.model_req {
            o.push("corr", &format!("{}(real run)", req.split(' ').next().unwrap()), req.clone(), bit(observed), format!("{} [{}]", pr.how, cfg_text(&pr.cfg)), true);
        }
        if pr.in_scope && occ != 1 {
            o.direct_failures.push(json!({"sig": format!("c04:skip::{}-not-honoured", fam), "what": format!("the named {} occurs {} times in the output ({})", if *fam == "macros" { "macro call" } else { "attribute" }, occ, pr.how), "target": pr.target, "chain": pr.chain, "config": cfg_text(&pr.cfg), "src": pr.src, "out": r.out}));
        }
        if !pr.in_scope && occ != 0 {
            o.direct_failures.push(json!({"sig": format!("c04:control-{}-not-reformatted", fam), "what": "a macro call / attribute that nothing names was left as written: the search would not notice a name that is not honoured", "target": pr.target, "config": cfg_text(&pr.cfg), "src": pr.src, "out": r.out}));
        }
        if ctl != 0 {
            o.count(&format!("scoped:{}:control-left-as-written", fam));
        }
        if let Some(sib) = &pr.sibling {
            o.count(&format!("scoped:{}:sibling-checked", fam));
            o.direct_evals += 1;
            if count_occ(&out, sib) != 0 || count_occ(&out, &sib.replace("sib", "pre")) != 0 {
                o.direct_failures.push(json!({"sig": format!("c04:skip::{}-leaks-to-sibling", fam), "what": "a name brought into scope by an item's attribute protects a sibling of that item (the scope must end with the item)", "sibling": sib, "config": cfg_text(&pr.cfg), "src": pr.src, "out": r.out}));
            }
        }
    }
    // names at three nesting levels
    let mut nests = vec![];
    for _ in 0..(if thorough { 20000 } else { 1500 }) {
        nests.push(names_nesting_program(rng, &mut counter, thorough));
    }
    let jobs_n: Vec<Job> = nests.iter().map(|p| Job { src: p.src.clone(), cfg: p.cfg.clone(), file_lines: None }).collect();
    let res_n = pool::run_jobs(&jobs_n, jobs(), Duration::from_secs(if thorough { 20 } else { 10 }));
    for (pr, r) in nests.iter().zip(res_n.iter()) {
        match &r.status {
            Status::Timeout => { o.count("nest:timeout"); continue; }
            Status::Ok => {}
            other => {
                o.direct_failures.push(json!({"sig": "c04:e2e-run-failed:skip::macros-nesting", "what": format!("the formatter did not finish on a generated program: {:?}", other), "src": pr.src, "config": cfg_text(&pr.cfg)}));
                continue;
            }
        }
        if r.flags[1] || r.out.is_empty() {
            o.count("nest:not-parsed");
            o.sample(json!({"not_parsed": pr.src}));
            continue;
        }
        let out = canon_newlines(&r.out, &pr.cfg);
        o.count(&format!("nest:{}:present={}", pr.how.rsplit(", ").next().unwrap_or(""), pr.present as u8));
        if pr.how.contains("listed again") { o.count("nest:name-listed-again-on-an-inner-item"); }
        for (pos, text, in_item) in &pr.calls {
            let occ = count_occ(&out, text);
            o.direct_evals += 1;
            o.direct_distinct += 1;
            // the model decides from the position: inside the annotated item the context was extended with the list
            let req = if *in_item { format!("skip.ctx e:{} {}", names_enc(&pr.list), pr.name) } else { format!("skip.ctx _ {}", pr.name) };
            o.push("corr", "skip.ctx(real run, nesting)", req, bit(occ == 1), format!("{} - {} [{}]", pr.how, pos, cfg_text(&pr.cfg)), true);
            let inside = &(*in_item && pr.present);
            if *inside && occ != 1 {
                o.direct_failures.push(json!({"sig": "c04:skip::macros-not-honoured:nesting", "what": format!("a call of a macro named by rustfmt::skip::macros on an enclosing item occurs {} times in the output ({}; {})", occ, pr.how, pos), "target": text, "config": cfg_text(&pr.cfg), "src": pr.src, "out": r.out}));
            }
            if !*inside && occ != 0 {
                o.direct_failures.push(json!({"sig": if pos.contains("after") { "c04:skip::macros-leaks-after-the-item" } else { "c04:skip::macros-leaks-outside-the-item" }, "what": format!("a call of the macro OUTSIDE the annotated item was left as written ({}; {}): the name must be in scope inside the item only", pr.how, pos), "target": text, "config": cfg_text(&pr.cfg), "src": pr.src, "out": r.out}));
            }
        }
    }
}

// ------------------------------------------------------------------------------------------------
// files on disk, through the real binary

fn rustfmt_bin() -> PathBuf {
    if let Some(p) = std::env::var_os("RUSTFMT_BIN") {
        return PathBuf::from(p);
    }
    // <V>/.build/target/debug/rfverif -> <V>/.build/repo-target/debug/rustfmt (built by ./check, `needs_bins`)
    let exe = std::env::current_exe().unwrap();
    exe.parent().and_then(|p| p.parent()).and_then(|p| p.parent()).map(|b| b.join("repo-target/debug/rustfmt")).unwrap_or_else(|| PathBuf::from("rustfmt"))
}

fn toml_of(cfg: &[(String, String)]) -> String {
    let mut s = String::new();
    for (k, v) in cfg {
        let raw = (v == "true" || v == "false" || v.parse::<i64>().is_ok() || v.starts_with('[')) && !matches!(k.as_str(), "edition" | "style_edition" | "version");
        if raw { s.push_str(&format!("{} = {}\n", k, v)); } else { s.push_str(&format!("{} = \"{}\"\n", k, v)); }
    }
    s
}

struct Scenario {
    files: Vec<(String, String)>,
    toml: String,
    args: Vec<String>,
    stdin: Option<String>,
}

struct Ran {
    code: Option<i32>,
    stdout: String,
    stderr: String,
    timed_out: bool,
    files_after: Vec<(String, Option<String>)>,
}

fn run_scenario(root: &Path, ix: usize, sc: &Scenario) -> Ran {
    let dir = root.join(format!("s{}", ix));
    let _ = std::fs::remove_dir_all(&dir);
    std::fs::create_dir_all(&dir).unwrap();
    for (name, text) in &sc.files {
        let pth = dir.join(name);
        if let Some(parent) = pth.parent() { std::fs::create_dir_all(parent).unwrap(); }
        std::fs::write(&pth, text).unwrap();
    }
    std::fs::write(dir.join("rustfmt.toml"), &sc.toml).unwrap();
    let mut cmd = Command::new(rustfmt_bin());
    cmd.current_dir(&dir).args(&sc.args).env("NO_COLOR", "1").arg("--color").arg("never");
    let r = run_cmd(&mut cmd, sc.stdin.as_deref().unwrap_or("").as_bytes(), Duration::from_secs(30));
    let files_after = sc.files.iter().map(|(n, _)| (n.clone(), std::fs::read(dir.join(n)).ok().map(|b| String::from_utf8_lossy(&b).into_owned()))).collect();
    let _ = std::fs::remove_dir_all(&dir);
    Ran { code: r.code, stdout: String::from_utf8_lossy(&r.stdout).into_owned(), stderr: r.stderr, timed_out: r.timed_out, files_after }
}

const BAD_BODY: &str = "fn  bad_f( a:u32 ) {   let  x=1;   }\n";

#[derive(Clone, Copy, Debug)]
struct OptOut {
    inner_skip: bool,
    disable_all: bool,
    ignored: bool,
    generated: bool,
    format_generated: bool,
    stdin: bool,
    skip_children: bool,
    is_main: bool,
    main_ignored: bool,
}

impl OptOut {
    fn bits7(&self) -> String {
        [self.inner_skip, self.disable_all, self.ignored, self.generated, self.format_generated, self.stdin, self.skip_children && !self.is_main].iter().map(|b| if *b { '1' } else { '0' }).collect()
    }
    fn bits10(&self) -> String {
        format!("{}{}", self.bits7(), [self.skip_children, self.is_main, self.main_ignored].iter().map(|b| if *b { '1' } else { '0' }).collect::<String>())
    }
    fn text(&self) -> String {
        let mut t = String::new();
        if self.generated { t.push_str("// @generated\n"); }
        if self.inner_skip { t.push_str("#![rustfmt::skip]\n"); }
        t.push_str(BAD_BODY);
        t
    }
    fn toml(&self) -> String {
        let mut s = String::new();
        if self.disable_all { s.push_str("disable_all_formatting = true\n"); }
        s.push_str(&format!("format_generated_files = {}\n", self.format_generated));
        if self.skip_children { s.push_str("skip_children = true\n"); }
        let mut ig = vec![];
        if self.main_ignored { ig.push("\"main.rs\""); }
        if self.ignored && !self.is_main { ig.push("\"child.rs\""); }
        if !ig.is_empty() { s.push_str(&format!("ignore = [{}]\n", ig.join(", "))); }
        s
    }
    fn scenario(&self, extra: &[&str]) -> Scenario {
        let mut args: Vec<String> = extra.iter().map(|s| s.to_string()).collect();
        if self.stdin {
            return Scenario { files: vec![], toml: self.toml(), args, stdin: Some(self.text()) };
        }
        args.push("main.rs".into());
        let files = if self.is_main { vec![("main.rs".to_string(), self.text())] } else { vec![("main.rs".to_string(), "mod child;\nfn main() {}\n".to_string()), ("child.rs".to_string(), self.text())] };
        Scenario { files, toml: self.toml(), args, stdin: None }
    }
    fn target(&self) -> &'static str {
        if self.is_main { "main.rs" } else { "child.rs" }
    }
    /// the property's condition (the same formula as the model's `optedOut`; the model is asked too)
    fn opted_out(&self) -> bool {
        self.inner_skip || self.disable_all || self.ignored || (self.generated && !self.format_generated) || (self.skip_children && !self.is_main)
    }
}

fn part_files(o: &mut Outcome, rng: &mut Rng, thorough: bool, out: &Path) {
    let root = out.join("tmp");
    let bin = rustfmt_bin();
    if !bin.exists() {
        o.direct_failures.push(json!({"sig": "c04:no-rustfmt-binary", "what": format!("{} does not exist (the check builds it: needs_bins)", bin.display())}));
        return;
    }
    // 1. the decision table: every combination, files on disk (the file itself / a child module) and stdin
    let mut rows: Vec<OptOut> = vec![];
    for m in 0u32..(1 << 8) {
        let b = |i: u32| m & (1 << i) != 0;
        let r = OptOut { inner_skip: b(0), disable_all: b(1), ignored: b(2), generated: b(3), format_generated: b(4), stdin: false, skip_children: b(5), is_main: b(6), main_ignored: b(7) };
        if r.is_main && r.ignored != r.main_ignored { continue; }
        rows.push(r);
    }
    for m in 0u32..(1 << 4) {
        let b = |i: u32| m & (1 << i) != 0;
        // standard input has no path (`ignore` cannot be made to match it) and no children
        rows.push(OptOut { inner_skip: b(0), disable_all: b(1), ignored: false, generated: b(2), format_generated: b(3), stdin: true, skip_children: false, is_main: true, main_ignored: false });
    }
    let scs: Vec<Scenario> = rows.iter().map(|r| r.scenario(&[])).collect();
    let idx: Vec<usize> = (0..scs.len()).collect();
    let ran: Vec<Ran> = par_map(&idx, |i| run_scenario(&root, *i, &scs[*i]));
    let mut followups: Vec<(usize, &'static str, Scenario)> = vec![];
    let mut stdin_generated_rows = vec![];
    for (i, (row, r)) in rows.iter().zip(ran.iter()).enumerate() {
        if r.timed_out { o.count("file:timeout"); continue; }
        let input = row.text();
        let observed = if row.stdin {
            if r.stdout == input { "echo" } else if r.stdout.contains("fn bad_f(a: u32) {") { "format" } else { "other" }
        } else {
            let after = r.files_after.iter().find(|(n, _)| n == row.target()).and_then(|(_, t)| t.clone()).unwrap_or_default();
            if after == input { "skip" } else if after.contains("fn bad_f(a: u32) {") { "format" } else { "other" }
        };
        let desc = format!("{:?} exit {:?}", row, r.code);
        if row.stdin {
            o.push("corr", "skip.file(real run)", format!("skip.file {}", row.bits7()), observed.into(), desc.clone(), true);
        } else {
            o.push("corr", "skip.file_full(real run)", format!("skip.file_full {}", row.bits10()), observed.into(), desc.clone(), true);
        }
        o.count(&format!("file:{}:{}", if row.stdin { "stdin" } else if row.is_main { "main" } else { "child" }, observed));
        // the model's property condition must be the one the harness uses below
        o.push("corr", "skip.opted_out", format!("skip.opted_out {}", row.bits7()), bit(row.opted_out()), "the harness' copy of the property's condition".into(), row.opted_out());
        // the property on the code's behaviour: opted out => untouched, exit 0
        if row.opted_out() {
            let untouched = if row.stdin { observed == "echo" } else { observed == "skip" };
            let sole_stdin_generated = row.stdin && row.generated && !row.format_generated && !row.inner_skip && !row.disable_all;
            if sole_stdin_generated {
                stdin_generated_rows.push(json!({"row": format!("{:?}", row), "observed": observed, "stdout": r.stdout}));
                if !untouched { continue; }
            }
            if !untouched || r.code != Some(0) {
                o.direct_failures.push(json!({"sig": format!("c04:opted-out-file-touched:{}", row.bits10()), "what": format!("a file that opts out as a whole was {} (exit {:?})", observed, r.code), "row": format!("{:?}", row), "toml": row.toml(), "input": input, "stdout": r.stdout, "stderr": r.stderr}));
            }
            o.direct_evals += 1;
            o.direct_distinct += 1;
            if !row.stdin {
                for (mode, args) in [("check", vec!["--check"]), ("json", vec!["--emit", "json"]), ("checkstyle", vec!["--emit", "checkstyle"]), ("stdout", vec!["--emit", "stdout"])] {
                    followups.push((i, mode, row.scenario(&args)));
                }
            }
        }
    }
    {
        let fails = stdin_generated_rows.iter().any(|r| r["observed"] != "echo");
        o.probes.push(json!({"id": "C04-stdin-generated", "fails": fails, "what": "standard input carrying an @generated marker with format_generated_files=false is formatted (should_skip_module's generated test is guarded by !input_is_stdin; FIXME in formatting.rs)", "detail": stdin_generated_rows}));
    }
    let fidx: Vec<usize> = (0..followups.len()).collect();
    let fran: Vec<Ran> = par_map(&fidx, |k| run_scenario(&root, 100000 + *k, &followups[*k].2));
    for ((i, mode, _), r) in followups.iter().zip(fran.iter()) {
        let row = &rows[*i];
        if r.timed_out { o.count("file:timeout"); continue; }
        let after = r.files_after.iter().find(|(n, _)| n == row.target()).and_then(|(_, t)| t.clone()).unwrap_or_default();
        let mut problems = vec![];
        if after != row.text() { problems.push("the file changed".to_string()); }
        if r.code != Some(0) { problems.push(format!("exit {:?}", r.code)); }
        match *mode {
            "check" => if !r.stdout.trim().is_empty() { problems.push("--check printed a diff".to_string()); },
            "json" => if r.stdout.trim() != "[]" { problems.push("json report is not []".to_string()); },
            "checkstyle" => if r.stdout.contains("<error") { problems.push("checkstyle report has an error element".to_string()); },
            _ => if r.stdout.contains("bad_f") { problems.push("--emit stdout printed the opted-out file".to_string()); },
        }
        o.direct_evals += 1;
        o.count(&format!("file:optout:{}:{}", mode, if problems.is_empty() { "clean" } else { "reported" }));
        if !problems.is_empty() {
            o.direct_failures.push(json!({"sig": format!("c04:opted-out-file-reported:{}:{}", mode, row.bits10()), "what": problems.join("; "), "row": format!("{:?}", row), "toml": row.toml(), "stdout": r.stdout, "stderr": r.stderr}));
        }
    }
    // 1b. byte-exactness of an opted-out file whatever its encoding details: BOM, CRLF, both, no final
    //     newline, trailing blank lines and blanks - one opt-out reason at a time, the file itself or a child
    //     module, in every emit mode (and --backup): the bytes on disk stay, exit 0, nothing is reported
    {
        let vary = |text: &str, v: usize| -> String {
            match v {
                0 => format!("\u{feff}{}", text),
                1 => text.replace('\n', "\r\n"),
                2 => format!("\u{feff}{}", text.replace('\n', "\r\n")),
                3 => text.trim_end_matches('\n').to_string(),
                4 => format!("{}\n\n   \n\t", text),
                _ => text.replace("fn  bad_f", "fn  bad_\u{e9}\u{4e16}"),
            }
        };
        let names = ["bom", "crlf", "bom+crlf", "no-final-newline", "trailing-blank-lines", "non-ascii"];
        let base = OptOut { inner_skip: false, disable_all: false, ignored: false, generated: false, format_generated: true, stdin: false, skip_children: false, is_main: true, main_ignored: false };
        let mut reasons: Vec<(&str, OptOut)> = vec![];
        for is_main in [true, false] {
            reasons.push(("inner-skip", OptOut { inner_skip: true, is_main, ..base }));
            reasons.push(("disable-all", OptOut { disable_all: true, is_main, ..base }));
            reasons.push(("ignored", OptOut { ignored: true, main_ignored: is_main, is_main, ..base }));
            reasons.push(("generated", OptOut { generated: true, format_generated: false, is_main, ..base }));
        }
        reasons.push(("skip-children", OptOut { skip_children: true, is_main: false, ..base }));
        let modes: Vec<(&str, Vec<&str>)> = vec![("files", vec![]), ("check", vec!["--check"]), ("json", vec!["--emit", "json"]), ("checkstyle", vec!["--emit", "checkstyle"]), ("stdout", vec!["--emit", "stdout"]), ("backup", vec!["--backup"]), ("check-l", vec!["--check", "-l"])];
        let mut runs: Vec<(String, &'static str, String, String, Scenario)> = vec![];
        for (rname, row) in &reasons {
            for v in 0..names.len() {
                let text = vary(&row.text(), v);
                for (mname, args) in &modes {
                    let mut sc = row.scenario(args);
                    for f in sc.files.iter_mut() {
                        if f.0 == row.target() { f.1 = text.clone(); }
                    }
                    // the backup file, if any is written, shows up here
                    sc.files.push((format!("{}.bk", row.target().trim_end_matches(".rs")), String::new()));
                    runs.push((format!("{}:{}:{}", rname, if row.is_main { "main" } else { "child" }, names[v]), row.target(), text.clone(), mname.to_string(), sc));
                }
            }
        }
        let ridx: Vec<usize> = (0..runs.len()).collect();
        let rran: Vec<Ran> = par_map(&ridx, |k| run_scenario(&root, 150000 + *k, &runs[*k].4));
        for ((what, target, text, mode, sc), r) in runs.iter().zip(rran.iter()) {
            if r.timed_out { o.count("file:timeout"); continue; }
            let after = r.files_after.iter().find(|(n, _)| n == target).and_then(|(_, t)| t.clone()).unwrap_or_default();
            let bk = r.files_after.iter().find(|(n, _)| n.ends_with(".bk")).and_then(|(_, t)| t.clone()).unwrap_or_default();
            let mut problems = vec![];
            if &after != text { problems.push("the opted-out file's bytes changed".to_string()); }
            if !bk.is_empty() { problems.push("a backup of the opted-out file was written".to_string()); }
            if r.code != Some(0) { problems.push(format!("exit {:?}", r.code)); }
            match mode.as_str() {
                "check" | "check-l" => if !r.stdout.trim().is_empty() { problems.push("--check printed something".to_string()); },
                "json" => if r.stdout.trim() != "[]" { problems.push("the json report is not []".to_string()); },
                "checkstyle" => if r.stdout.contains("bad_") { problems.push("the checkstyle report has an error inside the opted-out file".to_string()); },
                "stdout" => if r.stdout.contains("bad_") { problems.push("--emit stdout printed the opted-out file".to_string()); },
                _ => {}
            }
            o.direct_evals += 1;
            o.direct_distinct += 1;
            o.count(&format!("file:optout-bytes:{}:{}", mode, if problems.is_empty() { "clean" } else { "touched" }));
            if !problems.is_empty() {
                o.direct_failures.push(json!({"sig": format!("c04:opted-out-file-bytes:{}:{}", mode, what), "what": problems.join("; "), "case": what, "toml": sc.toml, "args": sc.args, "before": text, "after": after, "stdout": r.stdout, "stderr": r.stderr}));
            }
        }
    }
    // 2. out-of-line modules: a skip attribute on the declaration (or at the top of the module's file)
    //    leaves the file untouched while the declaring file is formatted; files the skipped module
    //    declares are not visited either
    let decls = ["#[rustfmt::skip]", "#[rustfmt_skip]", "#[cfg_attr(rustfmt, rustfmt::skip)]", "#[cfg_attr(a, cfg_attr(b, rustfmt_skip))]", "#[allow(x)]\n#[rustfmt::skip]"];
    let mut mods: Vec<(String, Scenario, Vec<String>, Vec<String>)> = vec![]; // (what, scenario, untouched files, formatted files)
    let bad = |n: usize| format!("fn  bad{}( a:u32 ) {{   let  x=1;   }}\n\n\n\nstruct  S{} {{ a:u32,   b :u32 }}   \n", n, n);
    for (k, d) in decls.iter().enumerate() {
        // on the declaration
        mods.push((format!("declaration {}", d), Scenario { files: vec![("main.rs".into(), format!("{}\nmod  child ;\nfn  m( ) {{ }}\n", d)), ("child.rs".into(), format!("mod  grand ;\n{}", bad(k))), ("child/grand.rs".into(), bad(100 + k))], toml: String::new(), args: vec!["main.rs".into()], stdin: None }, vec!["child.rs".into(), "child/grand.rs".into()], vec!["main.rs".into()]));
        // inner attribute of the module file; a sibling module is formatted
        let inner = d.replace("#[", "#![");
        mods.push((format!("inner {}", inner), Scenario { files: vec![("main.rs".into(), "mod  child ;\nmod  other ;\nfn  m( ) { }\n".into()), ("child.rs".into(), format!("{}\nmod  grand ;\n{}", inner, bad(k))), ("child/grand.rs".into(), bad(100 + k)), ("other.rs".into(), bad(200 + k))], toml: String::new(), args: vec!["main.rs".into()], stdin: None }, vec!["child.rs".into(), "child/grand.rs".into()], vec!["main.rs".into(), "other.rs".into()]));
        // two levels down, mod.rs layout, #[path]
        mods.push((format!("nested declaration {}", d), Scenario { files: vec![("main.rs".into(), "mod  a ;\nfn  m( ) { }\n".into()), ("a/mod.rs".into(), format!("{}\nmod  b ;\n#[path = \"elsewhere.rs\"]\n{}\nmod  c ;\n{}", d, d, bad(k))), ("a/b.rs".into(), bad(300 + k)), ("a/elsewhere.rs".into(), bad(400 + k))], toml: String::new(), args: vec!["main.rs".into()], stdin: None }, vec!["a/b.rs".into(), "a/elsewhere.rs".into()], vec!["main.rs".into(), "a/mod.rs".into()]));
        // inline module with the attribute that contains an out-of-line module
        mods.push((format!("inline module {}", d), Scenario { files: vec![("main.rs".into(), format!("{}\nmod  inl  {{\n    mod  deep ;\n  fn  keep( ) {{ }}\n}}\nfn  m( ) {{ }}\n", d)), ("inl/deep.rs".into(), bad(500 + k))], toml: String::new(), args: vec!["main.rs".into()], stdin: None }, vec!["inl/deep.rs".into()], vec!["main.rs".into()]));
    }
    let midx: Vec<usize> = (0..mods.len()).collect();
    let mran: Vec<Ran> = par_map(&midx, |k| run_scenario(&root, 200000 + *k, &mods[*k].1));
    for ((what, sc, untouched, formatted), r) in mods.iter().zip(mran.iter()) {
        if r.timed_out { o.count("modfile:timeout"); continue; }
        let mut problems = vec![];
        if r.code != Some(0) { problems.push(format!("exit {:?}: {}", r.code, r.stderr.chars().take(300).collect::<String>())); }
        for (n, before) in &sc.files {
            let after = r.files_after.iter().find(|(m, _)| m == n).and_then(|(_, t)| t.clone()).unwrap_or_default();
            if untouched.contains(n) && &after != before { problems.push(format!("{} was changed", n)); }
            if formatted.contains(n) && &after == before { problems.push(format!("{} was not formatted", n)); }
            if n == "main.rs" && what.starts_with("inline module") && !after.contains("mod  inl  {\n    mod  deep ;\n  fn  keep( ) { }\n}") { problems.push("the skipped inline module is not verbatim".to_string()); }
        }
        o.direct_evals += 1;
        o.direct_distinct += 1;
        o.count(&format!("modfile:{}", what.split(' ').next().unwrap()));
        if !problems.is_empty() {
            o.direct_failures.push(json!({"sig": format!("c04:skipped-module-file:{}", what), "what": problems.join("; "), "files": sc.files, "after": r.files_after, "stderr": r.stderr}));
        }
    }
    // 3. a sample of the node programs as files on disk (Input::File instead of Input::Text), with
    //    --check: the node's bytes are in the file afterwards and --check prints no change inside them
    let mut counter = 500000usize;
    let n = if thorough { 3000 } else { 200 };
    let mut progs = vec![];
    for _ in 0..n {
        let ix = rng.below(NODES.len());
        let d = rng.below(4);
        if let Some(pr) = skip_program(rng, &mut counter, ix, d, true) {
            let mut cfg = e2e_config(rng, thorough);
            cfg.retain(|(k, _)| k != "newline_style");
            progs.push((pr, cfg));
        }
    }
    let pidx: Vec<usize> = (0..progs.len()).collect();
    let pran: Vec<Ran> = par_map(&pidx, |k| run_scenario(&root, 300000 + *k, &Scenario { files: vec![("lib.rs".into(), progs[*k].0.src.clone())], toml: toml_of(&progs[*k].1), args: vec!["lib.rs".into()], stdin: None }));
    for ((pr, cfg), r) in progs.iter().zip(pran.iter()) {
        if r.timed_out { o.count("nodefile:timeout"); continue; }
        let after = r.files_after[0].1.clone().unwrap_or_default();
        if r.code != Some(0) {
            // not C04's subject (the bytes are checked below): which diagnostic made the run exit 1
            let why = if r.stderr.contains("left behind trailing whitespace") { "trailing-whitespace-left-behind" } else if r.stderr.contains("line formatted, but exceeded maximum width") || r.stderr.contains("line exceeded maximum width") { "line-width" } else if r.stderr.contains("rustfmt_skip") || r.stderr.contains("deprecated") { "deprecated-attr" } else { "other" };
            o.count(&format!("nodefile:exit-nonzero:{}", why));
            if std::env::var("C04_DEBUG").is_ok() { eprintln!("EXIT {:?}\n{}\n{}", r.code, pr.src, r.stderr); }
        }
        if after == pr.src {
            // nothing was formatted (the surroundings are badly laid out, so a run that formats changes the file)
            o.count("nodefile:file-unchanged(vacuous)");
            if std::env::var("C04_DEBUG").is_ok() { eprintln!("UNCHANGED {:?}\n{}\n{}", r.code, pr.src, r.stderr); }
            continue;
        }
        o.direct_evals += 1;
        o.direct_distinct += 1;
        o.count("nodefile:checked");
        if count_occ(&after, &pr.node) != 1 {
            o.direct_failures.push(json!({"sig": format!("c04:skipped-node-not-verbatim(file):{:?}/{}", pr.hole, pr.kind), "what": format!("the node's bytes occur {} times in the file after `rustfmt lib.rs` (exit {:?})", count_occ(&after, &pr.node), r.code), "node": pr.node, "config": cfg_text(cfg), "src": pr.src, "after": after, "stderr": r.stderr}));
        }
    }
    let _ = std::fs::remove_dir_all(&root);
}

// ------------------------------------------------------------------------------------------------
// enumerated probes of inputs known to be dirty on the pinned tree (seed-independent)

fn part_probes(o: &mut Outcome, out: &Path) {
    let fmt = |src: &str, cfg: &[(&str, &str)]| -> pool::FmtOut {
        let job = Job { src: src.to_string(), cfg: cfg.iter().map(|(k, v)| (k.to_string(), v.to_string())).collect(), file_lines: None };
        pool::run_jobs(&[job], 1, Duration::from_secs(10)).remove(0)
    };
    // F14: cfg_attr with more than two arguments is valid Rust (every argument after the predicate is
    // an attribute to apply) and is not recognised: `is_skip` demands `l.len() == 2`
    {
        let mut detail = vec![];
        let mut fails = false;
        for attr in ["#[cfg_attr(any(), allow(dead_code), rustfmt::skip)]", "#[cfg_attr(any(), rustfmt::skip, allow(dead_code))]", "#[cfg_attr(any(), allow(a), allow(b), rustfmt::skip)]"] {
            let node = "fn  zqf14( a:u32 ) {   let  x=1;   }";
            let src = format!("fn  nb( ) {{   }}\n{}\n{}\n", attr, node);
            let r = fmt(&src, &[]);
            let kept = r.status == Status::Ok && count_occ(&r.out, node) == 1;
            fails |= !kept;
            detail.push(json!({"attr": attr, "node_kept": kept, "src": src, "out": r.out}));
        }
        o.probes.push(json!({"id": "F14", "fails": fails, "what": "a skip attribute inside a cfg_attr with three or more arguments is not honoured", "detail": detail}));
    }
    // foreign items: `impl Rewrite for ast::ForeignItem` and `format_foreign_item` never look at the attributes
    {
        let mut detail = vec![];
        let mut fails = false;
        for (kind, template, node) in DIRTY_NODES {
            for attr in ["#[rustfmt::skip]", "#[cfg_attr(rustfmt, rustfmt_skip)]"] {
                let id = format!("zq{}", kind.replace('-', "_"));
                let src = template.replace("ATTR", attr).replace("ID", &id);
                let node = node.replace("ID", &id);
                let r = fmt(&src, &[]);
                let kept = r.status == Status::Ok && count_occ(&r.out, &node) == 1;
                fails |= !kept;
                detail.push(json!({"kind": kind, "attr": attr, "node_kept": kept, "src": src, "out": r.out}));
            }
        }
        o.probes.push(json!({"id": "C04-foreign-item", "fails": fails, "what": "#[rustfmt::skip] on an item of an extern block (fn, static, type) is not honoured: the item is reformatted", "detail": detail}));
    }
    // rustfmt::skip::macros / ::attributes written where only visit_item would have fed the context
    {
        let cases: Vec<(&str, &str, String, String)> = vec![
            ("assoc-item", "macros on an impl method", "impl  S {\n    #[rustfmt::skip::macros(mac)]\n    fn  h( ) { mac!( 1 ,zq1 ) ; }\n}\n".into(), "mac!( 1 ,zq1 )".into()),
            ("assoc-item", "macros on a trait method", "trait  T {\n    #[rustfmt::skip::macros(mac)]\n    fn  h( ) { mac!( 1 ,zq2 ) ; }\n}\n".into(), "mac!( 1 ,zq2 )".into()),
            ("assoc-item", "attributes on an impl method", "impl  S {\n    #[rustfmt::skip::attributes(custom)]\n    #[custom( a ,zq3 )]\n    fn  h( ) { }\n}\n".into(), "#[custom( a ,zq3 )]".into()),
            ("statement", "macros on a let statement", "fn  f( ) {\n    #[rustfmt::skip::macros(mac)]\n    let  x = mac!( 1 ,zq4 ) ;\n}\n".into(), "mac!( 1 ,zq4 )".into()),
            ("statement", "macros on a macro statement", "fn  f( ) {\n    #[rustfmt::skip::macros(mac)]\n    mac!( 1 ,zq5 ) ;\n}\n".into(), "mac!( 1 ,zq5 )".into()),
            ("statement", "attributes on a let statement", "fn  f( ) {\n    #[rustfmt::skip::attributes(custom)]\n    #[custom( a ,zq6 )]\n    let  x = 1 ;\n}\n".into(), "#[custom( a ,zq6 )]".into()),
            ("statement", "attributes on a struct field", "struct  S {\n    #[rustfmt::skip::attributes(custom)]\n    #[custom( a ,zq7 )]\n    f :  u32 ,\n}\n".into(), "#[custom( a ,zq7 )]".into()),
        ];
        for group in ["assoc-item", "statement"] {
            let mut detail = vec![];
            let mut fails = false;
            for (g, what, src, target) in cases.iter().filter(|c| c.0 == group) {
                let r = fmt(src, &[]);
                let kept = r.status == Status::Ok && count_occ(&r.out, target) == 1;
                fails |= !kept;
                detail.push(json!({"group": g, "case": what, "kept": kept, "src": src, "out": r.out}));
            }
            o.probes.push(json!({"id": format!("C04-names-scope:{}", group), "fails": fails, "what": format!("rustfmt::skip::macros / ::attributes written on {} is accepted without a warning and has no effect (only visit_item feeds the skip context)", if group == "assoc-item" { "an impl or trait item" } else { "a statement or a field" }), "detail": detail}));
        }
    }
    let bin = rustfmt_bin();
    if !bin.exists() {
        return;
    }
    let root = out.join("tmp-probes");
    // the same names for an out-of-line module: format_file starts every file from the crate root's
    // attributes only, so neither the module file's inner attributes nor the declaration's reach it
    {
        let mut detail = vec![];
        let mut fails = false;
        let cases: Vec<(&str, Vec<(String, String)>, &str, &str)> = vec![
            ("macros as inner attribute of the module file", vec![("main.rs".into(), "mod bar;\n".into()), ("bar.rs".into(), "#![rustfmt::skip::macros(mac)]\nfn  f( ) { mac!( 1 ,zq1 ) ; }\n".into())], "bar.rs", "mac!( 1 ,zq1 )"),
            ("macros on the declaration `mod bar;`", vec![("main.rs".into(), "#[rustfmt::skip::macros(mac)]\nmod bar;\n".into()), ("bar.rs".into(), "fn  f( ) { mac!( 1 ,zq2 ) ; }\n".into())], "bar.rs", "mac!( 1 ,zq2 )"),
            ("attributes as inner attribute of the module file", vec![("main.rs".into(), "mod bar;\n".into()), ("bar.rs".into(), "#![rustfmt::skip::attributes(custom)]\n#[custom( a ,zq3 )]\nfn  f( ) { }\n".into())], "bar.rs", "#[custom( a ,zq3 )]"),
            ("attributes on the declaration `mod bar;`", vec![("main.rs".into(), "#[rustfmt::skip::attributes(custom)]\nmod bar;\n".into()), ("bar.rs".into(), "#[custom( a ,zq4 )]\nfn  f( ) { }\n".into())], "bar.rs", "#[custom( a ,zq4 )]"),
            // control: the crate root's inner attribute does reach the module file
            ("control: macros as inner attribute of the crate root", vec![("main.rs".into(), "#![rustfmt::skip::macros(mac)]\nmod bar;\n".into()), ("bar.rs".into(), "fn  f( ) { mac!( 1 ,zq5 ) ; }\n".into())], "bar.rs", "mac!( 1 ,zq5 )"),
        ];
        for (k, (what, files, file, target)) in cases.iter().enumerate() {
            let r = run_scenario(&root, k, &Scenario { files: files.clone(), toml: String::new(), args: vec!["main.rs".into()], stdin: None });
            let after = r.files_after.iter().find(|(n, _)| n == file).and_then(|(_, t)| t.clone()).unwrap_or_default();
            let kept = count_occ(&after, target) == 1;
            if what.starts_with("control") {
                if !kept {
                    o.direct_failures.push(json!({"sig": "c04:crate-root-skip-macros-not-reaching-module-file", "what": "#![rustfmt::skip::macros(..)] of the crate root is not honoured in an out-of-line module file", "files": files, "after": after}));
                }
            } else {
                fails |= !kept;
            }
            detail.push(json!({"case": what, "kept": kept, "files": files, "after": after, "exit": r.code}));
        }
        o.probes.push(json!({"id": "C04-names-scope:out-of-line-module", "fails": fails, "what": "rustfmt::skip::macros / ::attributes as an inner attribute of an out-of-line module file, or on its `mod x;` declaration, is not honoured inside that file (format_file starts every file from the crate root's attributes only)", "detail": detail}));
    }
    // a skipped item in a macro_rules! body that cannot be laid out (an over-long line): the definition
    // is copied through remove_trailing_white_spaces, which also strips the blanks of the skipped item
    {
        let node = format!("fn  zqmr( ) {{   \n        let  {}=1 ;   \n}}", "y".repeat(110));
        let src = format!("macro_rules!  mr1 {{ ( ) => {{\nfn  nb( a:u32 ) {{   }}\n#[rustfmt::skip]\n   {}\n    }} ; }}\n", node);
        let r = fmt(&src, &[]);
        // control: the same without the over-long line is laid out and the skipped item is kept
        let node2 = "fn  zqmr( ) {   \n        let  y=1 ;   \n}";
        let src2 = format!("macro_rules!  mr1 {{ ( ) => {{\nfn  nb( a:u32 ) {{   }}\n#[rustfmt::skip]\n   {}\n    }} ; }}\n", node2);
        let r2 = fmt(&src2, &[]);
        o.probes.push(json!({"id": "C04-macro-def-fallback", "fails": r.status != Status::Ok || count_occ(&r.out, &node) != 1, "what": "a #[rustfmt::skip] item with trailing blanks inside a macro_rules! body that cannot be laid out loses its trailing blanks (macros.rs rewrite_macro_def falls back to remove_trailing_white_spaces(snippet) for the whole definition)", "detail": {"src": src, "out": r.out, "control_kept_when_the_body_is_laid_out": count_occ(&r2.out, node2) == 1}}));
    }
    // a skipped STATEMENT in a macro body with attribute lines after the first: visit_stmt hands
    // push_skipped_with_span the statement without its attributes as main_span, the recorded range starts
    // at min(last attribute line + 1, statement line), and MacroBranch::rewrite indents the attribute lines
    // in between (again on every run).  The first attribute line is meant to be indented
    // (tests/target/issue-3105.rs pins it), so passing stmt.span() is not a fix the suite accepts.
    {
        let full = "#[rustfmt::skip]\n  #[cfg(any(feature = \"small-tables\",\n                  feature = \"tiny-tables\"))]\n     #[allow(  unused  )]\n        let  zqk1  =  [1, 2,\n             3, 4];";
        let src = format!("macro_rules! m {{\n    ($a:expr) => {{\n        let  a=1 ;\n            {}\n        let  b=2 ;\n    }};\n}}\n", full);
        let r = fmt(&src, &[]);
        let r2 = fmt(&r.out, &[]);
        // control: with every attribute on the first line the statement is kept
        let full_c = "#[rustfmt::skip] #[allow(  unused  )]\n        let  zqk1  =  [1, 2,\n             3, 4];";
        let src_c = format!("macro_rules! m {{\n    ($a:expr) => {{\n        let  a=1 ;\n            {}\n        let  b=2 ;\n    }};\n}}\n", full_c);
        let rc = fmt(&src_c, &[]);
        o.probes.push(json!({"id": "C04-macro-body-stmt-attrs", "fails": r.status != Status::Ok || count_occ(&r.out, full) != 1, "what": "a #[rustfmt::skip] statement directly in a macro_rules! body with further attribute lines (a second attribute, a multi-line attribute) gets those lines re-indented, by the body indentation again on every run: the recorded skipped range of a statement starts below its attribute lines and MacroBranch::rewrite indents every line outside a range", "detail": {"src": src, "out": r.out, "out_second_pass": r2.out, "second_pass_moves_them_again": r2.out != r.out, "control_all_attributes_on_the_first_line_kept": count_occ(&rc.out, full_c) == 1}}));
    }
    // a skipped node inside an impl / trait body, a closure or an inner block inside a macro body: those
    // are formatted by nested visitors whose skipped ranges are dropped (impl / trait) or appended
    // unshifted (blocks), so the continuation lines of the node count as formatted code and are indented
    {
        let cases: Vec<(&str, String, &str)> = vec![
            ("impl method", "impl  S {\n            fn  a( ) { }\n            #[rustfmt::skip]\n            fn  zqk2( ) {\n  let  x  =  1 ;\n            }\n        }".into(), "fn  zqk2( ) {\n  let  x  =  1 ;\n            }"),
            ("trait method", "trait  T {\n            #[rustfmt::skip]\n            fn  zqk2( ) {\n  let  x  =  1 ;\n            }\n        }".into(), "fn  zqk2( ) {\n  let  x  =  1 ;\n            }"),
            ("statement in a closure body", "fn  g( ) {\n            let  c  =  || {\n            #[rustfmt::skip]\n            let  zqk2  =  [ 1 ,\n  2 ] ;\n            } ;\n        }".into(), "let  zqk2  =  [ 1 ,\n  2 ] ;"),
            // control: the same statement directly in the fn's body (the same visitor) is kept
            ("control: statement in the fn body", "fn  g( ) {\n            #[rustfmt::skip]\n            let  zqk2  =  [ 1 ,\n  2 ] ;\n        }".into(), "let  zqk2  =  [ 1 ,\n  2 ] ;"),
        ];
        let mut detail = vec![];
        let mut fails = false;
        for (what, body, node) in &cases {
            let src = format!("macro_rules! m {{\n    ($a:expr) => {{\n        {}\n    }};\n}}\n", body);
            let r = fmt(&src, &[]);
            let kept = r.status == Status::Ok && count_occ(&r.out, node) == 1;
            if what.starts_with("control") {
                if !kept {
                    o.direct_failures.push(json!({"sig": "c04:skipped-statement-in-fn-in-macro-body-not-verbatim", "what": "a skipped statement directly in the body of a fn of a macro body is not kept", "src": src, "out": r.out}));
                }
            } else {
                fails |= !kept;
            }
            detail.push(json!({"case": what, "kept": kept, "src": src, "out": r.out}));
        }
        o.probes.push(json!({"id": "C04-macro-body-nested-visitor", "fails": fails, "what": "a #[rustfmt::skip] node inside an impl or trait body, a closure or an inner block that sits in a macro_rules! body gets its lines after the first re-indented (again on every run): nested visitors' skipped ranges are dropped (format_impl, format_trait) or merged unshifted (rewrite_block_inner), and MacroBranch::rewrite indents every line outside a recorded range", "detail": detail}));
    }
    // standard input with an inner skip attribute is echoed from rustc's normalised copy of the text
    {
        let input = "#![rustfmt::skip]\r\nfn  f( ) { }\r\n";
        let r = run_scenario(&root, 20, &Scenario { files: vec![], toml: String::new(), args: vec![], stdin: Some(input.into()) });
        let r2 = run_scenario(&root, 21, &Scenario { files: vec![], toml: "disable_all_formatting = true\n".into(), args: vec![], stdin: Some(input.into()) });
        let r3 = run_scenario(&root, 22, &Scenario { files: vec![], toml: String::new(), args: vec!["--config".into(), "newline_style=Windows".into()], stdin: Some(input.into()) });
        // the same copy has lost a byte order mark
        let input_bom = "\u{feff}#![rustfmt::skip]\nfn  f( ) { }\n";
        let rb = run_scenario(&root, 23, &Scenario { files: vec![], toml: String::new(), args: vec![], stdin: Some(input_bom.into()) });
        let rb2 = run_scenario(&root, 24, &Scenario { files: vec![], toml: "disable_all_formatting = true\n".into(), args: vec![], stdin: Some(input_bom.into()) });
        o.probes.push(json!({"id": "C04-stdin-skip-crlf", "fails": r.stdout != input || rb.stdout != input_bom, "what": "standard input that opts out with #![rustfmt::skip] and has CRLF line endings is echoed with LF line endings, and one that starts with a byte order mark is echoed without it (echo_back_stdin prints the source map's normalised text, before any newline_style handling)", "detail": {"input": input, "stdout": r.stdout, "exit": r.code, "with_disable_all_formatting_stdout_equals_input": r2.stdout == input, "with_newline_style_Windows_stdout_equals_input": r3.stdout == input, "bom_input_echoed_with_its_bom": rb.stdout == input_bom, "bom_input_with_disable_all_formatting_echoed_with_its_bom": rb2.stdout == input_bom}}));
    }
    // a skipped node in a file with CRLF line endings under the default newline_style (consequence of
    // F5 / C08: Auto looks at the normalised text, so the whole file, the verbatim copy included, gets LF)
    {
        let node = "fn  zqcrlf( ) {   \r\n    let  x=1;\r\n}";
        let text = format!("fn  a( ) {{ }}\r\n#[rustfmt::skip]\r\n{}\r\nfn  b( ) {{ }}\r\n", node);
        let r = run_scenario(&root, 30, &Scenario { files: vec![("lib.rs".into(), text.clone())], toml: String::new(), args: vec!["lib.rs".into()], stdin: None });
        let after = r.files_after[0].1.clone().unwrap_or_default();
        let r2 = run_scenario(&root, 31, &Scenario { files: vec![("lib.rs".into(), text.clone())], toml: "newline_style = \"Windows\"\n".into(), args: vec!["lib.rs".into()], stdin: None });
        let after2 = r2.files_after[0].1.clone().unwrap_or_default();
        o.probes.push(json!({"id": "C04-crlf-node", "fails": count_occ(&after, node) != 1, "what": "a #[rustfmt::skip] item in a file with CRLF line endings loses its carriage returns under the default newline_style=Auto (the file is rewritten with LF: F5 of C08 seen from C04)", "detail": {"before": text, "after": after, "exit": r.code, "kept_with_newline_style_Windows": count_occ(&after2, node) == 1}}));
    }
    // --- observations that are within the statement (never `fails`), kept in the evidence
    {
        // (1) a nested visitor's skipped range: the bytes are verbatim, the run reports trailing
        //     whitespace inside the skipped method and exits 1: C07's statement, not C04's
        let text = "struct S;\nstruct S;\nstruct S;\nstruct S;\nimpl S {\n    #[rustfmt::skip]\n    fn  f( ) {   \n    }\n}\n";
        let r = run_scenario(&root, 40, &Scenario { files: vec![("lib.rs".into(), text.into())], toml: String::new(), args: vec!["--check".into(), "lib.rs".into()], stdin: None });
        let after = r.files_after[0].1.clone().unwrap_or_default();
        o.probes.push(json!({"id": "C04-note-nested-skipped-range", "fails": after != text, "what": "skipped method inside an impl that starts below line 1: its bytes are verbatim (C04 holds); the run reports trailing whitespace inside it and exits 1 because the nested visitor's skipped range is lost (C07's subject)", "detail": {"exit": r.code, "reports_trailing_whitespace": r.stderr.contains("left behind trailing whitespace"), "file_unchanged": after == text}}));
        // (4) stdin + inner skip + --check: the input is echoed on stdout, exit 0 (the model's `echo`)
        let input = "#![rustfmt::skip]\nfn  f( ) { }\n";
        let r = run_scenario(&root, 41, &Scenario { files: vec![], toml: String::new(), args: vec!["--check".into()], stdin: Some(input.into()) });
        let rj = run_scenario(&root, 42, &Scenario { files: vec![], toml: String::new(), args: vec!["--emit".into(), "json".into()], stdin: Some(input.into()) });
        o.probes.push(json!({"id": "C04-note-stdin-skip-check-echo", "fails": r.code != Some(0), "what": "standard input with #![rustfmt::skip] under --check / --emit json: the whole input is written to stdout (not a diff, not JSON) and the exit status is 0: surprising, but the input is neither changed nor reported as differing", "detail": {"check_stdout_is_input": r.stdout == input, "check_exit": r.code, "json_stdout": rj.stdout, "json_exit": rj.code}}));
        // parameters are not in the statement's list (item, statement, expression, field, variant, arm, module)
        let text = "fn f(#[rustfmt::skip] p1 :  u32 ,   p2 :  u32) {}\n";
        let r = fmt(text, &[]);
        o.probes.push(json!({"id": "C04-note-param", "fails": r.status != Status::Ok, "what": "a skip attribute on a function parameter is ignored (parameters are not among the node kinds the property lists)", "detail": {"kept": count_occ(&r.out, "p1 :  u32") == 1, "out": r.out}}));
        // (10) other attributes of a skipped impl item are copied as written too
        let text = "impl S {\n    #[allow( dead_code )]\n    #[rustfmt::skip]\n    fn  f( ) { }\n}\n";
        let r = fmt(text, &[]);
        o.probes.push(json!({"id": "C04-note-assoc-item-attrs", "fails": r.status != Status::Ok || count_occ(&r.out, "fn  f( ) { }") != 1, "what": "visit_assoc_item hands push_skipped_with_span the item's span; the attributes above a skipped impl item are copied as written by the missing-text path", "detail": {"out": r.out}}));
    }
    let _ = std::fs::remove_dir_all(&root);
}

pub fn run(tier: &str, seed: u64, out: &Path) -> i32 {
    pool::install_panic_hook();
    let mut o = Outcome::new("C04", tier, seed);
    let thorough = tier == "thorough";
    let mut rng = Rng::new(seed ^ 0xc04);
    let only = std::env::var("C04_ONLY").unwrap_or_default();
    let want = |k: &str| only.is_empty() || only.split(',').any(|x| x == k);
    if want("attrs") { part_attrs(&mut o, &mut rng.fork(), thorough); } else { rng.fork(); }
    if want("ctx") { part_contexts(&mut o, &mut rng.fork(), thorough); } else { rng.fork(); }
    if want("gen") { part_generated_trim(&mut o, &mut rng.fork(), thorough); } else { rng.fork(); }
    if want("buffer") { part_buffer(&mut o, &mut rng.fork(), thorough); } else { rng.fork(); }
    if want("nodes") { part_e2e_nodes(&mut o, &mut rng.fork(), thorough); } else { rng.fork(); }
    if want("mbody") { part_e2e_macro_bodies(&mut o, &mut rng.fork(), thorough); } else { rng.fork(); }
    if want("mbodycorr") { part_mbody_corr(&mut o, &mut rng.fork(), thorough); } else { rng.fork(); }
    if want("codeblock") { part_codeblock_corr(&mut o, &mut rng.fork(), thorough); } else { rng.fork(); }
    if want("scoped") { part_e2e_scoped(&mut o, &mut rng.fork(), thorough); } else { rng.fork(); }
    if want("files") { part_files(&mut o, &mut rng.fork(), thorough, out); } else { rng.fork(); }
    if want("probes") { part_probes(&mut o, out); }
    o.notes.push("items and statements: the text from the first outer attribute / doc comment of the skipped node to its last token must occur exactly once (visit_item and visit_stmt copy that span as it is written); skip-marked nodes directly inside macro_rules! bodies are formatted twice and must survive both passes; generated are only nodes that the body formatter's top-level visitor reaches, and statements in macro bodies carry all their attributes on the first line (probes C04-macro-body-nested-visitor, C04-macro-body-stmt-attrs)".into());
    o.notes.push("the node of a skip attribute = source text from the first token after the node's outer attributes to its last token; separating commas of fields / variants / arms / arguments are list punctuation and not part of it; every node text carries an identifier that occurs nowhere else, so the oracle is: the text occurs exactly once in the output, after the preceding neighbour's identifier and before the following one's".into());
    o.notes.push("not generated, by construction of rustc's AST: an attribute written before `a = b` or `a + b` belongs to the leftmost operand only (`#[rustfmt::skip] x  =  1+2 ;` is reformatted except for `x`); `::rustfmt::skip` (leading `::`) is not a spelling the code or the property names (model and code agree: not accepted)".into());
    o.notes.push("outputs are compared modulo line endings when newline_style=Windows (whole-text conversion after formatting, C08); node texts are LF-only; the CRLF cases are the enumerated probes C04-crlf-node and C04-stdin-skip-crlf".into());
    o.notes.push("`ignore` cannot match standard input: this tree has no --stdin-filepath, stdin has no path, so the (stdin, ignored) rows of the model's table (theorem stdin_ignore_counterexample) cannot be produced by any invocation and are not a finding; the 16 realizable stdin rows and all 192 path rows are run".into());
    o.notes.push("probes named C04-note-* record behaviour that is surprising but within the statement; they never fail on the pinned tree and have no known-findings entry".into());
    o.notes.push("the buffer machine's operations `p` (imports.rs:58 pop) and `c` (items.rs:740 clear) are inline in other functions and are not driven by the correspondence; `k`, `r`, `m`, `s` are".into());
    o.notes.push("runs of the binary on generated node programs exit 1 in about one case in five with 'left behind trailing whitespace' (blanks after an attribute of a skipped node, after a neighbour preceding a skipped impl/trait item, or inside a skipped node reached through a nested visitor): the node's bytes are verbatim in all of them, so C04 holds; the diagnostic is C07's subject (lost skipped ranges of nested visitors)".into());
    o.finish(out, jobs())
}
