import RF.Model.Proto
import RF.Model.CargoFmt
/-!
Line-protocol operations for `cargo fmt` (C18).  All path / name / argument strings are hex
(`RF.Proto.encStr`, `-` = empty string); lists of strings are `encList` (`,`-joined, `_` = empty).

  cf.targets <strategy> <cwd> <manifest> <universe>                       -> targets | err:<kind>
      `get_targets(strategy, manifest_path)`
  cf.invocations <strategy> <cwd> <manifest> <universe> <fmt args> <check:0|1> -> argvs | err:<kind>
      the rustfmt argument vectors `format_crate` would spawn, in spawning order, with
      `fmt args` = the arguments after `--` and `--check` pushed as `execute` does
  cf.exit <statuses>                                                      -> <code>:<n spawned>
      `run_rustfmt`'s spawning loop + status folding + `handle_command_status` over processes that
      end with the given statuses, in spawning order (`n spawned` counts a failed spawn too)
  cf.msgfmt <fmt> <args>                                                  -> ok:<list> | err:emit | err:check | err:invalid
      `convert_message_format_to_rustfmt_args`
  cf.execute <opts> <cwd> <universe> <statuses>                           -> <exit>|<argvs>
      the whole of `execute`; the i-th started process ends with the i-th status (missing = c0)
  cf.strategy <opts>                                                      -> root | all | some:<list>
  cf.path <string>                                                        -> string   (normal form of `Path::components()`)
  cf.pathcmp <a> <b>                                                      -> lt | eq | gt   (`impl Ord for Path`)
  cf.namefun <universe>                                                   -> 0 | 1   (oracle `World.namesFunctional`)

strategy   `root` | `all` | `some:<list of names>`
cwd        string (the process working directory)
manifest   `none` | string (`--manifest-path`, already accepted by the `Cargo.toml` test)
universe   `_` or tokens joined by `;`, read left to right:
             `M:<manifest>:ok:<workspace_root>`   a `cargo metadata --no-deps` answer starts (manifest `none` =
                                                  the answer when no `--manifest-path` is given)
             `M:<manifest>:err`                   `cargo metadata` fails for this manifest
             `P:<name>:<manifest_path>`           next package of the current answer
             `T:<src_path>:<kind list>:<edition>` next target of the current package (edition 2015|2018|2021|2024|2027|2030)
             `D:<name>` / `D:<name>:<path>`       next dependency of the current package, without / with `path`
             `L:<path>:<canonical>`               `canonicalize(path)` = canonical (unlisted paths are their own)
             `X:<path>`                           `canonicalize(path)` fails
           a manifest "exists" iff it has an `M` token; lookups compare paths by components
targets    `_` or `<path>@<edition>@<kind>` joined by `,`, ascending by path (the `BTreeSet` order)
argvs      `_` or argument vectors (each a list of strings) joined by `;`
statuses   `_` or `c<n>` (exit code n) | `sig` (killed by a signal) | `spawn` (could not be started), joined by `,`
opts       `<q><v><V><a><c>:<packages>:<manifest>:<message-format>:<rustfmt options>` with five 0/1 digits for
           --quiet --verbose --version --all --check, lists of strings, and `none` | string
err kinds  `metadata` `io` `notargets` `notmember:<name>` `panic` (`target.kind[0]` on an empty `kind`) `spawn`
           `fuel` (never answered: the driver gives the recursion `World.fuel`)
-/
namespace RF.Driver.CargoFmt
open RF.Proto RF.CargoFmt

def decS (s : String) : Option Str := (decStr s).map String.toList
def encS (s : Str) : String := encStr (String.ofList s)
def decSL (s : String) : Option (List Str) := (decList s).map (·.map String.toList)
def encSL (l : List Str) : String := encList (l.map String.ofList)

def decOptS (s : String) : Option (Option Str) :=
  if s == "none" then some none else (decS s).map some

def decStrategy (s : String) : Option Strategy :=
  if s == "root" then some .root
  else if s == "all" then some .all
  else match s.splitOn ":" with
    | ["some", l] => (decSL l).map .some
    | _ => none

def decEdition (s : String) : Option Edition :=
  match s with
  | "2015" => some .e2015 | "2018" => some .e2018 | "2021" => some .e2021
  | "2024" => some .e2024 | "2027" => some .e2027 | "2030" => some .e2030
  | _ => none

/-- Parser state: finished answers (reversed), the open answer, links (reversed). -/
structure PState where
  done : List (Option Path × Except Str Metadata) := []
  cur : Option (Option Path × Str × List Package) := none   -- packages reversed, inner lists reversed
  links : List (Path × Option Path) := []

def closePkg (p : Package) : Package := { p with targets := p.targets.reverse, deps := p.deps.reverse }

def PState.close (st : PState) : PState :=
  match st.cur with
  | none => st
  | some (m, root, pkgs) =>
    { st with done := (m, .ok ⟨root, (pkgs.map closePkg).reverse⟩) :: st.done, cur := none }

def stepTok (st : PState) (tok : String) : Option PState :=
  match tok.splitOn ":" with
  | ["M", m, "ok", root] => do
    let m ← decOptS m
    let root ← decS root
    pure { st.close with cur := some (m.map parsePath, root, []) }
  | ["M", m, "err"] => do
    let m ← decOptS m
    let st := st.close
    pure { st with done := (m.map parsePath, .error "cargo metadata failed".toList) :: st.done }
  | ["P", n, mp] => do
    let n ← decS n
    let mp ← decS mp
    match st.cur with
    | some (m, root, pkgs) => pure { st with cur := some (m, root, ⟨n, mp, [], []⟩ :: pkgs) }
    | none => none
  | ["T", src, kinds, ed] => do
    let src ← decS src
    let kinds ← decSL kinds
    let ed ← decEdition ed
    match st.cur with
    | some (m, root, p :: pkgs) =>
      pure { st with cur := some (m, root, { p with targets := ⟨src, kinds, ed⟩ :: p.targets } :: pkgs) }
    | _ => none
  | ["D", n] => do
    let n ← decS n
    match st.cur with
    | some (m, root, p :: pkgs) =>
      pure { st with cur := some (m, root, { p with deps := ⟨n, none⟩ :: p.deps } :: pkgs) }
    | _ => none
  | ["D", n, path] => do
    let n ← decS n
    let path ← decS path
    match st.cur with
    | some (m, root, p :: pkgs) =>
      pure { st with cur := some (m, root, { p with deps := ⟨n, some path⟩ :: p.deps } :: pkgs) }
    | _ => none
  | ["L", a, b] => do
    let a ← decS a
    let b ← decS b
    pure { st with links := (parsePath a, some (parsePath b)) :: st.links }
  | ["X", a] => do
    let a ← decS a
    pure { st with links := (parsePath a, none) :: st.links }
  | _ => none

def decWorld (cwd : String) (u : String) : Option World := do
  let cwd ← decS cwd
  let toks := if u == "_" then [] else u.splitOn ";"
  let st ← toks.foldlM stepTok ({} : PState)
  let st := st.close
  pure { answers := st.done.reverse, links := st.links.reverse, cwd := parsePath cwd }

def encErr : Err → String
  | .metadata _ => "err:metadata"
  | .io => "err:io"
  | .noTargets => "err:notargets"
  | .notMember n => "err:notmember:" ++ encS n
  | .kindPanic => "err:panic"
  | .spawn => "err:spawn"

def encTargets (ts : TSet) : String :=
  if ts.isEmpty then "_" else
  String.intercalate "," (ts.map fun t => s!"{encS t.path.render}@{String.ofList t.edition.str}@{encS t.kind}")

def encArgvs (as : List (List Str)) : String :=
  if as.isEmpty then "_" else String.intercalate ";" (as.map encSL)

def decStatus (s : String) : Option Status :=
  if s == "sig" then some .signal
  else if s == "spawn" then some .spawnErr
  else match s.toList with
    | 'c' :: r => (String.ofList r).toNat?.map .code
    | _ => none

def decStatuses (s : String) : Option (List Status) :=
  if s == "_" then some [] else (s.splitOn ",").mapM decStatus

def decBit (c : Char) : Option Bool :=
  if c == '0' then some false else if c == '1' then some true else none

def decOpts (s : String) : Option Opts :=
  match s.splitOn ":" with
  | [bits, pk, mp, mf, ro] =>
    match bits.toList with
    | [q, v, ver, a, c] => do
      let q ← decBit q
      let v ← decBit v
      let ver ← decBit ver
      let a ← decBit a
      let c ← decBit c
      let pk ← decSL pk
      let mp ← decOptS mp
      let mf ← decOptS mf
      let ro ← decSL ro
      pure { quiet := q, verbose := v, version := ver, formatAll := a, check := c, packages := pk,
             manifestPath := mp, messageFormat := mf, rustfmtOptions := ro }
    | _ => none
  | _ => none

/-- The status function "the i-th started process ends with `ss[i]`": the argument vectors of one
run are pairwise different (different editions), so a dry run fixes their positions. -/
def runByPosition (plan : List (List Str)) (ss : List Status) (a : List Str) : Status :=
  match plan.findIdx? (· == a) with
  | some i => ss.getD i (.code 0)
  | none => .code 0

def handle (op : String) (args : List String) : Option String :=
  match op, args with
  | "cf.targets", [st, cwd, mp, u] => do
    let st ← decStrategy st
    let w ← decWorld cwd u
    let mp ← decOptS mp
    match getTargets w.env w.fuel st (mp.map parsePath) with
    | none => pure "err:fuel"
    | some (.error e) => pure (encErr e)
    | some (.ok ts) => pure (encTargets ts)
  | "cf.invocations", [st, cwd, mp, u, fa, chk] => do
    let st ← decStrategy st
    let w ← decWorld cwd u
    let mp ← decOptS mp
    let fa ← decSL fa
    let chk ← if chk == "1" then some true else if chk == "0" then some false else none
    match rustfmtArgs { rustfmtOptions := fa, check := chk } with
    | .error _ => none
    | .ok fmtArgs =>
      match getTargets w.env w.fuel st (mp.map parsePath) with
      | none => pure "err:fuel"
      | some (.error e) => pure (encErr e)
      | some (.ok ts) => pure (encArgvs ((planInvocations ts fmtArgs).map Invocation.argv))
  | "cf.exit", [ss] => do
    let ss ← decStatuses ss
    let plan : List (List Str) := (List.range ss.length).map fun i => [(toString i).toList]
    let (tr, ok) := spawnLoop (runByPosition plan ss) plan
    let code := if ok then foldStatus (tr.map (·.2)) else errExit .spawn
    pure s!"{code}:{tr.length}"
  | "cf.msgfmt", [f, as] => do
    let f ← decS f
    let as ← decSL as
    match convertMessageFormat f as with
    | .ok r => pure ("ok:" ++ encSL r)
    | .error .emitWithJson => pure "err:emit"
    | .error .checkWithJson => pure "err:check"
    | .error .invalid => pure "err:invalid"
  | "cf.execute", [o, cwd, u, ss] => do
    let o ← decOpts o
    let w ← decWorld cwd u
    let ss ← decStatuses ss
    match execute w.env w.fuel (fun _ => .code 0) o with
    | none => pure "err:fuel"
    | some dry =>
      match execute w.env w.fuel (runByPosition (dry.trace.map (·.1)) ss) o with
      | none => pure "err:fuel"
      | some out => pure s!"{out.exit}|{encArgvs (out.trace.map (·.1))}"
  | "cf.strategy", [o] => do
    let o ← decOpts o
    match Strategy.fromOpts o with
    | .root => pure "root"
    | .all => pure "all"
    | .some l => pure ("some:" ++ encSL l)
  | "cf.path", [s] => do
    let s ← decS s
    pure (encS (parsePath s).render)
  | "cf.pathcmp", [a, b] => do
    let a ← decS a
    let b ← decS b
    match cmpPath (parsePath a) (parsePath b) with
    | .lt => pure "lt"
    | .eq => pure "eq"
    | .gt => pure "gt"
  | "cf.namefun", [u] => do
    let w ← decWorld "-" u
    pure (if w.namesFunctional then "1" else "0")
  | _, _ => none

end RF.Driver.CargoFmt
