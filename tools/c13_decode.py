#!/usr/bin/env python3
"""Decode a C13 request line (mod.resolvec / mod.oracle / mod.filemapc ... <fs> <root> ...) into readable form, and
optionally write the tree to a directory:  tools/c13_decode.py '<request>' [--write DIR]
(absolute keys are re-rooted under DIR by stripping their common prefix up to the case directory `w`)."""
import os, sys

def unhex(c):
    return "" if c == "-" else bytes.fromhex(c).decode()

def path(p):
    if p == "-":
        return ""
    comps = [unhex(c) for c in p.split("/")]
    return ("/" + "/".join(comps[1:])) if comps and comps[0] == "/" else "/".join(comps)

def attr(a):
    if a == "s":
        return "#[rustfmt::skip]"
    if a[0] == "p":
        return '#[path = "%s"]' % unhex(a[1:])
    return '#[cfg_attr(any(), path = "%s")]' % unhex(a[1:])

def decl(ts, ind):
    kind, name, k = ts.pop(0), unhex(ts.pop(0)), int(ts.pop(0))
    out = [ind + attr(ts.pop(0)) for _ in range(k)]
    if kind == "e":
        out.append(f"{ind}mod {name};")
    else:
        n = int(ts.pop(0))
        out.append(f"{ind}mod {name} {{")
        for _ in range(n):
            out += decl(ts, ind + "    ")
        out.append(ind + "}")
    return out

def decls(s):
    ts = s.split(",")
    n = int(ts.pop(0))
    out = []
    for _ in range(n):
        out += decl(ts, "")
    return out

def fs(s):
    tree = {}
    if s == "_":
        return tree
    for e in s.split(";"):
        parts = e.split(":")
        if parts[1] == "d":
            tree[path(parts[0])] = None
        else:
            text = ("#![rustfmt::skip]\n" if parts[1][1] == "1" else "") + ("// @generated\n" if parts[1][2] == "1" else "") + "fn  zz( ){}\n" + "".join(l + "\n" for l in decls(parts[2]))
            tree[path(parts[0])] = text
    return tree

def main():
    req = sys.argv[1].split()
    op, tree, root = req[0], fs(req[1]), path(req[2])
    def show(x):
        try:
            return ",".join(path(y) for y in x.split(",")) if len(x) > 3 else x
        except ValueError:
            return x
    print("op:", op, "root:", root, "rest:", [show(x) for x in req[3:]][:6])
    for k, v in tree.items():
        print("----", k, "(dir)" if v is None else "")
        if v:
            print(v, end="")
    if "--write" in sys.argv:
        d = sys.argv[sys.argv.index("--write") + 1]
        keys = list(tree)
        pre = os.path.commonpath([root] + keys) if root.startswith("/") else ""
        for k, v in tree.items():
            rel = os.path.relpath(k, pre) if pre else k
            full = os.path.join(d, rel)
            if v is None:
                os.makedirs(full, exist_ok=True)
            else:
                os.makedirs(os.path.dirname(full), exist_ok=True)
                open(full, "w").write(v)
        print("written under", d, "root:", os.path.relpath(root, pre) if pre else root)

if __name__ == "__main__":
    main()
