struct S(u8);
impl Trait for S {
    reuse to_reuse::foo { self.0 }
}
