import RF.Lemmas.FileLines

/-!
# C17  file_lines confines changes to the selected code — the range algebra

Theorems about `RF.FileLines` (the model of `Range`, `normalize_ranges`, `FileLines` and of the
guard `out_of_file_lines_range!`).  Quantification: every list of ranges (any order, duplicates,
overlapping, adjacent, empty = inverted, any size), every line number, every file key type `α`
and every canonicalisation oracle `canon`.  A "line of a range" is `r.lo ≤ n ≤ r.hi`
(`Range.hasLine`), so an inverted range has no line.

What is *not* here: that every rewriter consults the guard (searched by the e2e oracle), and
F7 (a run of `use` items is rewritten as a whole when one of them is selected).
-/
namespace RF.Props.C17
open RF.FileLines RF.FileLines.Range

/-- `Range::intersects` says exactly "the two ranges share a line".  (For an empty range the code
returns `false`, and an empty range has no line, so no side condition is needed.) -/
theorem intersects_iff (a b : Range) :
    a.intersects b = true ↔ ∃ n, a.hasLine n = true ∧ b.hasLine n = true :=
  RF.Lemmas.FileLines.intersects_iff a b

/-- `Range::contains` says "every line of `other` is a line of `self`". -/
theorem contains_iff_subset (a b : Range) :
    a.contains b = true ↔ ∀ n, b.hasLine n = true → a.hasLine n = true := by
  rw [RF.Lemmas.FileLines.contains_iff]
  simp only [RF.Lemmas.FileLines.hasLine_iff]
  constructor
  · intro h n hn; omega
  · intro h
    by_cases hb : b.hi < b.lo
    · exact Or.inl hb
    · have h1 := h b.lo (by omega)
      have h2 := h b.hi (by omega)
      omega

/-- When `merge` succeeds the result has exactly the lines of the two ranges. -/
theorem merge_is_union (a b m : Range) (h : a.merge b = some m) (n : Nat) :
    m.hasLine n = true ↔ a.hasLine n = true ∨ b.hasLine n = true :=
  RF.Lemmas.FileLines.merge_is_union a b m h n

/-- `merge` fails exactly when one range is empty or at least one unselected line separates
them; in particular two non-empty ranges whose union is an interval always merge. -/
theorem merge_fails_iff (a b : Range) :
    a.merge b = none ↔
      (a.isEmpty = true ∨ b.isEmpty = true ∨ a.hi + 1 < b.lo ∨ b.hi + 1 < a.lo) :=
  RF.Lemmas.FileLines.merge_none_iff a b

/-- `ranges.sort()` is modelled by an insertion sort; any list that is a sorted permutation of
the input (what every correct sorting algorithm returns) equals the model's. -/
theorem sort_unique (l out : List Range) (hs : out.Pairwise (fun a b => a.le b = true))
    (hp : out.Perm l) : out = sortRanges l :=
  RF.Lemmas.FileLines.sort_unique l out hs hp

/-- `normalize_ranges` selects exactly the lines of the given ranges: overlapping, adjacent,
duplicated, unordered, empty and inverted ranges all behave as their union. -/
theorem normalize_same_lines (rs : List Range) (n : Nat) :
    containsLine (normalizeRanges rs) n = true ↔ ∃ r ∈ rs, r.hasLine n = true :=
  RF.Lemmas.FileLines.normalize_same_lines rs n

/-- The documented invariant of `FileLines` ("non-overlapping ranges sorted by their start
point") holds, and more (no two are adjacent, none is empty) — when no given range is empty. -/
theorem normalize_sorted_disjoint_partial (rs : List Range) (h : ∀ r ∈ rs, r.isEmpty = false) :
    (normalizeRanges rs).Pairwise (fun a b => a.hi + 1 < b.lo) ∧
    ∀ r ∈ normalizeRanges rs, r.isEmpty = false :=
  RF.Lemmas.FileLines.normalize_sorted_disjoint rs h

example : ∀ r ∈ [(⟨5, 7⟩ : Range), ⟨1, 3⟩, ⟨4, 4⟩, ⟨10, 12⟩, ⟨11, 20⟩], r.isEmpty = false := by decide
example : normalizeRanges [⟨5, 7⟩, ⟨1, 3⟩, ⟨4, 4⟩, ⟨10, 12⟩, ⟨11, 20⟩] = [⟨1, 7⟩, ⟨10, 20⟩] := by decide

/-- The hypothesis is needed: an empty (inverted) range that sorts between two overlapping ranges
blocks their merge, the output keeps the empty range and two overlapping ranges.  The invariant
stated in the source comment is false for `[1,3], [2,0], [3,5]`. -/
theorem normalize_sorted_disjoint_counterexample :
    normalizeRanges [⟨1, 3⟩, ⟨3, 5⟩, ⟨2, 0⟩] = [⟨1, 3⟩, ⟨2, 0⟩, ⟨3, 5⟩] ∧
    ¬ (normalizeRanges [⟨1, 3⟩, ⟨3, 5⟩, ⟨2, 0⟩]).Pairwise (fun a b => a.hi + 1 < b.lo) ∧
    normalizeRanges [⟨1, 3⟩, ⟨3, 5⟩] = [⟨1, 5⟩] := by
  decide

/-- On the normalised list, `contains_range lo hi` (used by the missed-span writer for comments
and blank lines) answers "every line of `lo..=hi` is selected" — when no given range is empty and
the query is not empty. -/
theorem containsRange_iff_partial (rs : List Range) (h : ∀ r ∈ rs, r.isEmpty = false)
    (lo hi : Nat) (hle : lo ≤ hi) :
    containsRange (normalizeRanges rs) lo hi = true ↔
      ∀ n, lo ≤ n → n ≤ hi → ∃ r ∈ rs, r.hasLine n = true :=
  RF.Lemmas.FileLines.containsRange_iff_of_nonempty rs h lo hi hle

example : containsRange (normalizeRanges [⟨4, 6⟩, ⟨1, 3⟩]) 2 5 = true := by decide
example : containsRange (normalizeRanges [⟨5, 6⟩, ⟨1, 3⟩]) 2 5 = false := by decide

/-- … and it is false without the first hypothesis: with `[1,3], [2,0], [3,5]` every line of
`2..=4` is selected (`contains_line` says so) but `contains_range 2 4` is `false`; without the
empty range it is `true`.  So here the selection does *not* behave as the union of its ranges. -/
theorem containsRange_counterexample :
    (∀ n, 2 ≤ n → n ≤ 4 → containsLine (normalizeRanges [⟨1, 3⟩, ⟨2, 0⟩, ⟨3, 5⟩]) n = true) ∧
    containsRange (normalizeRanges [⟨1, 3⟩, ⟨2, 0⟩, ⟨3, 5⟩]) 2 4 = false ∧
    containsRange (normalizeRanges [⟨1, 3⟩, ⟨3, 5⟩]) 2 4 = true := by
  refine ⟨?_, by decide, by decide⟩
  intro n h1 h2
  have : n = 2 ∨ n = 3 ∨ n = 4 := by omega
  rcases this with rfl | rfl | rfl <;> decide

/-- An empty query range is "contained" exactly when the file has at least one range (so not for
a file that is absent from the selection, although every line of the empty query is selected). -/
theorem containsRange_empty_query (rs : List Range) (lo hi : Nat) (hlt : hi < lo) :
    containsRange (normalizeRanges rs) lo hi = true ↔ rs ≠ [] :=
  RF.Lemmas.FileLines.containsRange_empty_query rs lo hi hlt

/-- `intersects` on any list of ranges: some line of `lo..=hi` is selected. -/
theorem intersectsRange_iff (rs : List Range) (lo hi : Nat) :
    intersectsRange rs lo hi = true ↔ ∃ n, lo ≤ n ∧ n ≤ hi ∧ containsLine rs n = true :=
  RF.Lemmas.FileLines.intersectsRange_iff rs lo hi

/-- `hi + 1` in `adjacent_to` cannot overflow when every upper bound is below `usize::MAX`:
the checked normalisation then returns the unchecked one. -/
theorem normalize_no_overflow_partial (rs : List Range) (h : ∀ r ∈ rs, r.hi < usizeMax) :
    normalizeRangesChecked rs = some (normalizeRanges rs) :=
  RF.Lemmas.FileLines.normalizeChecked_eq rs h

example : ∀ r ∈ [(⟨1, 2⟩ : Range), ⟨5, 2 ^ 64 - 2⟩], r.hi < usizeMax := by decide

/-- With an upper bound of `usize::MAX` ("to the end of the file") and a second range for the
same file, a build with overflow checks panics in `adjacent_to`. -/
theorem normalize_overflow_counterexample :
    normalizeRangesChecked [⟨1, 2⟩, ⟨5, 2 ^ 64 - 1⟩] = none := by
  decide

/-! ### The decidable oracles the driver evaluates on the implementation's output -/

/-- `unionRange` decides "every line of `lo..=hi` is in some given range". -/
theorem unionRange_iff (rs : List Range) (lo hi : Nat) :
    unionRange rs lo hi = true ↔ ∀ n, lo ≤ n → n ≤ hi → ∃ r ∈ rs, r.hasLine n = true :=
  RF.Lemmas.FileLines.unionRange_iff rs lo hi

/-- `unionMeets` decides "some line of `lo..=hi` is in some given range". -/
theorem unionMeets_iff (rs : List Range) (lo hi : Nat) :
    unionMeets rs lo hi = true ↔ ∃ n, lo ≤ n ∧ n ≤ hi ∧ ∃ r ∈ rs, r.hasLine n = true :=
  RF.Lemmas.FileLines.unionMeets_iff rs lo hi

/-- `sortedDisjoint` decides the conclusion of `normalize_sorted_disjoint_partial`. -/
theorem sortedDisjoint_iff (l : List Range) :
    sortedDisjoint l = true ↔
      l.Pairwise (fun a b => a.hi + 1 < b.lo) ∧ ∀ r ∈ l, r.isEmpty = false :=
  RF.Lemmas.FileLines.sortedDisjoint_iff l

/-- The three query methods against the oracles, in the form the harness checks them: for raw
ranges `rs` without an empty one, and a non-empty query. -/
theorem queries_eq_oracles_partial (rs : List Range) (h : ∀ r ∈ rs, r.isEmpty = false)
    (lo hi n : Nat) (hle : lo ≤ hi) :
    containsLine (normalizeRanges rs) n = containsLine rs n ∧
    containsRange (normalizeRanges rs) lo hi = unionRange rs lo hi ∧
    intersectsRange (normalizeRanges rs) lo hi = unionMeets rs lo hi ∧
    sortedDisjoint (normalizeRanges rs) = true := by
  refine ⟨RF.Lemmas.FileLines.containsLine_normalize rs n, ?_, ?_, ?_⟩
  · rw [Bool.eq_iff_iff, containsRange_iff_partial rs h lo hi hle, unionRange_iff]
  · rw [Bool.eq_iff_iff, intersectsRange_iff, unionMeets_iff]
    simp only [normalize_same_lines]
  · rw [sortedDisjoint_iff]; exact normalize_sorted_disjoint_partial rs h

/-! ### `FileLines` and the guard -/

section
variable {α : Type} [DecidableEq α]

/-- `FileLines::from_ranges` followed by `contains_line`: a line of a file is selected exactly
when one of the ranges given for that file (after canonicalisation of the name) has it. -/
theorem fromRanges_selects_union (m : List (α × List Range)) (canon : α → Option α) (file : α)
    (n : Nat) :
    (FileLines.fromRanges m).containsLine canon file n = true ↔
      ∃ r ∈ RF.Lemmas.FileLines.rangesOf m canon file, r.hasLine n = true :=
  RF.Lemmas.FileLines.fromRanges_containsLine m canon file n

/-- The guard `out_of_file_lines_range!` is true exactly when a selection was given and no line
of the span's line range is selected. -/
theorem guard_iff_no_intersection (fl : FileLines α) (canon : α → Option α)
    (range : LineRange α) :
    outOfFileLinesRange fl canon range = true ↔
      fl.isAll = false ∧
      ¬ ∃ n, range.lo ≤ n ∧ n ≤ range.hi ∧ fl.containsLine canon range.file n = true :=
  RF.Lemmas.FileLines.guard_iff fl canon range

/-- An empty selection (`--file-lines '[]'`) makes the guard true for every span of every file:
nothing is formatted. -/
theorem empty_selection_formats_nothing (canon : α → Option α) (range : LineRange α) :
    outOfFileLinesRange (FileLines.fromRanges ([] : List (α × List Range))) canon range = true :=
  RF.Lemmas.FileLines.guard_of_no_ranges [] canon range (by
    simp only [RF.Lemmas.FileLines.rangesOf, RF.FileLines.lookup]
    cases canon range.file <;> rfl)

/-- More generally the guard is true for every span of a file that the selection does not name,
that cannot be canonicalised, or that has an empty list of ranges. -/
theorem unnamed_file_formats_nothing (m : List (α × List Range)) (canon : α → Option α)
    (range : LineRange α) (h : RF.Lemmas.FileLines.rangesOf m canon range.file = []) :
    outOfFileLinesRange (.map m) canon range = true :=
  RF.Lemmas.FileLines.guard_of_no_ranges m canon range h

example : RF.Lemmas.FileLines.rangesOf [("a.rs", [(⟨1, 2⟩ : Range)])] some "b.rs" = [] := by decide
example : outOfFileLinesRange (FileLines.fromRanges [("a.rs", [⟨4, 6⟩, ⟨1, 3⟩])]) some
    ⟨"a.rs", 7, 9⟩ = true := by decide
example : outOfFileLinesRange (FileLines.fromRanges [("a.rs", [⟨4, 6⟩, ⟨1, 3⟩])]) some
    ⟨"a.rs", 6, 9⟩ = false := by decide

/-- With no selection (`FileLines::all`) the guard is never true. -/
theorem all_never_out (canon : α → Option α) (range : LineRange α) :
    outOfFileLinesRange (FileLines.all : FileLines α) canon range = false := rfl

end

/-- `lookup_line_range` adds the same offset to both ends: 1 (lines are 1-based), plus 1 when
the snippet starts with a newline — also to the upper end. -/
theorem lookupLineRange_offsets {α} (file : α) (loLine hiLine : Nat) (nl : Bool) :
    (lookupLineRange file loLine hiLine nl).lo = loLine + 1 + (if nl then 1 else 0) ∧
    (lookupLineRange file loLine hiLine nl).hi = hiLine + 1 + (if nl then 1 else 0) := by
  simp only [lookupLineRange]; omega

end RF.Props.C17
