import RF.Model.Proto
import RF.Model.Modules
import RF.Model.ModMacros
/-!
Line-protocol operations for the module resolver (C13).

## Encodings (all blank-free)

* `comp`   one path component: hex of its UTF-8 bytes (`2f` is the root component `/`, `2e2e` is `..`)
* `path`   components joined by `/`; the empty path is `-`.  Example `src/lib.rs` = `737263/6c69622e7273`.
           An absolute path starts with the component `2f`.
* `attr`   `s` (`#[rustfmt::skip]`), `p<hex>` (`#[path = ".."]`), `c<hex>` (`#[cfg_attr(_, path = "..")]`);
           the empty string is `-` (`p-`).
* `decls`  a `,`-joined token stream in prefix form:
             decls := <n> , decl*n
             decl  := e , <name hex> , <k> , attr*k                    -- `mod name;`
                    | i , <name hex> , <k> , attr*k , <n> , decl*n     -- `mod name { .. }`
                    | m , <shape> , <nb> , (<n> , decl*n)*nb            -- `cfg_if! { if .. { b0 } else .. { b1 } .. }`
                    | t , <shape> , <nb> , (<n> , decl*n)*nb            -- `cfg_match! { cfg(..) => { a0 } .. }`
                    | o                                                 -- any other item (fn, use, foo!(), ..)
                    | j                                                 -- tokens `parse_item` rejects
             shape := c (well-formed chain) | l (accepted by parse_cfg_if only) | b (rejected by it)
           so a file without `mod` items is `0`.  Macro calls are sent as they are written: the model
           (`RF/Model/ModMacros.lean`) decides what the resolver discovers in them (`codeFS`) and what
           the specification expands them to (`specFS`).
* `fs`     the tree on disk: `_` (empty) or entries joined by `;`
             entry := <path>:d                      -- a directory (only needed when empty)
                    | <path>:f<skip><gen>:<decls>   -- a file; skip = `#![rustfmt::skip]` 0|1,
                                                     -- gen = has `@generated` marker 0|1
           Keys are normalised (no `.`/`..`); relative keys are relative to the working directory of the
           rustfmt process, absolute keys start with `2f`.  Parents of a key exist implicitly.
* `own`    `unowned` | `owned:-` (relative: None) | `owned:<hex>`
* `paths`  `_` or paths joined by `,` (responses are sorted and without duplicates)
* `kind`   `notfound` | `ambiguous` | `pathattr` | `parse` | `root` | `fuel` | `circular` | `panic`

## Operations

  mod.resolve <fs> <root path> <skip_children:0|1> <format_generated_files:0|1> <ignored paths>
        -> paths | err:<kind>      the files `format_project` formats (model of the implementation)
  mod.spec    <fs> <root path> <skip_children:0|1> <format_generated_files:0|1> <ignored paths>
        -> paths | err:<kind>      the same according to the specification (rustc's rules)
  mod.filemap <fs> <root path> <recursive:0|1>
        -> paths | err:<kind>      key set of `ModResolver::visit_crate` (root ownership from
                                    `Input::to_directory_ownership`)
  mod.reachable <fs> <root path>
        -> paths | err:<kind>      `reachable` (specification, root not included, duplicates removed)
  mod.stdin <crate skip:0|1> <decls>
        -> paths | err:<kind>      stdin input: `stdin` (hex) if formatted, `_` if echoed
  mod.ownership <fs> <root path>            -> own | none        `Input::to_directory_ownership`
  mod.default_submod_path <fs> <dir path> <name hex> <relative: hex or ->
        -> <path>:<own> | err:notfound | err:ambiguous           `ParseSess::default_submod_path`
  mod.push_inline <fs> <dir path> <own> <name hex> <attrs: _ or attr,attr..>
        -> <path>:<own>                                           `push_inline_mod_directory`
  mod.find_external <fs> <dir path> <own> <parsed paths> <name hex> <attrs>
        -> none | ext:<path>:<own> | multi:<path>:<own>;<path>:<own>.. | err:<kind>
                                                                  `find_external_module`
  mod.resolvec / mod.specc    as `mod.resolve` / `mod.spec`, with the error kinds printed as the classes the
                                    binary's messages distinguish (`kindc`): `notfound` and `pathattr` are both
                                    `missing` ("… does not exist")
  mod.filemapc                as `mod.filemap`, error kinds as `kindc`
  mod.oracle <fs> <root path> <skip_children> <format_generated_files> <ignored paths> <impl answer>
        -> ok | spec:<paths> | spec:err:<kindc>
                                    the specification as an oracle on what the implementation did
                                    (`impl answer` = paths | err:<kindc>), in the shape of
                                    `formatProject_matches_spec_partial`: both succeed with the same set, or both
                                    report an error (of any class), or the specification says `circular`/`fuel`
                                    (a module cycle: the statement of C13 is silent there)
  mod.discover <decls>
        -> <decls of e/i only>       the `mod` items the resolver visits (`discItems`), re-encoded
  mod.parse_macro <decls: exactly one m or t item>
        -> cfg_if:<mods> | cfg_match:<mods>     `parse_cfg_if` / `parse_cfg_match` (`parseMacroBody`):
                                     mods = err | _ | e<name hex> / i<name hex> joined by `,` (the `mod` items returned)
  mod.expand <decls>
        -> <decls of e/i only>       the `mod` items of the expansion (`expItems`, specification)
  mod.hyps <fs> <root path>
        -> plain:<0|1>,closed:<0|1>,unique:<0|1>,probe:<0|1>,macros:<0|1> | err:root
                                    are the hypotheses of `resolver_refines_spec_partial` established
                                    (all five 1 = yes: then `mod.resolve` and `mod.spec` must agree on
                                    success/failure and on the set; otherwise the tree is outside the proved
                                    fragment: cfg_attr(path), a file reached under two ownerships, the
                                    `exists()` probe of push_inline_mod_directory, a `..` loop, or
                                    (`macros:0`, `sfsTame`) a macro call that is not a well-formed chain,
                                    has a block that does not parse, or has a macro call directly in a block;
                                    plain/closed/unique/probe are computed on the expanded tree `specFS`)
  mod.stat <fs> <path>                      -> file | dir | none
  mod.skip <inner_skip> <skip_children> <is_main> <stdin> <ignored> <format_generated> <generated>
        -> 0 | 1                                                  `should_skip_module` (all 0|1)

`ignored paths` is the set of paths `p` (as they appear as map keys) for which
`IgnorePathSet::is_match(p)` holds.  The fuel used is `4 * (entries of fs) + 8`.
-/
namespace RF.Driver.Modules
open RF.Proto RF.Modules

def decPath (s : String) : Option Path :=
  if s == "-" then some [] else (s.splitOn "/").mapM decChars

def encPath (p : Path) : String :=
  if p.isEmpty then "-" else String.intercalate "/" (p.map encChars)

def decBit (s : String) : Option Bool :=
  if s == "0" then some false else if s == "1" then some true else none

def decAttr (s : String) : Option Attr :=
  match s.toList with
  | ['s'] => some .skip
  | 'p' :: r => (decChars (String.ofList r)).map .path
  | 'c' :: r => (decChars (String.ofList r)).map .cfgAttrPath
  | _ => none

def takeN {α} (f : List String → Option (α × List String)) : Nat → List String → Option (List α × List String)
  | 0, ts => some ([], ts)
  | n + 1, ts =>
    match f ts with
    | none => none
    | some (a, ts') =>
      match takeN f n ts' with
      | none => none
      | some (as, ts'') => some (a :: as, ts'')

def decAttrTok : List String → Option (Attr × List String)
  | [] => none
  | t :: ts => (decAttr t).map (·, ts)

def decShape (s : String) : Option MacShape :=
  if s == "c" then some .chain else if s == "l" then some .loose else if s == "b" then some .broken
  else none

/-- Prefix-form decoder; `fuel` bounds the nesting depth (the token count is enough). -/
def decDecl : Nat → List String → Option (SItem × List String)
  | 0, _ => none
  | _ + 1, [] => none
  | fuel + 1, kind :: ts0 =>
    if kind == "o" then some (.other, ts0)
    else if kind == "j" then some (.junk, ts0)
    else if kind == "m" || kind == "t" then
      match ts0 with
      | sh :: nb :: ts =>
        match decShape sh, nb.toNat? with
        | some sh, some nb =>
          let decBranch : List String → Option (List SItem × List String) := fun ts =>
            match ts with
            | n :: ts' =>
              match n.toNat? with
              | none => none
              | some n => takeN (decDecl fuel) n ts'
            | [] => none
          match takeN decBranch nb ts with
          | none => none
          | some (bs, rest) => some (if kind == "m" then .cfgIf sh bs else .cfgMatch sh bs, rest)
        | _, _ => none
      | _ => none
    else
      match ts0 with
      | name :: k :: ts =>
        match decChars name, k.toNat? with
        | some name, some k =>
          match takeN decAttrTok k ts with
          | none => none
          | some (attrs, ts') =>
            if kind == "e" then some (.ext name attrs, ts')
            else if kind == "i" then
              match ts' with
              | n :: ts'' =>
                match n.toNat? with
                | none => none
                | some n =>
                  match takeN (decDecl fuel) n ts'' with
                  | none => none
                  | some (items, rest) => some (.inline name attrs items, rest)
              | [] => none
            else none
        | _, _ => none
      | _ => none

def decDecls (s : String) : Option (List SItem) :=
  let ts := s.splitOn ","
  match ts with
  | n :: rest =>
    match n.toNat? with
    | none => none
    | some n =>
      match takeN (decDecl ts.length) n rest with
      | some (ds, []) => some ds
      | _ => none
  | [] => none

def encAttr : Attr → String
  | .skip => "s"
  | .path s => "p" ++ (if s.isEmpty then "-" else encChars s)
  | .cfgAttrPath s => "c" ++ (if s.isEmpty then "-" else encChars s)

mutual
def encDeclToks : Decl → List String
  | .ext n a => ["e", encChars n, toString a.length] ++ a.map encAttr
  | .inline n a items =>
    ["i", encChars n, toString a.length] ++ a.map encAttr ++ encDeclsToks items
def encDeclsBody : List Decl → List String
  | [] => []
  | d :: ds => encDeclToks d ++ encDeclsBody ds
def encDeclsToks : List Decl → List String
  | ds => toString ds.length :: encDeclsBody ds
end

def encDecls (ds : List Decl) : String := String.intercalate "," (encDeclsToks ds)

def decEntry (s : String) : Option (Path × SNode) :=
  match s.splitOn ":" with
  | [p, "d"] => (decPath p).map (·, .dir)
  | [p, f, ds] =>
    match f.toList with
    | ['f', a, b] =>
      match decPath p, decBit (String.ofList [a]), decBit (String.ofList [b]), decDecls ds with
      | some p, some a, some b, some ds => some (p, .file a b ds)
      | _, _, _, _ => none
    | _ => none
  | _ => none

def decSFS (s : String) : Option SFS :=
  if s == "_" then some [] else (s.splitOn ";").mapM decEntry

def decPaths (s : String) : Option (List Path) :=
  if s == "_" then some [] else (s.splitOn ",").mapM decPath

def decAttrs (s : String) : Option (List Attr) :=
  if s == "_" then some [] else (s.splitOn ",").mapM decAttr

def insertSorted (s : String) : List String → List String
  | [] => [s]
  | t :: ts => if s < t then s :: t :: ts else if s == t then t :: ts else t :: insertSorted s ts

def sortDedup (xs : List String) : List String := xs.foldr insertSorted []

def encPathSet (ps : List Path) : String :=
  let xs := sortDedup (ps.map encPath)
  if xs.isEmpty then "_" else String.intercalate "," xs

def encFileName : FileName → String
  | .real p => encPath p
  | .stdin => encStr "stdin"

def encNameSet (ns : List FileName) : String :=
  let xs := sortDedup (ns.map encFileName)
  if xs.isEmpty then "_" else String.intercalate "," xs

def encKind : ErrKind → String
  | .notfound => "notfound" | .ambiguous => "ambiguous" | .pathattr => "pathattr"
  | .parse => "parse" | .root => "root" | .fuel => "fuel" | .circular => "circular"
  | .panic => "panic"

/-- The classes the messages of the binary distinguish. -/
def encKindC : ErrKind → String
  | .notfound => "missing" | .pathattr => "missing"
  | k => encKind k

def encResultC {α} (enc : α → String) : Except ErrKind α → String
  | .ok a => enc a
  | .error k => "err:" ++ encKindC k

def encOwn : Ownership → String
  | .unownedViaBlock => "unowned"
  | .owned none => "owned:-"
  | .owned (some r) => "owned:" ++ encChars r

def decOwn (s : String) : Option Ownership :=
  if s == "unowned" then some .unownedViaBlock
  else match s.splitOn ":" with
    | ["owned", "-"] => some (.owned none)
    | ["owned", r] => (decChars r).map fun r => .owned (some r)
    | _ => none

def fuelFor (fs : FS) : Nat := 4 * fs.length + 8

/-- the tree as the resolver sees it -/
def decFS (s : String) : Option FS := (decSFS s).map codeFS
/-- the tree after expansion (specification) -/
def decSpecFS (s : String) : Option FS := (decSFS s).map specFS

/-- `closure false fs rounds S`, stopping at the first round that adds nothing (`expand` only appends new
contexts, so an unchanged length is a fixed point and all further rounds are the identity): the same list,
computed in as many rounds as the tree is deep instead of `rounds`.  It also stops once the list has more than
`cap` contexts: a tree with a module cycle spelled through `..` has a context per spelling (`a/../b/../a.rs`, ..)
and their number can double with every round; the list returned then is simply not closed (`closed:0`, the
hypotheses are "not established", which is always a sound answer: `closedB` is evaluated on the list itself). -/
def closureFix (fs : FS) (cap : Nat) : Nat → List Ctx → List Ctx
  | 0, S => S
  | n + 1, S =>
    let S' := expand false fs S
    if S'.length == S.length then S
    else if S'.length > cap then S'
    else closureFix fs cap n S'

def mkConfig (skipChildren formatGenerated : Bool) (ignored : List Path) : Config :=
  { skipChildren := skipChildren, formatGeneratedFiles := formatGenerated,
    ignored := fun p => decide (p ∈ ignored) }

def encResult {α} (enc : α → String) : Except ErrKind α → String
  | .ok a => enc a
  | .error k => "err:" ++ encKind k

def encKindRes : SubModKind → String
  | .external p own _ => s!"ext:{encPath p}:{encOwn own}"
  | .multiExternal mods =>
    "multi:" ++ String.intercalate ";" (mods.map fun m => s!"{encPath m.1}:{encOwn m.2.1}")
  | .internal => "internal"

def handle (op : String) (args : List String) : Option String :=
  match op, args with
  | "mod.resolve", [fs, root, sc, fg, ign] => do
    let fs ← decFS fs
    let root ← decPath root
    let cfg := mkConfig (← decBit sc) (← decBit fg) (← decPaths ign)
    pure (encResult encNameSet (formatProject fs (fuelFor fs) (.file root) cfg))
  | "mod.spec", [fs, root, sc, fg, ign] => do
    let fs ← decSpecFS fs
    let root ← decPath root
    let cfg := mkConfig (← decBit sc) (← decBit fg) (← decPaths ign)
    pure (encResult encPathSet (specFormatted fs (fuelFor fs) root cfg))
  | "mod.resolvec", [fs, root, sc, fg, ign] => do
    let fs ← decFS fs
    let root ← decPath root
    let cfg := mkConfig (← decBit sc) (← decBit fg) (← decPaths ign)
    pure (encResultC encNameSet (formatProject fs (fuelFor fs) (.file root) cfg))
  | "mod.specc", [fs, root, sc, fg, ign] => do
    let fs ← decSpecFS fs
    let root ← decPath root
    let cfg := mkConfig (← decBit sc) (← decBit fg) (← decPaths ign)
    pure (encResultC encPathSet (specFormatted fs (fuelFor fs) root cfg))
  | "mod.oracle", [fs, root, sc, fg, ign, impl] => do
    let fs ← decSpecFS fs
    let root ← decPath root
    let cfg := mkConfig (← decBit sc) (← decBit fg) (← decPaths ign)
    match specFormatted fs (fuelFor fs) root cfg with
    | .error .circular => pure "ok"
    | .error .fuel => pure "ok"
    | .error k => pure (if impl.startsWith "err:" then "ok" else "spec:err:" ++ encKindC k)
    | .ok ps => pure (if impl == encPathSet ps then "ok" else "spec:" ++ encPathSet ps)
  | "mod.filemap", [fs, root, recursive] => do
    let fs ← decFS fs
    let root ← decPath root
    let recursive ← decBit recursive
    match parseFileAsModule fs root with
    | .ok skip items =>
      let own := (toDirectoryOwnership fs root).getD .unownedViaBlock
      pure (encResult (fun m => encNameSet (keys m))
        (visitCrate fs (fuelFor fs) (.real root) skip items own recursive))
    | _ => pure "err:root"
  | "mod.filemapc", [fs, root, recursive] => do
    let fs ← decFS fs
    let root ← decPath root
    let recursive ← decBit recursive
    match parseFileAsModule fs root with
    | .ok skip items =>
      let own := (toDirectoryOwnership fs root).getD .unownedViaBlock
      pure (encResultC (fun m => encNameSet (keys m))
        (visitCrate fs (fuelFor fs) (.real root) skip items own recursive))
    | _ => pure "err:root"
  | "mod.reachable", [fs, root] => do
    let fs ← decSpecFS fs
    let root ← decPath root
    match parseFileAsModule fs root with
    | .ok _ items =>
      let own := (toDirectoryOwnership fs root).getD .unownedViaBlock
      pure (encResult encPathSet (reachable fs (fuelFor fs) root items own))
    | _ => pure "err:root"
  | "mod.stdin", [skip, ds] => do
    let skip ← decBit skip
    let ds ← decDecls ds
    let cfg := mkConfig false true []
    pure (encResult encNameSet (formatProject [] 8 (.text skip (discItems ds)) cfg))
  | "mod.discover", [ds] => do
    let ds ← decDecls ds
    pure (encDecls (discItems ds))
  | "mod.parse_macro", [ds] => do
    let ds ← decDecls ds
    let encMod : SItem → String := fun it => match it with
      | .ext n _ => "e" ++ encChars n
      | .inline n _ _ => "i" ++ encChars n
      | _ => "?"
    let encMods : Option (List SItem) → String := fun r => match r with
      | none => "err"
      | some [] => "_"
      | some ms => String.intercalate "," (ms.map encMod)
    match ds with
    | [.cfgIf sh bs] => pure ("cfg_if:" ++ encMods (parseMacroBody sh bs))
    | [.cfgMatch sh bs] => pure ("cfg_match:" ++ encMods (parseMacroBody sh bs))
    | _ => none
  | "mod.expand", [ds] => do
    let ds ← decDecls ds
    pure (encDecls (expItems ds))
  | "mod.ownership", [fs, root] => do
    let fs ← decFS fs
    let root ← decPath root
    match toDirectoryOwnership fs root with
    | some o => pure (encOwn o)
    | none => pure "none"
  | "mod.default_submod_path", [fs, dir, name, rel] => do
    let fs ← decFS fs
    let dir ← decPath dir
    let name ← decChars name
    let rel ← decChars rel
    let rel := if rel.isEmpty then none else some rel
    match defaultSubmodPath fs name rel dir with
    | .ok (p, own) => pure s!"{encPath p}:{encOwn own}"
    | .error .fileNotFound => pure "err:notfound"
    | .error .multipleCandidates => pure "err:ambiguous"
  | "mod.push_inline", [fs, dir, own, name, attrs] => do
    let fs ← decFS fs
    let dir ← decPath dir
    let own ← decOwn own
    let name ← decChars name
    let attrs ← decAttrs attrs
    let d := pushInlineModDirectory true fs ⟨dir, own⟩ name attrs
    pure s!"{encPath d.path}:{encOwn d.ownership}"
  | "mod.find_external", [fs, dir, own, parsed, name, attrs] => do
    let fs ← decFS fs
    let dir ← decPath dir
    let own ← decOwn own
    let parsed ← decPaths parsed
    let name ← decChars name
    let attrs ← decAttrs attrs
    match (findExternalModule fs ⟨dir, own⟩ parsed .stdin name attrs).1 with
    | .ok none => pure "none"
    | .ok (some k) => pure (encKindRes k)
    | .error k => pure ("err:" ++ encKind k)
  | "mod.hyps", [fs, root] => do
    let sfs ← decSFS fs
    let fs := specFS sfs
    let root ← decPath root
    match parseFileAsModule fs root with
    | .ok _ _ =>
      let own := (toDirectoryOwnership fs root).getD .unownedViaBlock
      let S := closureFix fs (8 * fs.length + 16) (fuelFor fs) [⟨root, own⟩]
      let b := fun (x : Bool) => if x then "1" else "0"
      let closed := decide ((⟨root, own⟩ : Ctx) ∈ S) && closedB false fs S
      pure s!"plain:{b (fsPlainB fs)},closed:{b closed},unique:{b (uniqueB S)},probe:{b (probeAgreesB fs S)},macros:{b (sfsTame sfs)}"
    | _ => pure "err:root"
  | "mod.stat", [fs, p] => do
    let fs ← decFS fs
    let p ← decPath p
    match nodeAt fs p with
    | some (.file _ _ _) => pure "file"
    | some .dir => pure "dir"
    | none => pure "none"
  | "mod.skip", [a, b, c, d, e, f, g] => do
    let r := skipDecision (← decBit a) (← decBit b) (← decBit c) (← decBit d) (← decBit e)
      (← decBit f) (← decBit g)
    pure (if r then "1" else "0")
  | _, _ => none

end RF.Driver.Modules
