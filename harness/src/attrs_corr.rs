//! Correspondence of the attribute rewriters of `src/attr.rs` (`impl Rewrite for [ast::Attribute]`, `for
//! ast::Attribute`, `for ast::MetaItem`, `format_derive`, `take_while_with_pred`,
//! `has_newlines_before_after_comment`) with the Lean model `RF/Model/Attrs.lean` (driver `RF/Driver/Attrs.lean`),
//! through `verif_hooks::attrs`, and end-to-end checks through the real formatter (`pool::run_jobs`).
//!
//! A generated source holds one attribute list (0..4 attributes of every kind, gaps with line / block comments and
//! blank lines) on one node: fn, struct, field, variant, let statement, expression statement, match arm, parameter,
//! generic parameter (outer); crate, module, fn body (inner).
//!   corr    attrs.runs     the runs `take_while_with_pred` finds at every position (doc comments, derives)
//!   corr    attrs.nl       `has_newlines_before_after_comment` on every gap
//!   corr    attrs.single   `Attribute::rewrite_result` (`multi` when the real rewriter laid a list out on several lines)
//!   corr    attrs.derive   `format_derive` on every derive run (`multi` for the nested layout)
//!   corr    attrs.list     `<[Attribute]>::rewrite_result` (singles / nested derives as the real rewriters returned them)
//!   oracle  attrs.oracle.exact    on the hook's result and on the real formatter's output: exactly the expected
//!                                 non-blank characters (every attribute once, in order, the comments of every gap
//!                                 between the same two attributes), or the source as written
//!   oracle  attrs.oracle.inorder  under normalize_comments / wrap_comments: the tokens of the attributes and the
//!                                 words of the comments occur in order
//!   oracle  attrs.oracle.linedoc  a doc attribute turned into a comment consists of `///` / `//!` lines
use rustfmt_nightly::verif_hooks::attrs as ha;
use serde_json::json;

use crate::pool;
use crate::util::*;

fn guard<T>(f: impl FnOnce() -> T) -> Option<T> {
    std::panic::catch_unwind(std::panic::AssertUnwindSafe(f)).ok()
}

/// (text behind `#` / `#!`, may it stand in an inner list)
const METAS: &[&str] = &[
    "[inline]",
    "[cfg(test)]",
    "[allow(dead_code,  unused)]",
    "[cfg_attr(feature = \"x\", derive(Debug), allow(a, b))]",
    "[must_use = \"reason\"]",
    "[a::b::c(d)]",
    "[foo(a, b,)]",
    "[foo(\"lit\", 1, 2.0, 'c', b\"x\")]",
    "[unsafe(no_mangle)]",
    "[ spaced ( a , b ) ]",
    "[very_long_attribute_name_number_one(argument_one, argument_two, argument_three)]",
    "[deprecated(since = \"1.0\", note = \"x\")]",
    "[foo()]",
    "[cfg(all(unix, not(target_os = \"macos\"), any(feature = \"a\", feature = \"b\")))]",
    "[a :: b]",
    "[link(name = \"a_rather_long_library_name\", kind = \"static\", modifiers = \"+whole-archive\")]",
];
const UNPARSED: &[&str] = &[
    "[foo(bar baz)]",
    "[foo(a   b c)]",
    "[foo = concat!(\"a\",  \"b\")]",
    "[foo(-1)]",
    "[foo[a,  b]]",
    "[foo{a}]",
    "[foo(a = b)]",
    "[foo(a::<T>)]",
    "[foo(a,  b;  c)]",
];
const COMMENTED: &[&str] = &["[foo(a, /* c */ b)]", "[foo(a /* k */)]"];
const DERIVES: &[&str] = &[
    "[derive(A, B)]",
    "[derive(Clone)]",
    "[derive(Debug,PartialEq,)]",
    "[derive()]",
    "[derive(std::fmt::Debug)]",
    "[derive(Clone, Copy, Debug, Default, Eq, Hash, Ord, PartialEq, PartialOrd)]",
    "[derive]",
    "[derive(A  B)]",
];
const DOC_ATTRS: &[&str] = &[
    "[doc = \"text\"]",
    "[doc = \" spaced text\"]",
    "[doc = \"/slash\"]",
    "[doc = \"two\\nlines\"]",
    "[doc = \"a\\n/b\"]",
    "[doc = \"\"]",
    "[doc(hidden)]",
    "[doc = \"!bang\"]",
];
const OUTER_DOCS: &[&str] = &["/// doc a", "///", "/// two  words", "/** block doc */", "/** */", "///! x"];
const INNER_DOCS: &[&str] = &["//! inner doc", "//!", "/*! inner block */", "//! two  words"];
const LINE_C: &[&str] = &["// c", "// note here", "//x"];
const BLOCK_C: &[&str] = &["/* b */", "/* k v */"];

#[derive(Clone, Debug)]
pub struct GAttr {
    pub text: String,
    pub line_doc: bool,
}

#[derive(Clone, Debug)]
pub struct GCase {
    pub node: usize,
    pub attrs: Vec<GAttr>,
    pub gaps: Vec<String>,
}

/// (name, inner, pre, post, indentation of the attribute lines)
const NODES: &[(&str, bool, &str, &str, usize)] = &[
    ("fn", false, "", "\nfn f() {}\n", 0),
    ("struct", false, "", "\nstruct S {\n    a: u8,\n}\n", 0),
    ("field", false, "struct S {\n    ", "\n    a: u8,\n}\n", 4),
    ("variant", false, "enum E {\n    ", "\n    A,\n}\n", 4),
    ("stmt", false, "fn f() {\n    ", "\n    let x = 1;\n}\n", 4),
    ("expr", false, "fn f() {\n    ", "\n    foo();\n}\n", 4),
    ("arm", false, "fn f() {\n    match x {\n        ", "\n        1 => 2,\n        _ => 3,\n    }\n}\n", 8),
    ("param", false, "fn f(\n    ", "\n    a: u8,\n) {\n}\n", 4),
    ("generic", false, "fn f<\n    ", "\n    T,\n>() {\n}\n", 4),
    ("crate", true, "", "\nfn f() {}\n", 0),
    ("mod", true, "mod m {\n    ", "\n    fn g() {}\n}\n", 4),
    ("fn", true, "fn f() {\n    ", "\n    foo();\n}\n", 4),
];

fn gen_attr(rng: &mut Rng, inner: bool, docs_ok: bool) -> GAttr {
    let p = if inner { "#!" } else { "#" };
    let k = rng.below(if docs_ok { 12 } else { 8 });
    let (text, line_doc) = match k {
        0 | 1 | 2 => (format!("{}{}", p, rng.pick(METAS)), false),
        3 => (format!("{}{}", p, rng.pick(UNPARSED)), false),
        4 | 5 => (format!("{}{}", p, rng.pick(DERIVES)), false),
        6 => (format!("{}{}", p, rng.pick(DOC_ATTRS)), false),
        7 => (format!("{}{}", p, rng.pick(COMMENTED)), false),
        _ => {
            let d = if inner { *rng.pick(INNER_DOCS) } else { *rng.pick(OUTER_DOCS) };
            (d.to_string(), d.starts_with("//"))
        }
    };
    GAttr { text, line_doc }
}

fn gen_gap(rng: &mut Rng, after_line_doc: bool, rich: bool) -> String {
    let mut g = String::new();
    let lead = if after_line_doc { 1 + rng.below(2) } else { *rng.pick(&[0usize, 1, 1, 1, 2]) };
    if lead == 0 {
        g.push(' ');
    }
    for _ in 0..lead {
        g.push('\n');
    }
    if rich && rng.chance(1, 2) {
        let n = rng.range(1, 2);
        for i in 0..n {
            if rng.chance(1, 2) {
                g.push_str(*rng.pick(LINE_C));
                g.push('\n');
                if rng.chance(1, 4) {
                    g.push('\n');
                }
            } else {
                g.push_str(*rng.pick(BLOCK_C));
                match rng.below(4) {
                    0 => g.push(' '),
                    1 => g.push_str("\n\n"),
                    _ => g.push('\n'),
                }
            }
            let _ = i;
        }
    }
    g
}

pub fn gen_case(rng: &mut Rng, rich: bool) -> GCase {
    let node = rng.below(NODES.len());
    let inner = NODES[node].1;
    // doc comments do not parse on parameters; keep them off generic parameters and arms of the end-to-end shapes too
    let docs_ok = !matches!(NODES[node].0, "param");
    let n = rng.range(1, 4);
    let attrs: Vec<GAttr> = (0..n).map(|_| gen_attr(rng, inner, docs_ok)).collect();
    let gaps = (0..n - 1).map(|i| gen_gap(rng, attrs[i].line_doc, rich)).collect();
    GCase { node, attrs, gaps }
}

/// The source text: the gaps' line feeds are followed by the node's indentation.
pub fn render(c: &GCase) -> (String, String, String, String) {
    let (_, _, pre, post, ind) = NODES[c.node];
    let pad = " ".repeat(ind);
    let mut mid = String::new();
    for (i, a) in c.attrs.iter().enumerate() {
        mid.push_str(&a.text);
        if i < c.gaps.len() {
            // indentation in front of every non-empty line of the gap and in front of the next attribute
            let g = &c.gaps[i];
            let mut out = String::new();
            let parts: Vec<&str> = g.split('\n').collect();
            for (k, part) in parts.iter().enumerate() {
                if k > 0 {
                    out.push('\n');
                    if !part.is_empty() || k + 1 == parts.len() {
                        out.push_str(&pad);
                    }
                }
                out.push_str(part);
            }
            mid.push_str(&out);
        }
    }
    (format!("{}{}{}", pre, mid, post), pre.to_string(), mid, post.to_string())
}

#[derive(Clone, Copy, Debug)]
pub struct ACfg {
    pub max_width: usize,
    pub norm_doc: bool,
    pub merge: bool,
    pub inline_width: usize,
    pub norm_comments: bool,
    pub wrap_comments: bool,
}

pub fn cfg_pairs(c: &ACfg) -> Vec<(String, String)> {
    vec![
        ("max_width".to_string(), c.max_width.to_string()),
        ("normalize_doc_attributes".to_string(), c.norm_doc.to_string()),
        ("merge_derives".to_string(), c.merge.to_string()),
        ("inline_attribute_width".to_string(), c.inline_width.to_string()),
        ("normalize_comments".to_string(), c.norm_comments.to_string()),
        ("wrap_comments".to_string(), c.wrap_comments.to_string()),
    ]
}

pub fn gen_cfg(rng: &mut Rng, comment_opts: bool) -> ACfg {
    ACfg {
        max_width: *rng.pick(&[20usize, 30, 40, 50, 60, 80, 100, 100]),
        norm_doc: rng.chance(1, 2),
        merge: rng.chance(2, 3),
        inline_width: *rng.pick(&[0usize, 0, 20, 50]),
        norm_comments: comment_opts && rng.chance(1, 2),
        wrap_comments: comment_opts && rng.chance(1, 2),
    }
}

fn b(x: bool) -> &'static str {
    if x { "1" } else { "0" }
}

fn enc_cfg(c: &ACfg, indent: usize) -> String {
    format!("{}:0:{}:{}:{}:0", b(c.merge), b(c.norm_doc), indent, c.max_width)
}

fn enc_toks(a: &ha::AttrRec) -> String {
    if a.meta.is_empty() {
        return "~".to_string();
    }
    a.meta
        .iter()
        .map(|(k, s)| match k {
            'p' => format!("p{}", enc_str(s)),
            'l' => format!("l{}", enc_str(s)),
            c => c.to_string(),
        })
        .collect::<Vec<_>>()
        .join(".")
}

fn enc_opt(s: &Option<String>) -> String {
    match s {
        Some(s) => enc_str(s),
        None => "~".to_string(),
    }
}

/// `single` / `dout`: `None` = let the model compute it.
fn enc_attr(a: &ha::AttrRec, gap: &str, single: Option<&Option<String>>, dout: Option<&Option<String>>) -> String {
    let derive = match a.kind {
        'd' => enc_list(&a.paths),
        'D' => "~".to_string(),
        _ => "n".to_string(),
    };
    format!(
        "{}:{}:{}:{}:{}:{}:{}:{}:0:{}:{}:{}:{}",
        b(a.inner),
        b(a.kind == 'c'),
        enc_str(&a.snippet),
        if a.kind == 'c' { "~".to_string() } else { enc_toks(a) },
        derive,
        enc_opt(&a.doc_value),
        b(a.is_unsafe),
        b(a.has_comment),
        b(a.follows),
        enc_str(gap),
        single.map_or("!".to_string(), enc_opt),
        dout.map_or("!".to_string(), enc_opt),
    )
}

fn ascii_simple(s: &str) -> bool {
    s.bytes().all(|b| b == b'\n' || (b >= 0x20 && b < 0x7f))
}

/// Is the single rewrite a list laid out on several lines by the real rewriter (outside the model)?
fn is_multi(a: &ha::AttrRec, cfg: &ACfg, indent: usize) -> bool {
    let normalised = cfg.norm_doc && a.doc_value.is_some() && !a.follows;
    let is_list = a.meta.iter().any(|(k, _)| *k == '(');
    match &a.single {
        Some(s) => a.kind != 'c' && !normalised && !a.has_comment && is_list && (s.contains('\n') || s.len() + indent > cfg.max_width),
        None => false,
    }
}

/// The words of the comments and the tokens of the attributes of a source text, in order (for the in-order oracle).
fn needles(rec: &ha::ListRec, cfg: &ACfg) -> Vec<String> {
    let mut v = vec![];
    let words = |s: &str, v: &mut Vec<String>| {
        for w in s.split_whitespace() {
            let w = w.trim_matches(|c| c == '/' || c == '*' || c == '!');
            if !w.is_empty() {
                v.push(w.to_string());
            }
        }
    };
    for (i, a) in rec.attrs.iter().enumerate() {
        if a.kind == 'c' {
            words(&a.snippet, &mut v);
        } else if cfg.norm_doc && a.doc_value.is_some() {
            // `#[doc = "v"]` or `///v`: the words of the value
            words(a.doc_value.as_deref().unwrap_or(""), &mut v);
        } else if a.meta.is_empty() || a.has_comment {
            words(&a.snippet, &mut v);
        } else {
            for (j, (k, s)) in a.meta.iter().enumerate() {
                match k {
                    // merged derives: one `derive` for the run
                    'p' if j == 0 && (a.kind == 'd' || a.kind == 'D') => {}
                    'p' => {
                        for seg in s.split("::") {
                            if !seg.is_empty() {
                                v.push(seg.to_string());
                            }
                        }
                    }
                    'l' => v.push(s.clone()),
                    _ => {}
                }
            }
        }
        if i < rec.gaps.len() {
            words(&rec.gaps[i], &mut v);
        }
    }
    v
}

/// The request part `attrs` of one list (gaps as the hook reports them).
fn enc_list_req(rec: &ha::ListRec, cfg: &ACfg, with_overrides: bool) -> String {
    let n = rec.attrs.len();
    (0..n)
        .map(|i| {
            let a = &rec.attrs[i];
            let gap = if i + 1 < n { rec.gaps[i].as_str() } else { "" };
            if with_overrides {
                let nested = a.derive_out.as_ref().map_or(a.kind == 'd' && a.derive_run > 0, |s| s.contains('\n'));
                let dout = if a.derive_run > 0 && nested { Some(&a.derive_out) } else { None };
                enc_attr(a, gap, Some(&a.single), dout)
            } else {
                let _ = cfg;
                enc_attr(a, gap, None, None)
            }
        })
        .collect::<Vec<_>>()
        .join(";")
}

struct HookCase {
    src: String,
    pre_len: usize,
    cfg: ACfg,
    indent: usize,
}

fn hook_case(o: &mut Outcome, hc: &HookCase, tag: &str) {
    let k = match pool::build_config(&cfg_pairs(&hc.cfg), &None) {
        Ok(k) => k,
        Err(_) => return,
    };
    if !ascii_simple(&hc.src) {
        return;
    }
    let recs = match guard(|| ha::analyze(&hc.src, &k, hc.indent)) {
        Some(Some(r)) => r,
        Some(None) => {
            o.count("hook:no_parse");
            return;
        }
        None => {
            o.direct_failures.push(json!({"sig": "attrs-hook-panic", "src": hc.src, "cfg": format!("{:?}", hc.cfg)}));
            return;
        }
    };
    let rec = match recs.iter().find(|r| r.attrs.first().map_or(false, |a| a.lo == hc.pre_len)) {
        Some(r) => r,
        None => {
            o.count("hook:no_list");
            return;
        }
    };
    o.count("hook:lists");
    o.count(&format!("node:{}", rec.node));
    let cfg = enc_cfg(&hc.cfg, hc.indent);
    let desc = format!("{} {:?} indent {} src {:?}", tag, hc.cfg, hc.indent, hc.src);
    let light = !hc.cfg.norm_comments && !hc.cfg.wrap_comments;
    // runs
    let plain = enc_list_req(rec, &hc.cfg, false);
    let runs: Vec<String> = rec.attrs.iter().map(|a| format!("{},{}", a.doc_run, a.derive_run)).collect();
    o.push("corr", "attrs.runs", format!("attrs.runs {}", plain), runs.join(";"), desc.clone(), rec.attrs.len() > 1);
    for (g, (nb, na)) in rec.gaps.iter().zip(rec.gap_newlines.iter()) {
        o.push("corr", "attrs.nl", format!("attrs.nl {}", enc_str(g)), format!("{}{}", b(*nb), b(*na)), desc.clone(), g.contains('/'));
    }
    for (i, a) in rec.attrs.iter().enumerate() {
        o.count(&format!("kind:{}", a.kind));
        if light || a.kind != 'c' {
            // doc comments go through rewrite_doc_comment: modelled for the light rewriter only
            let normalised = hc.cfg.norm_doc && a.doc_value.is_some();
            if light || !normalised {
                let expect = if is_multi(a, &hc.cfg, hc.indent) { "multi".to_string() } else { enc_opt(&a.single) };
                o.push("corr", "attrs.single", format!("attrs.single {} {}", cfg, enc_attr(a, "", None, None)), expect, format!("attr {} of {}", i, desc), a.kind != 'c');
            }
        }
        if hc.cfg.norm_doc && a.doc_value.is_some() && light {
            if let Some(s) = &a.single {
                if !s.starts_with('#') {
                    o.push("oracle", "attrs.oracle.linedoc", format!("attrs.oracle.linedoc {}", enc_str(s)), "ok".to_string(), format!("attr {} of {}", i, desc), true);
                }
            }
        }
        if a.kind == 'd' && a.derive_run > 0 {
            let all_parse = rec.attrs[i..i + a.derive_run].iter().all(|x| x.kind == 'd');
            if all_parse {
                let paths: Vec<String> = rec.attrs[i..i + a.derive_run].iter().flat_map(|x| x.paths.clone()).collect();
                let expect = match &a.derive_out {
                    Some(s) if s.contains('\n') => "multi".to_string(),
                    other => enc_opt(other),
                };
                o.push("corr", "attrs.derive", format!("attrs.derive {} {} {}", cfg, b(a.inner), enc_list(&paths)), expect, format!("derive run at {} of {}", i, desc), true);
            }
        }
    }
    // the model driver finds the real function's nested `format_derive` result by the text of the run's first attribute:
    // two derive attributes with the same text that head different runs cannot be told apart there (tooling limit,
    // DESIGN 10.3); such a list is judged by the exact-text oracle below only
    let ambiguous = rec.attrs.iter().enumerate().any(|(i, a)| a.kind == 'd' && rec.attrs[i + 1..].iter().any(|x| x.kind == 'd' && x.snippet == a.snippet && (x.derive_run != a.derive_run || x.derive_out != a.derive_out)));
    if ambiguous {
        o.count("attrs.list:not-judged:identical-derives-head-different-runs");
    }
    if light {
        if !ambiguous {
            o.push("corr", "attrs.list", format!("attrs.list {} {}", cfg, enc_list_req(rec, &hc.cfg, true)), enc_opt(&rec.out), desc.clone(), rec.attrs.len() > 1);
        }
        if let Some(out) = &rec.out {
            o.push("oracle", "attrs.oracle.exact", format!("attrs.oracle.exact {} {} - - {}", cfg, plain, enc_str(out)), "ok".to_string(), desc.clone(), true);
        }
    } else if let Some(out) = &rec.out {
        o.push("oracle", "attrs.oracle.inorder", format!("attrs.oracle.inorder {} {}", enc_list(&needles(rec, &hc.cfg)), enc_str(out)), "ok".to_string(), desc.clone(), true);
    }
}

struct E2e {
    src: String,
    pre: String,
    post: String,
    cfg: ACfg,
    indent: usize,
}

fn e2e_batch(o: &mut Outcome, batch: &[E2e], tag: &str) {
    let jobs_v: Vec<pool::Job> = batch.iter().map(|e| pool::Job { src: e.src.clone(), cfg: cfg_pairs(&e.cfg), file_lines: None }).collect();
    let outs = pool::run_jobs(&jobs_v, jobs(), std::time::Duration::from_secs(20));
    for (e, r) in batch.iter().zip(outs.iter()) {
        match &r.status {
            pool::Status::Ok => {}
            pool::Status::Panic(m) => {
                o.direct_failures.push(json!({"sig": "attrs-e2e-panic", "msg": m, "src": e.src, "cfg": format!("{:?}", e.cfg)}));
                continue;
            }
            _ => {
                o.count("e2e:inconclusive");
                continue;
            }
        }
        if r.flags[1] {
            o.count("e2e:parse_error");
            continue;
        }
        let k = match pool::build_config(&cfg_pairs(&e.cfg), &None) {
            Ok(k) => k,
            Err(_) => continue,
        };
        let recs = match guard(|| ha::analyze(&e.src, &k, e.indent)) {
            Some(Some(r)) => r,
            _ => {
                o.count("e2e:no_parse");
                continue;
            }
        };
        let rec = match recs.iter().find(|x| x.attrs.first().map_or(false, |a| a.lo == e.pre.len())) {
            Some(x) => x,
            None => {
                o.count("e2e:no_list");
                continue;
            }
        };
        o.count("e2e:judged");
        let desc = format!("e2e {} {:?} src {:?} out {:?}", tag, e.cfg, e.src, r.out);
        let light = !e.cfg.norm_comments && !e.cfg.wrap_comments;
        if light {
            let cfg = enc_cfg(&e.cfg, e.indent);
            o.push("oracle", "attrs.oracle.exact", format!("attrs.oracle.exact {} {} {} {} {}", cfg, enc_list_req(rec, &e.cfg, false), enc_str(&e.pre), enc_str(&e.post), enc_str(&r.out)), "ok".to_string(), desc, true);
        } else {
            o.push("oracle", "attrs.oracle.inorder", format!("attrs.oracle.inorder {} {}", enc_list(&needles(rec, &e.cfg)), enc_str(&r.out)), "ok".to_string(), desc, true);
        }
    }
}

/// Hand-written lists: every kind once, the shapes of the known findings' neighbourhood.
const FIXED: &[&str] = &[
    "#[derive(A)]\n#[derive(B)]\n#[derive(C)]",
    "#[derive(A)]\n\n#[derive(B)]",
    "#[derive(A)] // c\n#[derive(B)]",
    "#[derive(A)]\n#[derive]\n#[derive(B)]",
    "/// a\n/// b\n#[inline]\n/// c",
    "/// a\n// plain\n/// b",
    "/// a\n\n/// b",
    "/** a */ /** b */",
    "/** a */ /* c */ /** b */\n#[a] /* k */ /// d",
    "#[a]\n// c1\n\n// c2\n#[b]",
    "#[a]\n\n// c\n\n/// d",
    "#[doc = \"x\"] // c\n#[b]",
    "#[doc = \"x\"] /* c */\n#[b]",
    "#[doc = \"x\"] #[b]",
    "#[doc = \"/x\"]\n#[doc = \"a\\n/b\"]",
    "#[foo(bar baz)]\n#[foo = concat!(\"a\",   \"b\")]\n#[foo[a,  b]]",
    "#[ a :: b ( c ,d= \"x\" ) ]\n#[unsafe(no_mangle)]",
    "#[cfg_attr(feature = \"a\", derive(Clone, Debug), allow(dead_code), deprecated(note = \"some long note\"))]",
];

pub fn cases(o: &mut Outcome, rng: &mut Rng, thorough: bool) {
    pool::install_panic_hook();
    let widths_fixed = [100usize, 60, 40, 20];
    let mut batch = vec![];
    for mid in FIXED {
        for (wi, w) in widths_fixed.iter().enumerate() {
            for nd in [false, true] {
                for node in [0usize, 2] {
                    let (_, _, pre, post, ind) = NODES[node];
                    let pad = " ".repeat(ind);
                    let mid = mid.replace('\n', &format!("\n{}", pad)).replace(&format!("\n{}\n", pad), "\n\n");
                    let src = format!("{}{}{}", pre, mid, post);
                    let cfg = ACfg { max_width: *w, norm_doc: nd, merge: wi % 2 == 0 || nd, inline_width: 0, norm_comments: false, wrap_comments: false };
                    hook_case(o, &HookCase { src: src.clone(), pre_len: pre.len(), cfg, indent: ind }, "fixed");
                    batch.push(E2e { src, pre: pre.to_string(), post: post.to_string(), cfg, indent: ind });
                }
            }
        }
    }
    e2e_batch(o, &batch, "fixed");
    o.flush(jobs());
    let n_hook = if thorough { 20000 } else { 2500 };
    let n_e2e = if thorough { 12000 } else { 1500 };
    for i in 0..n_hook {
        let c = gen_case(rng, i % 3 != 0);
        let cfg = gen_cfg(rng, i % 5 == 4);
        let (src, pre, _, _) = render(&c);
        o.count(&format!("attrs:{}", c.attrs.len()));
        hook_case(o, &HookCase { src, pre_len: pre.len(), cfg, indent: NODES[c.node].4 }, "gen");
        if i % 1000 == 999 {
            o.flush(jobs());
        }
    }
    let mut batch = vec![];
    for i in 0..n_e2e {
        let c = gen_case(rng, i % 3 != 0);
        let mut cfg = gen_cfg(rng, i % 5 == 4);
        cfg.max_width = 20 + (i * 7) % 81;
        let (src, pre, _, post) = render(&c);
        batch.push(E2e { src, pre, post, cfg, indent: NODES[c.node].4 });
    }
    e2e_batch(o, &batch, "gen");
}

pub fn probes(_o: &mut Outcome) {}

pub fn run(tier: &str, seed: u64, out: &std::path::Path) -> i32 {
    let mut o = Outcome::new("ATTRS", tier, seed);
    let mut rng = Rng::new(seed);
    cases(&mut o, &mut rng, tier == "thorough");
    probes(&mut o);
    o.finish(out, jobs())
}
