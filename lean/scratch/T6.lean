import RF.Lemmas.TokEquiv
namespace RF.Tok

/-! ## Reorder regions as segments -/

inductive Seg where
  | plain (t : Tok)
  | region (k : Kind) (leaves : List (List Tok))
deriving DecidableEq, Repr

/-- `regionAt` with the canonical leaves instead of their encoding -/
def regionLeavesAt (cfg : Cfg) (ts : List Tok) : Option (Nat × Kind × List (List Tok)) :=
  match itemLen cfg ts with
  | none => none
  | some (k, n) =>
    if cfg.imports || k == 3 then
      let lens := runItemsAux cfg k 0 ts
      let total := sumNat lens
      some (total, k, canonLeaves k (runLeaves k (cutItems lens (ts.take total))))
    else
      some (n, k, canonLeaves k (itemLeaves k (ts.take n)))

theorem regionAt_eq (cfg : Cfg) (ts : List Tok) :
    regionAt cfg ts = (regionLeavesAt cfg ts).map fun x => (x.1, encRegion x.2.1 x.2.2) := by
  unfold regionAt regionLeavesAt
  cases itemLen cfg ts with
  | none => rfl
  | some x =>
    obtain ⟨k, n⟩ := x
    simp only []
    split <;> rfl

def segsAux (cfg : Cfg) : Nat → List Tok → List Seg
  | _, [] => []
  | n + 1, _ :: ts => segsAux cfg n ts
  | 0, t :: ts =>
    match regionLeavesAt cfg (t :: ts) with
    | some (n, k, l) => .region k l :: segsAux cfg (n - 1) ts
    | none => .plain t :: segsAux cfg 0 ts

def segs (cfg : Cfg) (ts : List Tok) : List Seg := segsAux cfg 0 ts

def render : List Seg → List Tok
  | [] => []
  | .plain t :: r => t :: render r
  | .region k l :: r => encRegion k l ++ render r

theorem regionsAux_eq_render (cfg : Cfg) : ∀ (ts : List Tok) (n : Nat),
    regionsAux cfg n ts = render (segsAux cfg n ts) := by
  intro ts
  induction ts with
  | nil => intro n; simp [regionsAux, segsAux, render]
  | cons t ts ih =>
    intro n
    cases n with
    | succ n => simp [regionsAux, segsAux, ih]
    | zero =>
      unfold regionsAux segsAux
      rw [regionAt_eq]
      cases h : regionLeavesAt cfg (t :: ts) with
      | none => simp [render, ih]
      | some x => obtain ⟨n, k, l⟩ := x; simp [render, ih]

theorem regions_eq_render (cfg : Cfg) (ts : List Tok) : regions cfg ts = render (segs cfg ts) :=
  regionsAux_eq_render cfg ts 0

/-- a token of one of the synthetic classes `Ro` `Rs` `Rc` `Rt…` -/
def isR (t : Tok) : Bool := match t.cls with | 'R' :: _ => true | _ => false

theorem isR_hard (cfg : Cfg) (t : Tok) (h : isR t = true) : hard cfg t = true := by
  obtain ⟨cls, text⟩ := t
  unfold isR at h
  split at h
  · rename_i r hr
    simp only at hr
    subst hr
    simp [hard, soft, Tok.isOpen, Tok.isClose, Tok.isP, Tok.isI, isAbiC]
  · cases h

theorem isR_wrapTok (t : Tok) : isR (wrapTok t) = true := rfl
theorem isR_regOpen (k) : isR (regOpen k) = true := rfl
theorem isR_regSep : isR regSep = true := rfl
theorem isR_regClose : isR regClose = true := rfl

theorem encLeaves_allR : ∀ (ls : List (List Tok)) (t : Tok), t ∈ encLeaves ls → isR t = true := by
  intro ls
  induction ls with
  | nil => intro t h; simp [encLeaves] at h
  | cons l ls ih =>
    intro t h
    simp only [encLeaves, encLeaf, List.mem_append, List.mem_map, List.mem_singleton] at h
    rcases h with (⟨x, _, rfl⟩ | rfl) | h
    · rfl
    · rfl
    · exact ih t h

theorem encRegion_allR (k : Kind) (ls : List (List Tok)) (t : Tok) (h : t ∈ encRegion k ls) : isR t = true := by
  unfold encRegion at h
  split at h
  · simp at h
  · simp only [List.mem_cons, List.mem_append, List.mem_singleton, List.not_mem_nil, or_false] at h
    rcases h with rfl | h | rfl
    · rfl
    · exact encLeaves_allR ls t h
    · rfl

theorem hards_of_allR (cfg : Cfg) (ts : List Tok) (h : ∀ t ∈ ts, isR t = true) : hards cfg ts = ts := by
  unfold hards
  rw [List.filter_eq_self]
  intro t ht
  exact isR_hard cfg t (h t ht)

def Seg.keep (cfg : Cfg) : Seg → Bool
  | .plain t => hard cfg t
  | .region _ l => !l.isEmpty

theorem hards_append (cfg : Cfg) (a b : List Tok) : hards cfg (a ++ b) = hards cfg a ++ hards cfg b := by
  simp [hards]

theorem hards_render (cfg : Cfg) : ∀ sg : List Seg, hards cfg (render sg) = render (sg.filter (Seg.keep cfg)) := by
  intro sg
  induction sg with
  | nil => rfl
  | cons s sg ih =>
    cases s with
    | plain t =>
      simp only [render, List.filter_cons, Seg.keep]
      by_cases h : hard cfg t = true
      · simp [hards, h, render]; exact ih
      · simp [hards, h]; exact ih
    | region k l =>
      simp only [render, List.filter_cons, Seg.keep, hards_append]
      rw [hards_of_allR cfg _ (encRegion_allR k l), ih]
      cases l with
      | nil => simp [encRegion]
      | cons x xs => simp [render]

end RF.Tok
