import RF.Model.Literal
/-
C01 (closed list of permitted token changes): the small, local, decidable REWRITE DECISIONS of rustfmt, each a literal
transcription of the predicate / string builder in the code, over a small explicit syntax for the inputs it looks at.

  §1 field-init shorthand      src/expr.rs `rewrite_field` (use_field_init_shorthand); struct-pattern fields
                               (src/patterns.rs `impl Rewrite for PatField`: the pinned tree has NO such rewrite there)
  §2 `try!(e)` -> `e?`         src/macros.rs `convert_try_mac` + src/parse/macros/mod.rs `parse_expr` (use_try_shorthand)
  §3 wildcard suffixes         src/patterns.rs `count_wildcard_suffix_len`, `rewrite_tuple_pat` (condense_wildcard_suffixes)
  §4 nested parentheses        src/expr.rs `rewrite_paren` (remove_nested_parens)
  §5 visibility / ABI          src/utils.rs `format_visibility`, `format_extern` (force_explicit_abi); the keyword tables
                               are GENERATED (RF/Gen/Keywords.lean, translate/c01_keywords.py)
  §6 attributes                src/attr.rs `impl Rewrite for [ast::Attribute]`, `take_while_with_pred`, `format_derive`
                               (merge_derives), `DocCommentFormatter` (normalize_doc_attributes)
  §7 pipes, commas, semicolons src/matches.rs `arm_comma`, the leading-pipe match of `rewrite_match_arm`
                               (match_arm_leading_pipes, match_block_trailing_comma), src/utils.rs `semicolon_for_expr`,
                               `semicolon_for_stmt`, src/stmt.rs `Stmt::is_last_expr`, the tail of `visit_block`
                               (trailing_semicolon)
  §8 a literal and what follows `float_lit_ends_in_dot`, the separator of a range (`needs_space_before_range`,
                               `rewrite_range_pat`), and rustc_lexer's `number` as the judge of "lexes back"

Each rewriter is modelled with the REPAIRS made on the way (`fix:` commits of branch hw-optin: attributes stop the
peeling of parentheses, a `..` stops the condensing, `try!` takes exactly one argument and keeps its operand whole; a
float literal that ends in a dot is kept apart from a following dot).  The behaviour of the pinned tree is kept next to
it (`…Pinned`) where a theorem of RF/Props/OptRewrites.lean shows what was wrong.

Tied to the code by the correspondence of `rfverif optin` (hooks `verif_hooks::optin`): the harness builds the inputs
from these very structures, renders them to source text, lets rustfmt's own parser read them, runs the real function and
compares what it returned with what the model returns.
-/
namespace RF.Opt

/-- the characters of a string literal as an explicit list (expanded at elaboration time; the kernel is slow at
`String.toList`) -/
macro "cs%" s:str : term => do
  let cs : Array (Lean.TSyntax `term) :=
    (s.getString.toList.map fun c => (⟨Lean.Syntax.mkCharLit c⟩ : Lean.TSyntax `term)).toArray
  `([$cs,*])

abbrev Str := List Char
/-- a token, by its text -/
abbrev Tok := List Char

def joinWith (sep : Str) : List Str → Str
  | [] => []
  | [x] => x
  | x :: y :: r => x ++ sep ++ joinWith sep (y :: r)

def isAsciiAlnum (c : Char) : Bool :=
  ('a' ≤ c && c ≤ 'z') || ('A' ≤ c && c ≤ 'Z') || ('0' ≤ c && c ≤ '9')

/-- the characters an identifier as written may consist of (`r#x` included) -/
def isIdentChar (c : Char) : Bool := isAsciiAlnum c || c == '_' || c == '#'

/-- looks like an identifier: not empty, made of identifier characters -/
def identLike (s : Str) : Bool := !s.isEmpty && s.all isIdentChar

/-! ## §1 field-init shorthand -/

/-- one path segment as written: the identifier and, if any, the text between `::<` and `>` -/
structure Seg where
  ident : Str
  args : Option Str
  deriving DecidableEq, Repr

def Seg.render (s : Seg) : Str :=
  match s.args with
  | none => s.ident
  | some a => s.ident ++ cs% "::<" ++ a ++ cs% ">"

def Seg.toks (s : Seg) : List Tok :=
  match s.args with
  | none => [s.ident]
  | some a => [s.ident, cs% "::", cs% "<", a, cs% ">"]

/-- the initialisers of the near-miss universe (what may follow `name:` in a struct literal) -/
inductive Init where
  /-- `x`, `r#x`, `x::<T>`, `self::x`, `::x` -/
  | path (global : Bool) (segs : List Seg)
  /-- a literal (`ExprKind::Lit`), by its text -/
  | lit (text : Str)
  | paren (e : Init)
  /-- `e.0`, `e.f` -/
  | field (e : Init) (name : Str)
  /-- `#[a] e` -/
  | attr (a : Str) (e : Init)
  | cast (e : Init) (ty : Str)
  | addrOf (e : Init)
  | try_ (e : Init)
  | neg (e : Init)
  | call (e : Init)
  /-- `name!()` -/
  | mac (name : Str)
  deriving Repr

def renderSegs : List Seg → Str
  | [] => []
  | [s] => s.render
  | s :: t :: r => s.render ++ cs% "::" ++ renderSegs (t :: r)

def segsToks : List Seg → List Tok
  | [] => []
  | [s] => s.toks
  | s :: t :: r => s.toks ++ [cs% "::"] ++ segsToks (t :: r)

/-- the text `Rewrite for ast::Expr` gives on one line (a shape wide enough) -/
def Init.render : Init → Str
  | .path g segs => (if g then cs% "::" else []) ++ renderSegs segs
  | .lit t => t
  | .paren e => '(' :: e.render ++ [')']
  | .field e n => e.render ++ '.' :: n
  | .attr a e => cs% "#[" ++ a ++ cs% "] " ++ e.render
  | .cast e ty => e.render ++ cs% " as " ++ ty
  | .addrOf e => '&' :: e.render
  | .try_ e => e.render ++ ['?']
  | .neg e => '-' :: e.render
  | .call e => e.render ++ cs% "()"
  | .mac n => n ++ cs% "!()"

def Init.toks : Init → List Tok
  | .path g segs => (if g then [cs% "::"] else []) ++ segsToks segs
  | .lit t => [t]
  | .paren e => [cs% "("] ++ e.toks ++ [cs% ")"]
  | .field e n => e.toks ++ [cs% ".", n]
  | .attr a e => [cs% "#", cs% "[", a, cs% "]"] ++ e.toks
  | .cast e ty => e.toks ++ [cs% "as", ty]
  | .addrOf e => [cs% "&"] ++ e.toks
  | .try_ e => e.toks ++ [cs% "?"]
  | .neg e => [cs% "-"] ++ e.toks
  | .call e => e.toks ++ [cs% "(", cs% ")"]
  | .mac n => [n, cs% "!", cs% "(", cs% ")"]

/-- `matches!(field.expr.kind, ast::ExprKind::Lit(_))` -/
def Init.isLit : Init → Bool
  | .lit _ => true
  | _ => false

/-- what `rewrite_field` looks at -/
structure FieldIn where
  /-- `context.snippet(field.ident.span)` -/
  name : Str
  /-- `field.is_shorthand` -/
  isShorthand : Bool
  init : Init
  /-- `attrs_str`, with the line break and indentation behind it when not empty -/
  attrs : Str
  /-- `struct_lit_field_separator` plus alignment padding -/
  sep : Str
  deriving Repr

/-- the guard of the shorthand arm: `!is_lit && e.as_str() == name && use_field_init_shorthand`, reached only when the
field is not already a shorthand and the initialiser was rendered (`Ok(ref e)`) -/
def fieldFires (opt : Bool) (exprOk : Bool) (f : FieldIn) : Bool :=
  !f.isShorthand && exprOk && (!f.init.isLit && f.init.render == f.name && opt)

inductive FieldOut where
  | shorthand (attrs name : Str)
  | explicit (attrs name sep : Str) (init : Init)
  /-- the `Err(_)` arm: the initialiser on a line of its own -/
  | explicitNextLine (attrs name : Str) (init : Init)
  deriving Repr

/-- `rewrite_field` (the result before it is rendered).  `exprOk` = the initialiser fits the first shape. -/
def rewriteFieldS (opt : Bool) (exprOk : Bool) (f : FieldIn) : FieldOut :=
  if f.isShorthand then .shorthand f.attrs f.name
  else if exprOk then
    if !f.init.isLit && f.init.render == f.name && opt then .shorthand f.attrs f.name
    else .explicit f.attrs f.name f.sep f.init
  else .explicitNextLine f.attrs f.name f.init

def FieldOut.render (indent : Str) : FieldOut → Str
  | .shorthand a n => a ++ n
  | .explicit a n s e => a ++ n ++ s ++ e.render
  | .explicitNextLine a n e => a ++ n ++ cs% ":\n" ++ indent ++ e.render

def rewriteField (opt exprOk : Bool) (f : FieldIn) : Str := (rewriteFieldS opt exprOk f).render []

/-- what a field of a struct literal denotes: the field name and the tokens of the value it is given -/
structure FieldDen where
  name : Str
  value : List Tok
  deriving DecidableEq, Repr

def FieldIn.den (f : FieldIn) : FieldDen :=
  ⟨f.name, if f.isShorthand then [f.name] else f.init.toks⟩

def FieldOut.den : FieldOut → FieldDen
  | .shorthand _ n => ⟨n, [n]⟩
  | .explicit _ n _ e => ⟨n, e.toks⟩
  | .explicitNextLine _ n e => ⟨n, e.toks⟩

/-- the seeded variant (decision on the AST, by symbol: `r#` and generic arguments are not looked at) — used only to
show that the theorems tell it apart -/
def stripRaw : Str → Str
  | 'r' :: '#' :: t => t
  | s => s

def fieldFiresAst (opt : Bool) (f : FieldIn) : Bool :=
  !f.isShorthand && opt && (match f.init with
    | .path false [s] => stripRaw s.ident == stripRaw f.name
    | _ => false)

/-! ### struct-pattern fields (`impl Rewrite for PatField`) -/

/-- the binding patterns of the universe: `x`, `ref x`, `mut x`, `ref mut x`, `x @ p`, anything else by its text -/
inductive FPat where
  | bind (byRef : Bool) (refMut : Bool) (mut_ : Bool) (name : Str) (sub : Option Str)
  | other (text : Str)
  deriving DecidableEq, Repr

def FPat.render : FPat → Str
  | .bind byRef refMut mut_ name sub =>
    (if byRef then (if refMut then cs% "ref mut " else cs% "ref ") else []) ++
    (if mut_ then cs% "mut " else []) ++ name ++
    (match sub with | none => [] | some p => cs% " @ " ++ p)
  | .other t => t

structure PatFieldIn where
  /-- `rewrite_ident(context, self.ident)` -/
  name : Str
  isShorthand : Bool
  pat : FPat
  deriving DecidableEq, Repr

/-- `PatField::rewrite_result` without attributes, on the one-line path (`one_line_width <= shape.width`): there is no
option and no comparison — an explicit field stays explicit, a shorthand stays a shorthand -/
def rewritePatField (f : PatFieldIn) : Str :=
  if f.isShorthand then f.pat.render else f.name ++ cs% ": " ++ f.pat.render

/-! ## §2 `try!(e)` -> `e?` -/

/-- the operand as `convert_try_mac` sees it after `parse_expr` -/
structure Operand where
  /-- its rendering -/
  text : Str
  toks : List Tok
  /-- `precedence() < ExprPrecedence::Unambiguous` (closures without a return type, jumps, ranges, binary operators,
  casts, assignments, `&e`, `let`, unary operators) -/
  lowPrec : Bool
  /-- has outer attributes -/
  hasAttrs : Bool
  deriving DecidableEq, Repr

/-- the top-level pieces of the macro's token stream -/
inductive ArgTok where
  | expr (e : Operand)
  | comma
  /-- anything that cannot continue or follow an expression (`;`, a stray token) -/
  | junk (t : Tok)
  deriving DecidableEq, Repr

/-- `parse_expr` of src/parse/macros/mod.rs: exactly one expression, optionally one comma, then the end -/
def parseOnlyExpr : List ArgTok → Option Operand
  | [.expr e] => some e
  | [.expr e, .comma] => some e
  | _ => none

/-- `parse_expr` of the pinned tree: the first expression, whatever follows -/
def parseFirstExprPinned : List ArgTok → Option Operand
  | .expr e :: _ => some e
  | _ => none

/-- `path == "try" || path == "r#try"` on `pprust::path_to_string(&mac.path)` -/
def tryPath (path : Str) : Bool := path == cs% "try" || path == cs% "r#try"

structure TryOut where
  parens : Bool
  operand : Operand
  deriving DecidableEq, Repr

def needsParens (e : Operand) : Bool := e.lowPrec || e.hasAttrs

/-- `use_try_shorthand` && `convert_try_mac(mac, context)` -/
def convertTry (opt : Bool) (path : Str) (args : List ArgTok) : Option TryOut :=
  if opt && tryPath path then
    match parseOnlyExpr args with
    | some e => some ⟨needsParens e, e⟩
    | none => none
  else none

/-- the pinned tree: first expression, never parenthesised -/
def convertTryPinned (opt : Bool) (path : Str) (args : List ArgTok) : Option TryOut :=
  if opt && tryPath path then
    match parseFirstExprPinned args with
    | some e => some ⟨false, e⟩
    | none => none
  else none

def TryOut.render (o : TryOut) : Str :=
  (if o.parens then '(' :: o.operand.text ++ [')'] else o.operand.text) ++ ['?']

def TryOut.toks (o : TryOut) : List Tok :=
  (if o.parens then [cs% "("] ++ o.operand.toks ++ [cs% ")"] else o.operand.toks) ++ [cs% "?"]

def ArgTok.toks : ArgTok → List Tok
  | .expr e => e.toks
  | .comma => [cs% ","]
  | .junk t => [t]

/-- the tokens between the macro's delimiters -/
def argToks (args : List ArgTok) : List Tok := args.flatMap ArgTok.toks

/-- what `?` applies to in the printed form: the whole operand when it is parenthesised or stands as a postfix operand
on its own; otherwise `?` would take a part of it (`none`) -/
def TryOut.scope (o : TryOut) : Option (List Tok) :=
  if o.parens || !needsParens o.operand then some o.operand.toks else none

/-! ## §3 condense_wildcard_suffixes -/

/-- one element of a tuple pattern as `itemize_list` returns it: the rendered pattern and whether a comment sits next to
it (`ListItem::has_comment`) -/
structure TItem where
  text : Str
  hasComment : Bool
  deriving DecidableEq, Repr

def wildText : Str := ['_']
def restText : Str := ['.', '.']

/-- the loop of `count_wildcard_suffix_len` over the reversed items: count while the rendered item is `_`, stop behind
the first one that carries a comment -/
def countSuffixRev : List TItem → Nat
  | [] => 0
  | i :: r => if i.text == wildText then (if i.hasComment then 1 else 1 + countSuffixRev r) else 0

def countWildcardSuffixLen (items : List TItem) : Nat := countSuffixRev items.reverse

/-- `TuplePatField::is_dotdot` on the source patterns -/
def hasDotdot (items : List TItem) : Bool := items.any (fun i => i.text == restText)

def condenseFires (opt : Bool) (items : List TItem) : Bool :=
  opt && !hasDotdot items && decide (countWildcardSuffixLen items ≥ 2)

/-- the element list `rewrite_tuple_pat` hands on: the first wildcard of the suffix becomes `..`, the rest is cut -/
def condense (opt : Bool) (items : List TItem) : List Str :=
  if condenseFires opt items then
    (items.take (items.length - countWildcardSuffixLen items)).map TItem.text ++ [restText]
  else items.map TItem.text

/-- the pinned tree does not look for an existing `..` -/
def condensePinned (opt : Bool) (items : List TItem) : List Str :=
  if opt && decide (countWildcardSuffixLen items ≥ 2) then
    (items.take (items.length - countWildcardSuffixLen items)).map TItem.text ++ [restText]
  else items.map TItem.text

/-- What a tuple pattern says about a tuple of `n` fields: one sub-pattern per field, `_` where a `..` stands for it.
`none` when the pattern does not fit (wrong length, `..` more than once). -/
def tupleDen (n : Nat) (pats : List Str) : Option (List Str) :=
  match pats.filter (· == restText) |>.length with
  | 0 => if pats.length = n then some pats else none
  | 1 =>
    if pats.length - 1 ≤ n then
      some (pats.takeWhile (· != restText) ++ List.replicate (n - (pats.length - 1)) wildText ++
        (pats.dropWhile (· != restText)).drop 1)
    else none
  | _ => none

/-! ## §4 remove_nested_parens -/

/-- `attrs (pre inner post)`: a parenthesised expression with the attributes on it and the comments right inside its
parentheses (empty = none) -/
inductive PExpr where
  | atom (t : Str)
  | paren (attrs pre post : Str) (inner : PExpr)
  deriving DecidableEq, Repr

/-- The loop of `rewrite_paren` followed by the rewriting of what it ends on: a parenthesis directly inside another is
dropped when the option is on, no comment stands between the two and the inner one has no attributes. -/
def PExpr.norm (opt : Bool) : PExpr → PExpr
  | .atom t => .atom t
  | .paren a pre post (.atom t) => .paren a pre post (.atom t)
  | .paren a pre post (.paren a' pre' post' inner) =>
    if opt && a'.isEmpty && pre.isEmpty && post.isEmpty then PExpr.norm opt (.paren a pre' post' inner)
    else .paren a pre post (PExpr.norm opt (.paren a' pre' post' inner))
termination_by e => sizeOf e
decreasing_by all_goals simp_wf <;> omega

/-- the pinned tree: the attributes of the inner parenthesis are not looked at (and are lost with it) -/
def PExpr.normPinned (opt : Bool) : PExpr → PExpr
  | .atom t => .atom t
  | .paren a pre post (.atom t) => .paren a pre post (.atom t)
  | .paren a pre post (.paren a' pre' post' inner) =>
    if opt && pre.isEmpty && post.isEmpty then PExpr.normPinned opt (.paren a pre' post' inner)
    else .paren a pre post (PExpr.normPinned opt (.paren a' pre' post' inner))
termination_by e => sizeOf e
decreasing_by all_goals simp_wf <;> omega

/-- one line: attributes, a blank, `(`, comment, inner, comment, `)` -/
def PExpr.render : PExpr → Str
  | .atom t => t
  | .paren a pre post inner =>
    (if a.isEmpty then [] else a ++ [' ']) ++ '(' :: pre ++ inner.render ++ post ++ [')']

/-- everything but the parentheses, in order: attributes, comments, the innermost text -/
def PExpr.hard : PExpr → List Str
  | .atom t => [t]
  | .paren a pre post inner => [a, pre].filter (!·.isEmpty) ++ inner.hard ++ [post].filter (!·.isEmpty)

def PExpr.depth : PExpr → Nat
  | .atom _ => 0
  | .paren _ _ _ inner => inner.depth + 1

/-! ## §5 visibility and ABI -/

inductive Vis where
  | pub_
  | inherited
  /-- `pub(path)` / `pub(in path)`: `global` = the path starts with `::`, `segs` = the other segments as written -/
  | restricted (global : Bool) (segs : List Str)
  deriving DecidableEq, Repr

def isVisKeyword (s : Str) : Bool := s == cs% "crate" || s == cs% "self" || s == cs% "super"

/-- `format_visibility` -/
def formatVisibility : Vis → Str
  | .pub_ => cs% "pub "
  | .inherited => []
  | .restricted _ segs =>
    let path := joinWith (cs% "::") segs
    cs% "pub(" ++ (if isVisKeyword path then [] else cs% "in ") ++ path ++ cs% ") "

inductive Ext where
  | none
  /-- `extern` without a string -/
  | implicit
  /-- `extern "abi"`: `symbol_unescaped` -/
  | explicit (abi : Str)
  deriving DecidableEq, Repr

/-- `format_extern(ext, explicit_abi)` -/
def formatExtern (ext : Ext) (explicitAbi : Bool) : Str :=
  match ext with
  | .none => []
  | .implicit => if explicitAbi then cs% "extern \"C\" " else cs% "extern "
  | .explicit abi =>
    if abi == cs% "C" && !explicitAbi then cs% "extern "
    else cs% "extern \"" ++ abi ++ cs% "\" "

/-- `format_extern` read off a list of arms (variant, guard, kind of result, literal text), first match: the GENERATED
`RF.Gen.Keywords.externArms` is run through this -/
def externFromArms (arms : List (Str × Str × Str × Str)) (ext : Ext) (explicitAbi : Bool) : Option Str :=
  let variant : Str := match ext with | .none => cs% "none" | .implicit => cs% "implicit" | .explicit _ => cs% "explicit"
  let abi : Str := match ext with | .explicit a => a | _ => []
  let holds (g : Str) : Bool :=
    if g == cs% "always" then true
    else if g == cs% "explicitAbi" then explicitAbi
    else if g == cs% "abiIsCAndNotExplicit" then abi == cs% "C" && !explicitAbi
    else false
  match arms.find? (fun a => a.1 == variant && holds a.2.1) with
  | some (_, _, kind, text) =>
    if kind == cs% "lit" then some text
    else if kind == cs% "quoteAbi" then some (cs% "extern \"" ++ abi ++ cs% "\" ")
    else none
  | none => none

/-- the ABI a qualifier selects (`extern` alone is `extern "C"`) -/
def Ext.den : Ext → Option Str
  | .none => Option.none
  | .implicit => some (cs% "C")
  | .explicit a => some a

/-- reads a printed qualifier back: ``, `extern `, `extern "<abi>" ` where the text between the quotes stands for
itself (no escapes) -/
def readExtern (s : Str) : Option Ext :=
  if s == [] then some .none
  else if s == cs% "extern " then some .implicit
  else match s with
    | 'e' :: 'x' :: 't' :: 'e' :: 'r' :: 'n' :: ' ' :: '"' :: r =>
      let abi := r.takeWhile (fun c => c != '"' && c != '\\')
      if r.dropWhile (fun c => c != '"' && c != '\\') == cs% "\" " then some (.explicit abi) else none
    | _ => none

/-! ## §6 attributes: merge_derives, normalize_doc_attributes -/

inductive Attr where
  /-- `#[derive(…)]`: `paths` = the source text of each element, `none` when `meta_item_list()` is `None`
  (`#[derive]`, `#[derive = "x"]`) -/
  | derive (paths : Option (List Str))
  /-- `/// …`, `//! …`, `/** … */` -/
  | docComment (text : Str)
  /-- `#[doc = "…"]` / `#![doc = "…"]`: the unescaped value -/
  | docAttr (inner : Bool) (value : Str)
  | other (text : Str)
  deriving DecidableEq, Repr

/-- an attribute and what separates it from the next one: the number of line feeds and whether there is a `/` -/
structure AttrIn where
  attr : Attr
  gapNewlines : Nat
  gapSlash : Bool
  /-- a comment stands behind the attribute on its line (`comment_follows_on_line`) -/
  lineComment : Bool
  deriving DecidableEq, Repr

def Attr.isDerive : Attr → Bool
  | .derive _ => true
  | _ => false

def Attr.isDocComment : Attr → Bool
  | .docComment _ => true
  | _ => false

/-- `take_while_with_pred`: the length of the first group that fills the predicate; a blank line or a comment between
two attributes ends the group behind the first of them -/
def takeRun (pred : Attr → Bool) : List AttrIn → Nat
  | [] => 0
  | a :: rest =>
    if pred a.attr then
      (if rest.isEmpty then 1
       else if decide (a.gapNewlines ≥ 2) || a.gapSlash then 1 else 1 + takeRun pred rest)
    else 0

inductive AttrOut where
  /-- a run of doc comments, rewritten together -/
  | docs (texts : List Str)
  /-- one `#[derive(…)]` with the elements of a run -/
  | derive (paths : List Str)
  /-- `DocCommentFormatter`'s text, handed to `rewrite_doc_comment` -/
  | docFromAttr (text : Str)
  | single (a : Attr)
  deriving DecidableEq, Repr

/-- all element lists of a run, `none` if one of them does not parse (`format_derive` gives up) -/
def collectPaths : List AttrIn → Option (List Str)
  | [] => some []
  | a :: rest =>
    match a.attr, collectPaths rest with
    | .derive (some ps), some r => some (ps ++ r)
    | _, _ => none

/-- split at every line feed (never empty: the text behind the last line feed is the last piece) -/
def splitLF : Str → List Str
  | [] => [[]]
  | c :: r =>
    if c == '\n' then [] :: splitLF r
    else match splitLF r with
      | h :: t => (c :: h) :: t
      | [] => [[c]]

def stripCR (l : Str) : Str := if l.getLast? == some '\r' then l.dropLast else l

/-- `str::lines`: the pieces in front of a line feed lose a `\r` at their end, an empty last piece is no line -/
def strLines (s : Str) : List Str :=
  let ps := splitLF s
  ps.dropLast.map stripCR ++ (match ps.getLast? with
    | some l => if l.isEmpty then [] else [l]
    | none => [])

/-- `DocCommentFormatter` (`///` for outer, `//!` for inner attributes; the opener is trimmed at its end) -/
def docCommentText (inner : Bool) (value : Str) : Str :=
  let opener := if inner then cs% "//!" else cs% "///"
  match strLines value with
  | [] => opener
  | ls => joinWith ['\n'] (ls.map (opener ++ ·))

/-- The loop of `impl Rewrite for [ast::Attribute]`, `fuel` = an upper bound for its rounds (the list length).
`none` = the rewrite fails (`format_derive` returned `None`). -/
def rewriteAttrsGo (merge skipDerives normDoc : Bool) : Nat → List AttrIn → Option (List AttrOut)
  | 0, _ => some []
  | _, [] => some []
  | fuel + 1, a :: rest =>
    let attrs := a :: rest
    let nd := takeRun Attr.isDocComment attrs
    if nd > 0 then
      (rewriteAttrsGo merge skipDerives normDoc fuel (attrs.drop nd)).map
        (fun r => .docs ((attrs.take nd).map (fun x => match x.attr with | .docComment t => t | _ => [])) :: r)
    else if !skipDerives && merge && a.attr.isDerive then
      let n := takeRun Attr.isDerive attrs
      match collectPaths (attrs.take n) with
      | none => none
      | some ps => (rewriteAttrsGo merge skipDerives normDoc fuel (attrs.drop n)).map (fun r => .derive ps :: r)
    else
      let out := match a.attr with
        | .docAttr inner v =>
          if normDoc && !a.lineComment then .docFromAttr (docCommentText inner v) else .single a.attr
        | x => .single x
      (rewriteAttrsGo merge skipDerives normDoc fuel rest).map (fun r => out :: r)

def rewriteAttrs (merge skipDerives normDoc : Bool) (attrs : List AttrIn) : Option (List AttrOut) :=
  rewriteAttrsGo merge skipDerives normDoc attrs.length attrs

/-- What an attribute list says about derives: the derived paths in order, cut wherever something that is not a derive
stands between them (`none` = the cut). -/
def deriveSeqIn : List AttrIn → List (Option Str)
  | [] => []
  | a :: rest =>
    match a.attr with
    | .derive (some ps) => ps.map some ++ deriveSeqIn rest
    | _ => none :: deriveSeqIn rest

def deriveSeqOut : List AttrOut → List (Option Str)
  | [] => []
  | .derive ps :: rest => ps.map some ++ deriveSeqOut rest
  | .docs ts :: rest => ts.map (fun _ => none) ++ deriveSeqOut rest
  | .single (.derive (some ps)) :: rest => ps.map some ++ deriveSeqOut rest
  | _ :: rest => none :: deriveSeqOut rest

/-- the documentation string a run of line doc comments stands for: the text behind each opener (three characters),
joined by line feeds -/
def docValue (text : Str) : Str := joinWith ['\n'] ((splitLF text).map (·.drop 3))

/-! ## §7 leading pipes, arm commas, semicolons -/

inductive LeadingPipe | never | always | preserve
  deriving DecidableEq, Repr

/-- the `match context.config.match_arm_leading_pipes()` of `rewrite_match_arm`: the text in front of the pattern -/
def pipeStr (opt : LeadingPipe) (hasLeadingPipe : Bool) : Str :=
  match opt with
  | .never => []
  | .preserve => if hasLeadingPipe then cs% "| " else []
  | .always => cs% "| "

/-- the alternatives of an arm as printed: `pipeStr` and the alternatives joined by ` | ` -/
def renderArmPats (opt : LeadingPipe) (hasLeadingPipe : Bool) (alts : List Str) : Str :=
  pipeStr opt hasLeadingPipe ++ joinWith (cs% " | ") alts

/-- the tokens of the printed alternatives -/
def armPatToks (opt : LeadingPipe) (hasLeadingPipe : Bool) (alts : List Tok) : List Tok :=
  (if pipeStr opt hasLeadingPipe == [] then [] else [cs% "|"]) ++ alts.intersperse (cs% "|")

/-- reading alternatives back: a leading `|` is not an alternative -/
def readAlts (ts : List Tok) : List Tok :=
  (match ts with | t :: r => if t == cs% "|" then r else ts | [] => []).filter (· != cs% "|")

inductive BodyClass
  /-- a block with `BlockCheckMode::Default` -/
  | block
  /-- a block with another `BlockCheckMode` (the `unsafe`-block) -/
  | unsafeBlock
  | expr
  deriving DecidableEq, Repr

/-- `arm_comma(config, body, is_last)`: does the arm get a `,` -/
def armComma (trailingCommaNever matchBlockTrailingComma : Bool) (body : BodyClass) (isLast : Bool) : Bool :=
  if isLast && trailingCommaNever then false
  else if matchBlockTrailingComma then true
  else match body with
    | .block => false
    | _ => true

inductive ExprClass
  /-- `return`, `break`, `continue` -/
  | jump
  /-- `while`, `loop`, `for` -/
  | loop_
  | other
  deriving DecidableEq, Repr

inductive StmtKind where
  | let_ | item | mac | empty
  /-- an expression without `;` -/
  | expr (c : ExprClass)
  /-- an expression with `;` -/
  | semi (c : ExprClass)
  deriving DecidableEq, Repr

/-- `semicolon_for_expr(context, expr)` -/
def semicolonForExpr (trailingSemicolon isMacroDef : Bool) (c : ExprClass) : Bool :=
  if isMacroDef then false
  else match c with
    | .jump => trailingSemicolon
    | _ => false

/-- `semicolon_for_stmt(context, stmt, is_last_expr)` -/
def semicolonForStmt (trailingSemicolon : Bool) (k : StmtKind) (isLastExpr : Bool) : Bool :=
  match k with
  | .semi .loop_ => false
  | .semi .jump => trailingSemicolon || !isLastExpr
  | .semi .other => true
  | .expr _ => false
  | _ => true

/-- `Stmt::is_last_expr` -/
def isLastExpr (isLast : Bool) (k : StmtKind) : Bool :=
  isLast && (match k with
    | .expr .jump => false
    | .expr _ => true
    | _ => false)

/-- does the source have a `;` behind the statement's expression -/
def StmtKind.srcSemi : StmtKind → Bool
  | .semi _ => true
  | _ => false

/-- Is a `;` printed behind the expression of the `i`-th statement of a block: `format_stmt`'s suffix, and for the
last statement the `;` `visit_block` pushes when it is an expression without one. -/
def outSemi (trailingSemicolon isMacroDef : Bool) (isLast : Bool) (k : StmtKind) : Bool :=
  match k with
  | .expr c => isLast && semicolonForExpr trailingSemicolon isMacroDef c
  | .semi _ => semicolonForStmt trailingSemicolon k (isLastExpr isLast k)
  | _ => false

/-! ## §8 a float literal and what follows it -/

open RF.Lit

/-- `float_lit_ends_in_dot(symbol, suffix, float_literal_trailing_zero)`; `none` = the `unwrap()` of the `Never` arm
panics (the symbol is not a float symbol) -/
def floatLitEndsInDot (mode : TrailingZero) (symbol suffix : Str) : Option Bool :=
  match mode with
  | .preserve => some (symbol.getLast? == some '.' && suffix.isEmpty)
  | .ifNoPostfix | .always => some false
  | .never =>
    match parseFloatSymbol symbol with
    | none => none
    | some p => some (!(p.exponent.isSome || !suffix.isEmpty) && p.isFractionalPartZero)

/-- the literal as printed (`rewrite_float_lit`, the snippet where it keeps it) -/
def printedFloat (mode : TrailingZero) (symbol suffix : Str) : Str :=
  (rewriteFloatLit mode symbol suffix).getD (symbol ++ suffix)

/-- the operator of a range expression behind a literal left operand (`default_sp_delim`: a blank in front when
`needs_space_before_range`) and of a range pattern (`rewrite_range_pat`, which looks at the printed operand) -/
def rangeGlue (endsInDot : Bool) (delim : Str) : Str := if endsInDot then ' ' :: delim else delim

/-- `rewrite_range_pat` of the pinned tree: the operator is never kept apart -/
def rangeGluePinned (_endsInDot : Bool) (delim : Str) : Str := delim

def isIdStartA (c : Char) : Bool := ('a' ≤ c && c ≤ 'z') || ('A' ≤ c && c ≤ 'Z') || c == '_'
def isIdContinueA (c : Char) : Bool := isIdStartA c || ('0' ≤ c && c ≤ '9')
def isDecU (c : Char) : Bool := ('0' ≤ c && c ≤ '9') || c == '_'
def isHexU (c : Char) : Bool :=
  ('0' ≤ c && c ≤ '9') || ('a' ≤ c && c ≤ 'f') || ('A' ≤ c && c ≤ 'F') || c == '_'

/-- `eat_float_exponent` -/
def eatExponent (r : Str) : Str :=
  match r with
  | [] => []
  | a :: u => if a == '+' || a == '-' then u.dropWhile isDecU else r.dropWhile isDecU

/-- behind the digits of the fraction: an exponent, if there is one -/
def afterFraction (r2 : Str) : Str :=
  match r2 with
  | [] => []
  | y :: r3 => if y == 'e' || y == 'E' then eatExponent r3 else r2

/-- the `match self.first()` at the end of `Cursor::number`: what is left behind the fraction and the exponent.
`'.' if self.second() != '.' && !is_id_start(self.second())` takes the point; digits and an exponent may follow it. -/
def afterDigits (r : Str) : Str :=
  match r with
  | [] => []
  | a :: r' =>
    if a == '.' then
      match r' with
      | [] => []
      | c :: _ =>
        if c == '.' || isIdStartA c then r
        else if '0' ≤ c && c ≤ '9' then afterFraction (r'.dropWhile isDecU)
        else r'
    else if a == 'e' || a == 'E' then eatExponent r'
    else r

/-- `eat_literal_suffix` (ASCII) -/
def eatSuffix (r : Str) : Str :=
  match r with
  | c :: u => if isIdStartA c then u.dropWhile isIdContinueA else r
  | [] => []

/-- a base prefix: the digits of that base, and only if there is a digit the rest of `number` -/
def afterBase (isDigitU : Char → Bool) (u : Str) : Str :=
  if (u.takeWhile isDigitU).any (fun c => c != '_') then eatSuffix (afterDigits (u.dropWhile isDigitU))
  else eatSuffix (u.dropWhile isDigitU)

/-- `rustc_lexer::Cursor::number` + `eat_literal_suffix` on a text that starts with a digit: what is left behind the
numeric literal token (ASCII; `0b` / `0o` / `0x` with their digit classes) -/
def lexNumberRest (s : Str) : Str :=
  match s with
  | [] => []
  | d :: t =>
    if d == '0' then
      match t with
      | [] => []
      | c :: u =>
        if c == 'b' || c == 'o' then afterBase isDecU u
        else if c == 'x' then afterBase isHexU u
        else if isDecU c then eatSuffix (afterDigits (t.dropWhile isDecU))
        else if c == '.' || c == 'e' || c == 'E' then eatSuffix (afterDigits t)
        else eatSuffix t
    else eatSuffix (afterDigits (t.dropWhile isDecU))

/-- the first token of `s` (a text starting with a digit) -/
def lexNumberTok (s : Str) : Str := s.take (s.length - (lexNumberRest s).length)

end RF.Opt
