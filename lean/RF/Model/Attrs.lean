import RF.Model.OptRewrites
import RF.Model.ListsRc
/-
C01 / C03 on attributes: the TEXT that `src/attr.rs` produces for an attribute list.

  `impl Rewrite for [ast::Attribute]`   `rewriteAttrs` : the loop over runs of sugared doc comments, runs of derives
                                        (merge_derives) and single attributes, and the text pushed for the GAP between
                                        two attributes (`recover_missing_comment_in_span`,
                                        `has_newlines_before_after_comment`, the line feed and the indentation)
  `impl Rewrite for ast::Attribute`     `rewriteAttr` : doc comments through `rewrite_doc_comment`; the source snippet for
                                        skipped attributes, attributes with a comment inside, attributes whose meta item
                                        does not parse or does not render; `#[doc = "…"]` -> `///…`
                                        (normalize_doc_attributes); `#[…]` / `#![…]` / `#[unsafe(…)]`
  `impl Rewrite for ast::MetaItem`      `renderMeta` : the one-line form of a meta item given as its token sequence
                                        (paths, literals as written, `(`, `)`, `,`, `=`)
  `format_derive`                       `formatDeriveOneLine` : the one-line form and its budget

The DECISIONS (which attributes form a run, when derives merge) are those of RF/Model/OptRewrites.lean §6: this file
calls `RF.Opt.takeRun`, `RF.Opt.collectPaths`, `RF.Opt.docCommentText` through `toIn`; it does not restate them.

Parameters (not modelled here, stated as hypotheses where a theorem needs them):
  `rdc`        `rewrite_doc_comment(·, shape.comment(config), config)`
  `rc`         `rewrite_comment(·, false, shape.with_max_width(config), config)`
  `metaRw`     `MetaItem::rewrite_result` (the driver plugs in `renderMeta` when it fits on the line, otherwise what the
               real rewriter returned: the multi-line layouts of `overflow::rewrite_with_parens` are outside this model)
  `fmtDerive`  `format_derive` (the driver: `formatDeriveOneLine`, or what the real function returned when nested)
The driver instantiates `rdc` and `rc` with `RF.Lists.rewriteCommentLight` (normalize_comments = wrap_comments = false).
ASCII sources: byte lengths are character counts.
-/
namespace RF.Attrs
open RF.Opt (joinWith)

abbrev Str := List Char

/-! ## meta items -/

/-- one token of a meta item in source order; `trail` is a comma in front of a closing parenthesis -/
inductive MTok where
  | path (s : Str)
  | lit (s : Str)
  | lp | rp | comma | trail | eq
  deriving DecidableEq, Repr

/-- what `MetaItem::rewrite_result` prints for the token on one line -/
def MTok.render : MTok → Str
  | .path s => s
  | .lit s => s
  | .lp => ['(']
  | .rp => [')']
  | .comma => [',', ' ']
  | .trail => []
  | .eq => [' ', '=', ' ']

/-- the token as source text -/
def MTok.src : MTok → Str
  | .path s => s
  | .lit s => s
  | .lp => ['(']
  | .rp => [')']
  | .comma => [',']
  | .trail => [',']
  | .eq => ['=']

def MTok.isTrail : MTok → Bool
  | .trail => true
  | _ => false

/-- the one-line form of a meta item -/
def renderMeta (ts : List MTok) : Str := ts.flatMap MTok.render

/-! ## attributes -/

structure Attr where
  /-- `#![…]` / `//!` / `/*! */` -/
  inner : Bool
  /-- a sugared doc comment (`is_doc_comment()`) -/
  isDoc : Bool
  /-- the source text of the attribute -/
  snippet : Str
  /-- `attr.meta()`: the tokens of the meta item, `none` when it does not parse -/
  metaToks : Option (List MTok)
  /-- `has_name(derive)`: `some (meta_item_list() as source texts)` -/
  derive : Option (Option (List Str))
  /-- the unescaped value of `doc = "…"` -/
  docValue : Option Str
  /-- `#[unsafe(…)]` -/
  isUnsafe : Bool
  /-- `contains_comment(snippet)` -/
  hasComment : Bool
  /-- the attribute's name is under `#[rustfmt::skip::attributes(…)]` -/
  skip : Bool
  /-- `comment_follows_on_line` -/
  follows : Bool
  /-- the source text between this attribute and the next one (not read for the last attribute) -/
  gap : Str
  deriving DecidableEq, Repr

def countNewlines (s : Str) : Nat := s.count '\n'

/-- Whether every line of a doc attribute's value still is documentation behind `///` (`////…` is an ordinary
comment); `//!/…` is documentation. -/
def survivesAsLineDoc (inner : Bool) (v : Str) : Bool :=
  inner || !(RF.Opt.strLines v).any (fun l => l.head? == some '/')

/-- the value `normalize_doc_attributes` may turn into a line doc comment -/
def Attr.normValue (a : Attr) : Option Str := a.docValue.filter (survivesAsLineDoc a.inner)

/-- the attribute as RF/Model/OptRewrites.lean §6 sees it -/
def Attr.optAttr (a : Attr) : RF.Opt.Attr :=
  if a.isDoc then .docComment a.snippet
  else match a.derive with
    | some ps => .derive ps
    | none =>
      match a.normValue with
      | some v => .docAttr a.inner v
      | none => .other a.snippet

def toIn (a : Attr) : RF.Opt.AttrIn :=
  ⟨a.optAttr, countNewlines a.gap, a.gap.contains '/', a.follows⟩

def docRun (attrs : List Attr) : Nat := RF.Opt.takeRun RF.Opt.Attr.isDocComment (attrs.map toIn)
def deriveRun (attrs : List Attr) : Nat := RF.Opt.takeRun RF.Opt.Attr.isDerive (attrs.map toIn)

structure Env where
  merge : Bool
  skipDerives : Bool
  normDoc : Bool
  /-- `shape.indent.to_string(config)` -/
  indentStr : Str
  maxWidth : Nat
  /-- `shape.width` -/
  width : Nat
  rdc : Str → Option Str
  rc : Str → Option Str
  metaRw : Attr → List MTok → Option Str
  fmtDerive : List Attr → List Str → Option Str

def attrPrefix (inner : Bool) : Str := if inner then ['#', '!'] else ['#']

/-- `impl Rewrite for ast::Attribute` (`none` = `Err`).  `pinned` = the tree before the repair of this work: a value
whose line starts with a slash is normalised too. -/
def rewriteAttrG (pinned : Bool) (e : Env) (a : Attr) : Option Str :=
  if a.isDoc then e.rdc a.snippet
  else if a.skip || a.hasComment then some a.snippet
  else match a.metaToks with
    | none => some a.snippet
    | some toks =>
      match (if e.normDoc && !a.follows then (if pinned then a.docValue else a.normValue) else none) with
      | some v => e.rdc (RF.Opt.docCommentText a.inner v)
      | none =>
        if e.width < (attrPrefix a.inner).length + 1 then none
        else some (match e.metaRw a toks with
          | none => a.snippet
          | some rw =>
            if a.isUnsafe then attrPrefix a.inner ++ "[unsafe(".toList ++ rw ++ ")]".toList
            else attrPrefix a.inner ++ ['['] ++ rw ++ [']'])

def rewriteAttr (e : Env) (a : Attr) : Option Str := rewriteAttrG false e a
def rewriteAttrPinned (e : Env) (a : Attr) : Option Str := rewriteAttrG true e a

/-! ## the gap between two attributes -/

/-- `has_newlines_before_after_comment`: is there an empty line in front of the first comment / behind the last -/
def newlinesAround (gap : Str) : Bool × Bool :=
  let mlb := decide (countNewlines (gap.takeWhile (· != '/')) > 1)
  let mla :=
    if !gap.contains '/' then mlb
    else decide (((gap.reverse.takeWhile RF.Lists.isWhitespace).filter (· == '\n')).length > 1)
  (mlb, mla)

def nl (b : Bool) : Str := if b then ['\n'] else []

/-- `recover_missing_comment_in_span(gap, shape.with_max_width(config), context, 0)` -/
def recover (e : Env) (gap : Str) : Option Str :=
  let t := RF.Lists.trim gap
  if t.isEmpty || !t.contains '/' then some []
  else match e.rc t with
    | none => none
    | some mc =>
      if mc.isEmpty then some []
      else
        let force := (gap.takeWhile (· != '/')).contains '\n' || decide (mc.length + 1 > e.maxWidth)
        some ((if force then '\n' :: e.indentStr else [' ']) ++ mc)

/-- what is pushed behind a run of doc comments that another attribute follows -/
def gapAfterDocs (e : Env) (g : Str) : Option Str :=
  (recover e g).map fun c =>
    (if c.isEmpty then '\n' :: nl (newlinesAround g).2
     else nl (newlinesAround g).1 ++ c ++ ['\n'] ++ nl (newlinesAround g).2) ++ e.indentStr

/-- what is pushed behind a derive run or a single attribute that another attribute follows -/
def gapAfterOther (e : Env) (g : Str) (nextIsDoc : Bool) : Option Str :=
  (recover e g).map fun c => c ++ nl (nextIsDoc && (newlinesAround g).2) ++ ['\n'] ++ e.indentStr

/-! ## the list -/

inductive Seg where
  /-- a run of sugared doc comments, rewritten together -/
  | docs (srcs : List Attr) (text : Str)
  /-- a run of derives, merged -/
  | derives (srcs : List Attr) (text : Str)
  | single (src : Attr) (text : Str)
  /-- the text between two attributes and what was pushed for it -/
  | gap (src : Str) (text : Str)
  deriving DecidableEq, Repr

def Seg.text : Seg → Str
  | .docs _ t => t
  | .derives _ t => t
  | .single _ t => t
  | .gap _ t => t

def Seg.srcs : Seg → List Attr
  | .docs s _ => s
  | .derives s _ => s
  | .single s _ => [s]
  | .gap _ _ => []

def Seg.isGap : Seg → Bool
  | .gap _ _ => true
  | _ => false

def render (segs : List Seg) : Str := segs.flatMap Seg.text

def lastGap (run : List Attr) : Str := (run.getLast?.map (·.gap)).getD []

/-- the segment of a group followed by the rest: `tail = []` ends the list, otherwise the gap behind the group's last
attribute is pushed -/
def andThen (seg : Seg) (gapText : Option Str) (g : Str) (tail : List Attr) (rest : Option (List Seg)) :
    Option (List Seg) :=
  match tail with
  | [] => some [seg]
  | _ :: _ =>
    match gapText, rest with
    | some gt, some r => some (seg :: .gap g gt :: r)
    | _, _ => none

/-- The loop of `impl Rewrite for [ast::Attribute]`; `fuel` bounds its rounds (every round takes at least one
attribute).  `single` is `Attribute::rewrite_result`. -/
def rewriteGo (e : Env) (single : Attr → Option Str) : Nat → List Attr → Option (List Seg)
  | 0, _ => some []
  | _, [] => some []
  | fuel + 1, a :: rest =>
    let attrs := a :: rest
    let nd := docRun attrs
    if nd > 0 then
      let run := attrs.take nd
      let tail := attrs.drop nd
      match e.rdc (joinWith ['\n'] (run.map (·.snippet))) with
      | none => none
      | some text =>
        andThen (.docs run text) (gapAfterDocs e (lastGap run)) (lastGap run) tail (rewriteGo e single fuel tail)
    else if e.merge && !e.skipDerives && a.derive.isSome then
      let n := deriveRun attrs
      let run := attrs.take n
      let tail := attrs.drop n
      match RF.Opt.collectPaths (run.map toIn) with
      | none => none
      | some ps =>
        match e.fmtDerive run ps with
        | none => none
        | some text =>
          andThen (.derives run text) (gapAfterOther e (lastGap run) ((tail.head?.map (·.isDoc)).getD false))
            (lastGap run) tail (rewriteGo e single fuel tail)
    else
      match single a with
      | none => none
      | some text =>
        andThen (.single a text) (gapAfterOther e a.gap ((rest.head?.map (·.isDoc)).getD false)) a.gap rest
          (rewriteGo e single fuel rest)

def rewriteSegs (e : Env) (single : Attr → Option Str) (attrs : List Attr) : Option (List Seg) :=
  rewriteGo e single attrs.length attrs

/-- `<[ast::Attribute]>::rewrite_result` -/
def rewriteAttrs (e : Env) (attrs : List Attr) : Option Str :=
  (rewriteSegs e (rewriteAttr e) attrs).map render

/-! ## format_derive on one line -/

/-- the length of the element list as `write_list` returns it (with its trailing comma) -/
def deriveItemStrLen (paths : List Str) : Nat :=
  if paths.isEmpty then 0 else (joinWith [',', ' '] paths).length + 1

/-- `format_derive` when the elements fit on the line of `#[derive(`: `none` = `None`, `some none` = the nested
layout (outside this model), `some (some s)` = the text.  `width` = `shape.width`. -/
def formatDeriveOneLine (width : Nat) (inner : Bool) (paths : List Str) : Option (Option Str) :=
  -- `shape.offset_left_opt("[derive()]".len() + prefix.len())?.sub_width_opt("()]".len())?`
  if width < 10 + (attrPrefix inner).length then none
  else if width - (10 + (attrPrefix inner).length) < 3 then none
  -- the list is written with a trailing comma that is removed afterwards
  else if paths.any (·.contains '\n') ||
      decide (deriveItemStrLen paths > width - (10 + (attrPrefix inner).length) - 3) then some none
  else some (some (attrPrefix inner ++ "[derive(".toList ++ joinWith [',', ' '] paths ++ ")]".toList))

/-! ## reading the result: what the oracles measure -/

/-- a sugared line doc comment: `///` not followed by a fourth slash, or `//!` -/
def isLineDoc (s : Str) : Bool :=
  match s with
  | '/' :: '/' :: '/' :: r => r.head? != some '/'
  | '/' :: '/' :: '!' :: _ => true
  | _ => false

/-- every line of the text is a line doc comment (behind its indentation) -/
def allLineDoc (s : Str) : Bool := (RF.Opt.splitLF s).all (fun l => isLineDoc (RF.Lists.trimStart l))

/-! ## what the result must say (squeezed: without white space) -/

abbrev sq (s : Str) : Str := RF.Lists.squeeze s

/-- the tokens of a meta item without a trailing comma, glued -/
def metaSq (ts : List MTok) : Str := sq ((ts.filter (fun t => !t.isTrail)).flatMap MTok.src)

/-- the non-blank characters `Attribute::rewrite_result` has to produce -/
def expectSingle (e : Env) (a : Attr) : Str :=
  if a.isDoc then sq a.snippet
  else if a.skip || a.hasComment then sq a.snippet
  else match a.metaToks with
    | none => sq a.snippet
    | some toks =>
      match (if e.normDoc && !a.follows then a.normValue else none) with
      | some v => sq (RF.Opt.docCommentText a.inner v)
      | none =>
        match e.metaRw a toks with
        | none => sq a.snippet
        | some _ =>
          if a.isUnsafe then attrPrefix a.inner ++ "[unsafe(".toList ++ metaSq toks ++ ")]".toList
          else attrPrefix a.inner ++ ['['] ++ metaSq toks ++ [']']

/-- one merged derive, glued -/
def expectDerive (run : List Attr) : Str :=
  sq (attrPrefix ((run.head?.map (·.inner)).getD false) ++ "[derive(".toList ++
    joinWith [','] ((RF.Opt.collectPaths (run.map toIn)).getD []) ++ ")]".toList)

/-- the non-blank characters a segment has to consist of, read off its SOURCE -/
def expectSeg (e : Env) : Seg → Str
  | .docs run _ => run.flatMap (fun a => sq a.snippet)
  | .derives run _ => expectDerive run
  | .single a _ => expectSingle e a
  | .gap g _ => sq g

/-- the grouping of the list does not depend on the rewriters: an environment in which all of them succeed -/
def groupEnv (e : Env) : Env :=
  { e with rdc := some, rc := some, fmtDerive := fun _ _ => some [] }

/-- drop a comma that stands directly in front of a closing parenthesis or angle bracket (a vertical list keeps or
adds it) -/
def dropTrailComma : Str → Str
  | [] => []
  | ',' :: ')' :: r => ')' :: dropTrailComma r
  | ',' :: '>' :: r => '>' :: dropTrailComma r
  | c :: r => c :: dropTrailComma r

/-- The oracle on a text `out` the real code produced for `attrs` (`pre` / `post`: the glued text around them): it
consists of exactly the expected non-blank characters — every attribute once, in order, every gap's comments between
the same two attributes — or the source was left as written. -/
def oracleExact (e : Env) (attrs : List Attr) (pre post out : Str) : Bool :=
  let written := attrs.flatMap (fun a => sq a.snippet ++ sq a.gap)
  let o := dropTrailComma (sq out)
  match rewriteSegs (groupEnv e) (fun a => some a.snippet) attrs with
  | none => o == dropTrailComma (sq pre ++ written ++ sq post)
  | some segs =>
    o == dropTrailComma (sq pre ++ segs.flatMap (expectSeg e) ++ sq post) ||
    o == dropTrailComma (sq pre ++ written ++ sq post)

/-- `needles` occur in `hay`, disjoint, in order -/
def occursInOrder : List Str → Str → Bool
  | [], _ => true
  | n :: ns, hay =>
    let rec find (fuel : Nat) (h : Str) : Option Str :=
      match fuel with
      | 0 => if n.isPrefixOf h then some (h.drop n.length) else none
      | k + 1 => if n.isPrefixOf h then some (h.drop n.length) else
        match h with
        | [] => none
        | _ :: t => find k t
    match find hay.length hay with
    | none => false
    | some rest => occursInOrder ns rest
termination_by ns _ => ns.length

end RF.Attrs
