import RF.Lemmas.Backup

/-!
# C20  The --backup write protocol never loses the original

The op lists are `RF.Gen.Emitters.fsOps`, generated from `src/emitter/files_with_backup.rs` and
`src/emitter/files.rs` on every run; the semantics (non-atomic `write`, atomic `rename`, a crash
at any instant, any single op failing, `?` skipping the rest) is `RF/Model/Backup.lean`.

Quantification: every byte type `β`, every original and formatted text, every pre-existing
content of the `.tmp` and `.bk` siblings (NO precondition on them is needed: a stale `.tmp` is
truncated by the write, a stale `.bk` is replaced by the atomic rename), every reachable
crash/fault state.  `disk` is what the file holds when the emitter starts; the guard compares
`origText` (what `write_file` took for the original), which the theorems do not assume equal to
`disk`.

What IS needed, and is stated as a hypothesis wherever several paths live in one file system, is
that the three paths `file`, `file.with_extension("tmp")`, `file.with_extension("bk")` are pairwise
distinct and distinct from those of every other file of the run.  The pinned code does not ensure
it; the `…_counterexample` theorems below are real runs of the binary (see the final report).
-/
namespace RF.Props.C20
open RF.Gen.Emitters RF.Backup

/-- Soundness of the executable oracle `checkProtocol` (driver op `bk.check`): an accepted op list
keeps both invariants (`Safe`) in every state reachable by crashes and faults. -/
theorem checkProtocol_sound {β : Type} (ops : List FsOp) (hc : checkProtocol ops = true)
    (orig fmt : List β) (fs s : Fs P β) (h0 : fs .file = some orig)
    (r : Reachable id fmt ops fs s) : Safe orig fmt s :=
  RF.Lemmas.Backup.checkProtocol_sound ops hc orig fmt fs s h0 r

/-- `Safe`, spelled out (holds by unfolding). -/
theorem safe_def {β : Type} (orig fmt : List β) (s : Fs P β) :
    Safe orig fmt s ↔
      (s .file = some orig ∨ s .bk = some orig) ∧
      (s .file = none ∨ s .file = some orig ∨ s .file = some fmt) :=
  Iff.rfl

/-- The executable `safeB` (driver op `bk.safe`, evaluated on the directory contents the harness
observes after killing the real binary) decides exactly `Safe`. -/
theorem safeB_iff {β : Type} [DecidableEq β] (orig fmt : List β) (s : Fs P β) :
    safeB orig fmt (s .file) (s .bk) = true ↔ Safe orig fmt s :=
  RF.Lemmas.Backup.safeB_iff orig fmt s

/-- Completeness of the state enumeration used as an oracle (driver op `bk.observed`): every
state the semantics can reach is described by one of the abstract states of `bk.states`.  So a
directory the harness observes that is NOT accepted is outside the model — a disagreement. -/
theorem reachable_observedOk {β : Type} [DecidableEq β] (ops : List FsOp) (orig fmt : List β)
    (fs s : Fs P β) (h0 : fs .file = some orig) (r : Reachable id fmt ops fs s) :
    observedOk ops orig fmt (s .file) (s .tmp) (s .bk) = true :=
  RF.Lemmas.Backup.reachable_observedOk ops orig fmt fs s h0 r

/-- The generated backup protocol passes the oracle. -/
theorem backup_protocol_checks : checkProtocol (fsOps .filesWithBackup) = true := by decide

/-- **backup_safe.**  Start the generated `--backup` op list in any file system whose file holds
`orig`.  In every state observable at a crash point, inside the non-atomic write, or after any
single failing op: the complete original is in the file or in the `.bk`, and the file is absent,
the complete original, or the complete formatted text — never a partial one. -/
theorem backup_safe {β : Type} (orig fmt : List β) (fs s : Fs P β) (h0 : fs .file = some orig)
    (r : Reachable id fmt (fsOps .filesWithBackup) fs s) :
    (s .file = some orig ∨ s .bk = some orig) ∧
    (s .file = none ∨ s .file = some orig ∨ s .file = some fmt) :=
  checkProtocol_sound _ backup_protocol_checks orig fmt fs s h0 r

/-- The same under the emitter's guard, whatever text the guard compared (`origText`). -/
theorem backup_safe_guarded {β : Type} [DecidableEq β] (disk origText fmt : List β)
    (fs s : Fs P β) (h0 : fs .file = some disk)
    (r : Reachable id fmt (guardedOps .filesWithBackup origText fmt) fs s) :
    Safe disk fmt s := by
  unfold guardedOps at r
  split at r
  · exact backup_safe disk fmt fs s h0 r
  · rw [RF.Lemmas.Backup.reachable_nil id fmt fs s r]
    exact RF.Lemmas.Backup.safe_init h0

/-- `backup_safe` inside a larger file system: if the file's three paths are distinct keys, the
invariants hold on them and no other path changes. -/
theorem backup_safe_paths {κ β : Type} [DecidableEq κ] (ρ : P → κ) (hρ : Function.Injective ρ)
    (orig fmt : List β) (g s : Fs κ β) (h0 : g (ρ .file) = some orig)
    (r : Reachable ρ fmt (fsOps .filesWithBackup) g s) :
    Safe orig fmt (s ∘ ρ) ∧ ∀ k, (∀ p, ρ p ≠ k) → s k = g k :=
  RF.Lemmas.Backup.checkProtocol_sound_paths hρ _ backup_protocol_checks orig fmt g s h0 r

/-- The state after a successful run is one of the states the safety theorems speak about. -/
theorem final_is_reachable {κ β : Type} [DecidableEq κ] (ρ : P → κ) (fmt : List β)
    (ops : List FsOp) (fs s : Fs κ β) (h : run ρ fmt ops fs = some s) :
    Reachable ρ fmt ops fs s :=
  RF.Lemmas.Backup.reachable_of_run ρ fmt ops fs s h

/-- **backup_final.**  A run in which every op succeeds ends with the formatted text in the file,
the original in the `.bk`, and no `.tmp`; and it always can succeed when the file exists. -/
theorem backup_final {β : Type} (orig fmt : List β) (fs : Fs P β) (h0 : fs .file = some orig) :
    ∃ s, run id fmt (fsOps .filesWithBackup) fs = some s ∧
      s .file = some fmt ∧ s .bk = some orig ∧ s .tmp = none := by
  simp [fsOps, run, step, Fs.set, h0]

/-- **unchanged_no_bk.**  When the guard finds the texts equal, no op runs: the only observable
state is the start state (so no `.bk` and no `.tmp` appear, nothing is touched). -/
theorem unchanged_no_bk {κ β : Type} [DecidableEq κ] [DecidableEq β] (ρ : P → κ)
    (kind : EmitterKind) (text : List β) (fs s : Fs κ β) :
    guardedOps kind text text = [] ∧
    (Reachable ρ text (guardedOps kind text text) fs s → s = fs) ∧
    run ρ text (guardedOps kind text text) fs = some fs := by
  have h : guardedOps kind text text = [] := by simp [guardedOps]
  refine ⟨h, ?_, ?_⟩
  · rw [h]; exact RF.Lemmas.Backup.reachable_nil ρ text fs s
  · rw [h]; rfl

/-- **multi_file_independent.**  A run over several files (`GReachable`: every earlier file left
in any of its reachable states, completed or abandoned at a fault; the current one anywhere),
each executing the backup op list or nothing.  Hypotheses, explicit: each file's three paths are
pairwise distinct (`hinj`), and no path of one file is a path of another (`hdis`; "distinct
stems": `with_extension` REPLACES the extension, so `a.rs` and `a.txt` share `a.tmp`, `a.bk`).
Then at every crash point of the whole run every file satisfies both invariants. -/
theorem multi_file_independent {κ β : Type} [DecidableEq κ] (js : List (Job κ β))
    (hops : ∀ j ∈ js, j.ops = fsOps .filesWithBackup ∨ j.ops = [])
    (hinj : ∀ j ∈ js, Function.Injective j.paths)
    (hdis : js.Pairwise (fun a b => ∀ p q, a.paths p ≠ b.paths q))
    (g t : Fs κ β) (h0 : ∀ j ∈ js, g (j.paths .file) = some j.disk)
    (r : GReachable js g t) :
    ∀ j ∈ js, Safe j.disk j.fmt (t ∘ j.paths) := by
  refine RF.Lemmas.Backup.multi_file js g t hinj hdis (fun j hj => ?_) h0 r
  rcases hops j hj with h | h <;> rw [h] <;> decide

/-! ### The path hypotheses are needed (each is a real run of the pinned binary) -/

/-- `rustfmt --backup a.rs a.txt`: both files resolve to `a.tmp` / `a.bk`.  Keys: 0 = `a.rs`,
1 = `a.txt`, 2 = `a.tmp`, 3 = `a.bk`.  After the (fault-free) run `a.bk` holds the original of
`a.txt`; the original of `a.rs` is nowhere. -/
theorem shared_stem_counterexample :
    let j1 : Job Nat Nat := ⟨fun | .file => 0 | .tmp => 2 | .bk => 3, [1], [10], fsOps .filesWithBackup⟩
    let j2 : Job Nat Nat := ⟨fun | .file => 1 | .tmp => 2 | .bk => 3, [2], [20], fsOps .filesWithBackup⟩
    let g : Fs Nat Nat := fun k => if k = 0 then some [1] else if k = 1 then some [2] else none
    Function.Injective j1.paths ∧ Function.Injective j2.paths ∧
    ∃ t, GReachable [j1, j2] g t ∧ ¬ Safe j1.disk j1.fmt (t ∘ j1.paths) ∧
      ∀ k, t k ≠ some [1] := by
  intro j1 j2 g
  refine ⟨?_, ?_, ?_⟩
  · intro p q; cases p <;> cases q <;> simp [j1]
  · intro p q; cases p <;> cases q <;> simp [j2]
  · have two : ∀ s1 t, run j1.paths j1.fmt j1.ops g = some s1 →
        run j2.paths j2.fmt j2.ops s1 = some t → GReachable [j1, j2] g t :=
      fun s1 t h1 h2 => .next j1 _ g s1 t (final_is_reachable _ _ _ _ _ h1)
        (.next j2 _ s1 t t (final_is_reachable _ _ _ _ _ h2) (.here _ _))
    refine ⟨_, two _ _ rfl rfl, ?_, ?_⟩
    · simp [Safe, j1, j2, g, Fs.set]
    · intro k; simp only [j1, j2, g, Fs.set]
      repeat' split
      all_goals simp_all

/-- `rustfmt --backup x.bk`: `x.bk`.with_extension("bk") is the file itself (`bk ↦ file`).  The
run succeeds, the file holds the formatted text, and the original is in neither place. -/
theorem backup_of_bk_file_counterexample :
    let ρ : P → P := fun | .file => .file | .tmp => .tmp | .bk => .file
    let fs : Fs P Nat := fun | .file => some [1] | _ => none
    ∃ s, run ρ [2] (fsOps .filesWithBackup) fs = some s ∧ ¬ Safe [1] [2] (s ∘ ρ) ∧
      ∀ k, s k ≠ some [1] := by
  intro ρ fs
  refine ⟨_, rfl, ?_, ?_⟩
  · simp [Safe, ρ, Fs.set]
  · intro k; cases k <;> simp [ρ, Fs.set]

/-- `rustfmt --backup x.tmp`: the temporary IS the file (`tmp ↦ file`).  The write destroys the
original at once (any prefix of the formatted text can be seen in the file), the first rename moves
the formatted text to `x.bk`, the second rename fails (exit 1): no file, the original nowhere. -/
theorem backup_of_tmp_file_counterexample :
    let ρ : P → P := fun | .file => .file | .tmp => .file | .bk => .bk
    let fs : Fs P Nat := fun | .file => some [1] | _ => none
    run ρ [2] (fsOps .filesWithBackup) fs = none ∧
    ∃ s, Reachable ρ [2] (fsOps .filesWithBackup) fs s ∧ s .file = none ∧ s .bk = some [2] ∧
      ¬ Safe [1] [2] (s ∘ ρ) := by
  intro ρ fs
  refine ⟨by simp [fsOps, run, step, Fs.set, ρ, fs], ?_⟩
  have h : run ρ [2] [FsOp.write .tmp, .rename .file .bk] fs = some _ := rfl
  refine ⟨_, RF.Lemmas.Backup.reachable_of_run_prefix ρ [2] _ [.rename .tmp .file] fs _ h,
    ?_, ?_, ?_⟩
  · simp [Fs.set, ρ]
  · simp [Fs.set, ρ]
  · simp [Safe, ρ, Fs.set]

/-! ### Contrast and sensitivity -/

/-- **plain_files_not_crash_safe.**  The in-place emitter (`fsOps .files`, today one
`fs::write(filename, …)`) can leave the file holding neither text: for ANY original and any
formatted text of at least two bytes there is a reachable state whose file is a strict prefix of
the formatted text different from the original. -/
theorem plain_files_not_crash_safe {β : Type} (orig fmt : List β) (h2 : 2 ≤ fmt.length)
    (fs : Fs P β) :
    ∃ s, Reachable id fmt (fsOps .files) fs s ∧
      s .file ≠ none ∧ s .file ≠ some orig ∧ s .file ≠ some fmt := by
  match fmt, h2 with
  | x :: y :: rest, _ =>
    by_cases ho : orig = []
    · refine ⟨_, .inside _ _ fs _ (.write .file fs 1 (by simp)), ?_, ?_, ?_⟩ <;>
        simp [Fs.set, ho]
    · refine ⟨_, .inside _ _ fs _ (.write .file fs 0 (by simp)), ?_, ?_, ?_⟩ <;>
        simp [Fs.set]
      exact ho

/-- a concrete instance, and the oracle's verdict on the plain emitter -/
theorem plain_files_rejected : checkProtocol (fsOps .files) = false := by decide

/-- **Sensitivity 1.**  Swap the two renames (`tmp → file` before `file → bk`): the oracle rejects
the list, and concretely, after the first rename the original exists nowhere. -/
theorem swapped_renames_violates :
    let ops := [FsOp.write .tmp, .rename .tmp .file, .rename .file .bk]
    let fs : Fs P Nat := fun | .file => some [1] | _ => none
    checkProtocol ops = false ∧
    ∃ s, Reachable id [2] ops fs s ∧ ¬ Safe [1] [2] s ∧ ∀ p, s p ≠ some [1] := by
  intro ops fs
  refine ⟨by decide, ?_⟩
  have h : run id [2] [FsOp.write .tmp, .rename .tmp .file] fs = some _ := rfl
  refine ⟨_, RF.Lemmas.Backup.reachable_of_run_prefix id [2] _ [.rename .file .bk] fs _ h, ?_, ?_⟩
  · simp [Safe, Fs.set, fs]
  · intro p; cases p <;> simp [Fs.set, fs]

/-- **Sensitivity 2.**  Write the file in place first and back up afterwards: the oracle rejects
the list, and a crash inside the write leaves a partial file and no original. -/
theorem write_file_first_violates :
    let ops := [FsOp.write .file, .rename .file .bk]
    let fs : Fs P Nat := fun | .file => some [1] | _ => none
    checkProtocol ops = false ∧
    ∃ s, Reachable id [2, 3] ops fs s ∧ ¬ Safe [1] [2, 3] s ∧ s .file = some [2] := by
  intro ops fs
  refine ⟨by decide, _, .inside _ _ fs _ (.write .file fs 1 (by simp)), ?_, ?_⟩
  · simp [Safe, Fs.set, fs]
  · simp [Fs.set]

/-- **Sensitivity 3.**  Back up by renaming first and only then write the file in place
(`rename file bk; write file`): the original is always safe in `.bk`, but the oracle still
rejects the list because the file can be seen partial — the second invariant bites on its own. -/
theorem rename_then_write_violates :
    checkProtocol [FsOp.rename .file .bk, .write .file] = false ∧
    protocolViolation [FsOp.rename .file .bk, .write .file] = some ⟨.part, .any, .orig⟩ := by
  decide

/-! ### Non-vacuity -/

/-- the hypotheses of `backup_safe` are met by a real crash state: the process dies after the
first rename; the file is absent and the `.bk` holds the original -/
example :
    let fs : Fs P Nat := fun | .file => some [1] | .tmp => some [9, 9] | .bk => some [7]
    ∃ s, Reachable id [2] (fsOps .filesWithBackup) fs s ∧ s .file = none ∧ s .bk = some [1] := by
  intro fs
  have h : run id [2] [FsOp.write .tmp, .rename .file .bk] fs = some _ := rfl
  refine ⟨_, RF.Lemmas.Backup.reachable_of_run_prefix id [2] _ [.rename .tmp .file] fs _ h, ?_, ?_⟩
  · simp [Fs.set]
  · simp [Fs.set]

/-- `observedOk` is not trivially true: a directory with a half-written file is rejected for the
backup protocol and accepted for the plain one -/
example :
    observedOk (fsOps .filesWithBackup) [1] [2, 3] (some [2]) none none = false ∧
    observedOk (fsOps .files) [1] [2, 3] (some [2]) none none = true ∧
    observedOk (fsOps .filesWithBackup) [1] [2, 3] none (some [2, 3]) (some [1]) = true := by
  decide

/-- the hypotheses of `multi_file_independent` are met by two files with distinct stems
(keys: 0,1,2 = `a.rs`,`a.tmp`,`a.bk`; 3,4,5 = `b.rs`,`b.tmp`,`b.bk`) -/
example :
    let j1 : Job Nat Nat := ⟨fun | .file => 0 | .tmp => 1 | .bk => 2, [1], [10], fsOps .filesWithBackup⟩
    let j2 : Job Nat Nat := ⟨fun | .file => 3 | .tmp => 4 | .bk => 5, [2], [2], []⟩
    (∀ j ∈ [j1, j2], j.ops = fsOps .filesWithBackup ∨ j.ops = []) ∧
    (∀ j ∈ [j1, j2], Function.Injective j.paths) ∧
    [j1, j2].Pairwise (fun a b => ∀ p q, a.paths p ≠ b.paths q) := by
  intro j1 j2
  refine ⟨by simp [j1, j2], ?_, ?_⟩
  · intro j hj
    simp only [List.mem_cons, List.mem_nil_iff, or_false] at hj
    rcases hj with rfl | rfl <;> intro p q <;> cases p <;> cases q <;> simp [j1, j2]
  · simp only [List.pairwise_cons, List.mem_cons, or_false, forall_eq,
      List.not_mem_nil, false_imp_iff, implies_true, List.Pairwise.nil, and_true]
    intro p q; cases p <;> cases q <;> simp [j1, j2]

end RF.Props.C20
