//! C13: exactly the reachable, non-excluded files are formatted, each once.
//!
//! Random module trees are written to disk (every file deliberately unformatted, so "formatted" =
//! "bytes changed"), the real `rustfmt` binary (or, for relative input paths, the public
//! `Session::format(Input::File)` API in a child process: the binary canonicalises its arguments)
//! is run on the root, and what it did is compared with
//!   * `mod.resolvec`  the Lean model of `ModResolver` + `format_project`'s filters (model vs code),
//!   * `mod.oracle`    the Lean specification (rustc's rules) where `mod.hyps` establishes the
//!                     hypotheses of the refinement theorem (oracle on the code's output),
//!   * oracles that need no model: strict decoys never change, a resolution error means exit 1 and
//!     no change, listed = changed, each file listed once, skip / ignore / @generated / skip_children.
//! Known-dirty shapes of the pinned tree are enumerated probes (F13a..F13j).
//! `cfg_if!` / `cfg_match!` calls are sent to the model as written (blocks, other items, nested calls, tokens that
//! are no item, the three classes of skeletons): the model decides what the resolver discovers in them.
use std::collections::{BTreeMap, BTreeSet};
use std::path::{Path, PathBuf};
use std::process::Command;
use std::time::Duration;

use rustfmt_nightly::verif_hooks::cfgif as hcfg;
use rustfmt_nightly::verif_hooks::modules as hm;
use serde_json::{json, Value};

use crate::util::*;

// ------------------------------------------------------------------------------------------ trees

#[derive(Clone, Debug)]
pub enum Attr {
    /// `#[rustfmt::skip]` in one of its spellings
    Skip(u8),
    /// `#[path = ".."]`
    Path(String),
    /// `#[cfg_attr(any(), path = "..")]`
    Cfg(String),
}

/// The `if / else if / else` skeleton of a `cfg_if!` body (arm skeleton of a `cfg_match!` body), `MacShape` of the model;
/// the number picks one of the spellings of that class (see `render_items`).
#[derive(Clone, Copy, Debug, PartialEq)]
pub enum Shape {
    /// well formed for the macro and for `parse_cfg_if` / `parse_cfg_match`
    Chain,
    /// accepted by rustfmt's parser only (`.. else { } else { }`; a `_` arm that is not the last)
    Loose(u8),
    /// rejected by rustfmt's parser: no `if`, no `#[..]`, no `else` between two blocks; no `=>`, expression position
    Broken(u8),
}

#[derive(Clone, Debug)]
pub enum Item {
    Ext { name: String, attrs: Vec<Attr> },
    Inl { name: String, attrs: Vec<Attr>, inner_skip: bool, items: Vec<Item> },
    /// `cfg_if! { if #[cfg(..)] { b0 } else if .. { b1 } else { bn } }`; a block may hold declarations, other items,
    /// further macro calls (dropped by `parse_cfg_if`) and tokens that are no item (the whole call is then given up)
    CfgIf { shape: Shape, branches: Vec<Vec<Item>>, qualified: bool },
    /// `cfg_match! { cfg(..) => { b0 } _ => { bn } }`
    CfgMatch { shape: Shape, branches: Vec<Vec<Item>>, qualified: bool },
    /// an item that is no module (`use`, `struct`, a macro call, ..)
    Other(u8),
    /// tokens `parse_item` rejects with an error (never a token on which it returns `Ok(None)`: F13j)
    Junk(u8),
}

#[derive(Clone, Debug)]
pub struct FileNode {
    pub skip: bool,
    pub generated: bool,
    pub items: Vec<Item>,
}

#[derive(Clone, Debug)]
pub enum Node {
    Dir,
    File(FileNode),
}

pub type Tree = BTreeMap<String, Node>;

/// Every `mod` item of the list, those of all blocks of all macro calls included (whatever the resolver makes of the call:
/// files are created for all of them, so that "is it formatted" is a question for each).
fn flat(items: &[Item]) -> Vec<&Item> {
    let mut out = vec![];
    for it in items {
        match it {
            Item::CfgIf { branches, .. } | Item::CfgMatch { branches, .. } => {
                for b in branches {
                    out.extend(flat(b));
                }
            }
            Item::Other(_) | Item::Junk(_) => {}
            _ => out.push(it),
        }
    }
    out
}

fn has_cfg_attr(items: &[Item]) -> bool {
    flat(items).iter().any(|it| match it {
        Item::Ext { attrs, .. } => attrs.iter().any(|a| matches!(a, Attr::Cfg(_))),
        Item::Inl { items, .. } => has_cfg_attr(items),
        _ => false,
    })
}

fn count_macros(items: &[Item]) -> usize {
    items
        .iter()
        .map(|it| match it {
            Item::CfgIf { branches, .. } | Item::CfgMatch { branches, .. } => 1 + branches.iter().map(|b| count_macros(b)).sum::<usize>(),
            Item::Inl { items, .. } => count_macros(items),
            _ => 0,
        })
        .sum()
}

#[derive(Default)]
struct MacroStats {
    nested_with_mod: bool,
    junk: bool,
    loose: bool,
    broken: bool,
    same_mod_twice: bool,
    inline_in_block: bool,
    attr_in_block: bool,
    three_blocks: bool,
    mod_after_first_block: bool,
}

fn macro_stats(items: &[Item], in_block: bool, ms: &mut MacroStats) {
    for it in items {
        match it {
            Item::CfgIf { shape, branches, .. } | Item::CfgMatch { shape, branches, .. } => {
                if in_block && !flat(std::slice::from_ref(it)).is_empty() {
                    ms.nested_with_mod = true;
                }
                match shape {
                    Shape::Loose(_) => ms.loose = true,
                    Shape::Broken(_) => ms.broken = true,
                    Shape::Chain => {}
                }
                if branches.len() >= 3 {
                    ms.three_blocks = true;
                }
                let names: Vec<Vec<&String>> = branches.iter().map(|b| b.iter().filter_map(|x| if let Item::Ext { name, .. } = x { Some(name) } else { None }).collect()).collect();
                for (i, a) in names.iter().enumerate() {
                    if i > 0 && !a.is_empty() {
                        ms.mod_after_first_block = true;
                    }
                    for b in names.iter().skip(i + 1) {
                        if a.iter().any(|x| b.contains(x)) {
                            ms.same_mod_twice = true;
                        }
                    }
                }
                for b in branches {
                    macro_stats(b, true, ms);
                }
            }
            Item::Inl { items, attrs, .. } => {
                if in_block {
                    ms.inline_in_block = true;
                    if !attrs.is_empty() {
                        ms.attr_in_block = true;
                    }
                }
                macro_stats(items, false, ms);
            }
            Item::Ext { attrs, .. } => {
                if in_block && !attrs.is_empty() {
                    ms.attr_in_block = true;
                }
            }
            Item::Junk(_) => ms.junk = true,
            Item::Other(_) => {}
        }
    }
}

fn inline_depth(items: &[Item]) -> usize {
    flat(items).iter().map(|it| if let Item::Inl { items, .. } = it { 1 + inline_depth(items) } else { 0 }).max().unwrap_or(0)
}

// -------------------------------------------------------------------------------------- encodings

fn enc_comp(c: &str) -> String {
    enc_str(c)
}

/// `Path::components` on a unix path string: repeated separators and inner `.` vanish, a leading `.` stays.
fn components(p: &str) -> Vec<String> {
    let mut v: Vec<String> = vec![];
    if p.starts_with('/') {
        v.push("/".into());
    }
    for (i, c) in p.split('/').filter(|c| !c.is_empty()).enumerate() {
        if c == "." && !(i == 0 && !p.starts_with('/')) {
            continue;
        }
        v.push(c.to_string());
    }
    v
}

fn enc_path(p: &str) -> String {
    let c = components(p);
    if c.is_empty() {
        return "-".into();
    }
    c.iter().map(|c| enc_comp(c)).collect::<Vec<_>>().join("/")
}

fn dec_path(s: &str) -> Option<Vec<String>> {
    if s == "-" {
        return Some(vec![]);
    }
    s.split('/').map(dec_str).collect()
}

fn enc_attr(a: &Attr) -> String {
    match a {
        Attr::Skip(_) => "s".into(),
        Attr::Path(s) => format!("p{}", enc_str(s)),
        Attr::Cfg(s) => format!("c{}", enc_str(s)),
    }
}

fn enc_item(it: &Item, out: &mut Vec<String>) {
    match it {
        Item::Ext { name, attrs } => {
            out.push("e".into());
            out.push(enc_str(name));
            out.push(attrs.len().to_string());
            out.extend(attrs.iter().map(enc_attr));
        }
        Item::Inl { name, attrs, inner_skip, items } => {
            out.push("i".into());
            out.push(enc_str(name));
            out.push((attrs.len() + *inner_skip as usize).to_string());
            out.extend(attrs.iter().map(enc_attr));
            if *inner_skip {
                out.push("s".into());
            }
            out.push(items.len().to_string());
            for x in items {
                enc_item(x, out);
            }
        }
        // macro calls are sent as written: the model decides what is discovered in them
        Item::CfgIf { shape, branches, .. } | Item::CfgMatch { shape, branches, .. } => {
            out.push(if matches!(it, Item::CfgIf { .. }) { "m" } else { "t" }.into());
            out.push(match shape { Shape::Chain => "c", Shape::Loose(_) => "l", Shape::Broken(_) => "b" }.into());
            out.push(branches.len().to_string());
            for b in branches {
                out.push(b.len().to_string());
                for x in b {
                    enc_item(x, out);
                }
            }
        }
        Item::Other(_) => out.push("o".into()),
        Item::Junk(_) => out.push("j".into()),
    }
}

fn enc_items(items: &[Item]) -> String {
    let mut out = vec![items.len().to_string()];
    for x in items {
        enc_item(x, &mut out);
    }
    out.join(",")
}

/// `prefix`: the absolute base directory (keys become absolute) or "" (keys relative to the cwd).
fn enc_fs(tree: &Tree, prefix: &str) -> String {
    if tree.is_empty() {
        return "_".into();
    }
    tree.iter()
        .map(|(k, v)| {
            let p = enc_path(&pjoin(prefix, k));
            match v {
                Node::Dir => format!("{}:d", p),
                Node::File(f) => format!("{}:f{}{}:{}", p, f.skip as u8, f.generated as u8, enc_items(&f.items)),
            }
        })
        .collect::<Vec<_>>()
        .join(";")
}

fn enc_set(mut v: Vec<String>) -> String {
    v.sort();
    v.dedup();
    if v.is_empty() { "_".into() } else { v.join(",") }
}

// -------------------------------------------------------------------------------------- rendering

fn render_attr(a: &Attr) -> String {
    match a {
        Attr::Skip(0) => "#[rustfmt::skip]".into(),
        Attr::Skip(1) => "#[cfg_attr(rustfmt, rustfmt::skip)]".into(),
        Attr::Skip(_) => "#[cfg_attr(any(), rustfmt::skip)]".into(),
        Attr::Path(s) => format!("#[path = \"{}\"]", s),
        Attr::Cfg(s) => format!("#[cfg_attr(any(), path = \"{}\")]", s),
    }
}

const CFGS: [&str; 3] = ["unix", "windows", "feature = \"x\""];

fn render_items(items: &[Item], ind: &str, out: &mut String) {
    let ind2 = format!("{}    ", ind);
    for it in items {
        match it {
            Item::Ext { name, attrs } => {
                for a in attrs {
                    out.push_str(&format!("{}{}\n", ind, render_attr(a)));
                }
                out.push_str(&format!("{}mod {};\n", ind, name));
            }
            Item::Inl { name, attrs, inner_skip, items } => {
                for a in attrs {
                    out.push_str(&format!("{}{}\n", ind, render_attr(a)));
                }
                out.push_str(&format!("{}mod {} {{\n", ind, name));
                if *inner_skip {
                    out.push_str(&format!("{}#![rustfmt::skip]\n", ind2));
                }
                out.push_str(&format!("{}fn  q( ){{}}\n", ind2));
                render_items(items, &ind2, out);
                out.push_str(&format!("{}}}\n", ind));
            }
            Item::CfgIf { shape, branches, qualified } => {
                out.push_str(&format!("{}{}cfg_if! {{\n", ind, if *qualified { "cfg_if::" } else { "" }));
                let n = branches.len();
                for (i, b) in branches.iter().enumerate() {
                    let if_cfg = format!("if #[cfg({})] {{\n", CFGS[i % 3]);
                    let head = if i == 0 {
                        match shape {
                            Shape::Broken(0) => format!("{}#[cfg({})] {{\n", ind2, CFGS[0]),
                            Shape::Broken(1) => format!("{}if cfg({}) {{\n", ind2, CFGS[0]),
                            _ => format!("{}{}", ind2, if_cfg),
                        }
                    } else {
                        match shape {
                            // no `else` between two blocks
                            Shape::Broken(2) => format!(" {}", if_cfg),
                            // every later block is an `else { }`; spelling 1 ends with an `else if` after them
                            Shape::Loose(v) => if *v == 1 && i + 1 == n { format!(" else {}", if_cfg) } else { " else {\n".to_string() },
                            _ => if i + 1 == n { " else {\n".to_string() } else { format!(" else {}", if_cfg) },
                        }
                    };
                    out.push_str(&head);
                    let ind3 = format!("{}    ", ind2);
                    out.push_str(&format!("{}fn  w( ){{}}\n", ind3));
                    render_items(b, &ind3, out);
                    out.push_str(&format!("{}}}", ind2));
                }
                out.push_str(&format!("\n{}}}\n", ind));
            }
            Item::CfgMatch { shape, branches, qualified } => {
                let expr_pos = *shape == Shape::Broken(1);
                out.push_str(&format!("{}{}cfg_match! {{{}\n", ind, if *qualified { "std::" } else { "" }, if expr_pos { "{" } else { "" }));
                let n = branches.len();
                for (i, b) in branches.iter().enumerate() {
                    let arrow = if *shape == Shape::Broken(0) && i == 0 { "" } else { "=> " };
                    // loose: the `_` arm comes first
                    let wildcard = match shape { Shape::Loose(_) => i == 0, _ => i + 1 == n && n > 1 };
                    if wildcard {
                        out.push_str(&format!("{}_ {}{{\n", ind2, arrow));
                    } else {
                        out.push_str(&format!("{}cfg({}) {}{{\n", ind2, CFGS[i % 3], arrow));
                    }
                    let ind3 = format!("{}    ", ind2);
                    render_items(b, &ind3, out);
                    out.push_str(&format!("{}}}\n", ind2));
                }
                out.push_str(&format!("{}{}}}\n", ind, if expr_pos { "}" } else { "" }));
            }
            Item::Other(v) => out.push_str(&format!("{}{}\n", ind, ["use  a :: b;", "struct  S ;", "foo ! ( );", "const  C : u8 = 1 ;"][*v as usize % 4])),
            Item::Junk(v) => out.push_str(&format!("{}{}\n", ind, ["this is junk", "fn ()", "mod ;", "struct"][*v as usize % 4])),
        }
    }
}

pub fn render_file(f: &FileNode) -> String {
    let mut s = String::new();
    if f.skip {
        s.push_str("#![rustfmt::skip]\n");
    }
    if f.generated {
        s.push_str("// @generated\n");
    }
    s.push_str("fn  zz( ){}\n");
    render_items(&f.items, "", &mut s);
    s
}

// ------------------------------------------------------------------------------------------ paths

fn pjoin(d: &str, s: &str) -> String {
    if d.is_empty() {
        s.to_string()
    } else if s.is_empty() {
        d.to_string()
    } else {
        format!("{}/{}", d.trim_end_matches('/'), s)
    }
}

/// Lexical normalisation of a relative path; `None` when it leaves the base directory.
fn norm(p: &str) -> Option<String> {
    let mut st: Vec<&str> = vec![];
    for c in p.split('/') {
        match c {
            "" | "." => {}
            ".." => {
                st.pop()?;
            }
            c => st.push(c),
        }
    }
    Some(st.join("/"))
}

fn dirname(p: &str) -> String {
    match p.rfind('/') {
        Some(i) => p[..i].to_string(),
        None => String::new(),
    }
}

// -------------------------------------------------------------------------------------- generator

const NAMES: [&str; 3] = ["a", "b", "c"];
const EXT_PATHS: [&str; 12] = ["a.rs", "b.rs", "x/a.rs", "../a.rs", "b/mod.rs", "a", "b", "../b", "c.rs", "lib.rs", "./a.rs", "a/../b.rs"];
const INL_PATHS: [&str; 6] = ["a", "b", "x", "../a", "a/b", "."];
const CFG_PATHS: [&str; 5] = ["a.rs", "b.rs", "c.rs", "b/mod.rs", "zz.rs"];
/// names no module declares and no attribute mentions: a file with such a stem can never be reached
const DECOY_NAMES: [&str; 2] = ["dk", "dq"];
const IGNORES: [&str; 5] = ["b.rs", "a", "c.rs", "mod.rs", "x"];

struct Params {
    /// probabilities in percent
    path_p: usize,
    cfg_attr_p: usize,
    macro_p: usize,
    /// a macro call directly in a block of a macro call; tokens that are no item in a block; a skeleton other than the
    /// well-formed chain
    nested_p: usize,
    junk_p: usize,
    shape_p: usize,
    quirk_p: usize,
    missing_p: usize,
    ambiguous_p: usize,
    /// once the tree has this many entries, new files are leaves
    budget: usize,
}

struct Gen<'a> {
    r: &'a mut Rng,
    p: Params,
    tree: Tree,
    faults: Vec<String>,
    /// > 0 while the content of a macro body is generated
    in_macro: usize,
}

impl<'a> Gen<'a> {
    fn pct(&mut self, p: usize) -> bool {
        self.r.chance(p, 100)
    }

    fn rand_attrs(&mut self, inline: bool) -> Vec<Attr> {
        let mut at = vec![];
        if self.pct(8) {
            at.push(Attr::Skip(self.r.below(3) as u8));
        }
        if self.pct(self.p.path_p) {
            let s = if inline { *self.r.pick(&INL_PATHS) } else { *self.r.pick(&EXT_PATHS) };
            at.push(Attr::Path(s.to_string()));
            // a second #[path] is ignored by rustc and by find_path_value alike
            if self.pct(5) {
                at.push(Attr::Path((*self.r.pick(&["c.rs", "b"])).to_string()));
            }
        }
        if !inline && self.pct(self.p.cfg_attr_p) {
            at.push(Attr::Cfg((*self.r.pick(&CFG_PATHS)).to_string()));
            if self.pct(30) {
                at.push(Attr::Cfg((*self.r.pick(&CFG_PATHS[..3])).to_string()));
            }
        }
        // attribute order is free: a skip may come after the path
        if at.len() > 1 && self.pct(30) {
            at.reverse();
        }
        at
    }

    fn rand_decl(&mut self, depth: usize) -> Item {
        if depth > 0 && self.pct(30) {
            let attrs = self.rand_attrs(true);
            let inner_skip = self.pct(3);
            let items = self.rand_items(depth - 1, None);
            Item::Inl { name: (*self.r.pick(&NAMES)).to_string(), attrs, inner_skip, items }
        } else {
            Item::Ext { name: (*self.r.pick(&NAMES)).to_string(), attrs: self.rand_attrs(false) }
        }
    }

    /// A `cfg_if!` / `cfg_match!` call with `take` declarations spread over 1..=3 blocks, plus (by chance) other items,
    /// the same `mod` in a second block, a macro call directly in a block, tokens that are no item, a skeleton the
    /// parser accepts although the macro does not, or one it rejects.
    fn rand_macro(&mut self, depth: usize, take: usize, nest: usize) -> Item {
        self.in_macro += 1;
        let mut nb = self.r.range(1, 3);
        let mut branches: Vec<Vec<Item>> = (0..nb).map(|_| vec![]).collect();
        for _ in 0..take {
            let b = self.r.below(nb);
            let d = self.rand_decl(depth);
            branches[b].push(d);
        }
        // the same `mod x;` in two blocks: both name the same file
        if nb > 1 && self.pct(20) {
            let from = self.r.below(nb);
            if let Some(d) = branches[from].iter().find(|d| matches!(d, Item::Ext { .. })).cloned() {
                let to = (from + 1 + self.r.below(nb - 1)) % nb;
                branches[to].push(d);
            }
        }
        for b in 0..nb {
            if self.pct(25) {
                let v = self.r.below(4) as u8;
                let at = self.r.below(branches[b].len() + 1);
                branches[b].insert(at, Item::Other(v));
            }
            // a macro call directly in a block (dropped by the parser with everything in it)
            if nest > 0 && self.pct(self.p.nested_p) {
                let t = self.r.range(1, 2);
                let m = self.rand_macro(depth, t, nest - 1);
                let at = self.r.below(branches[b].len() + 1);
                branches[b].insert(at, m);
            }
            if self.pct(self.p.junk_p) {
                let v = self.r.below(4) as u8;
                let at = self.r.below(branches[b].len() + 1);
                branches[b].insert(at, Item::Junk(v));
            }
        }
        let is_if = self.pct(70);
        let shape = if self.pct(self.p.shape_p) {
            if self.pct(40) {
                // needs: cfg_if three blocks (`if`, `else`, one more), cfg_match two arms (`_` first)
                while nb < if is_if { 3 } else { 2 } {
                    branches.push(vec![]);
                    nb += 1;
                }
                Shape::Loose(self.r.below(2) as u8)
            } else {
                let v = self.r.below(if is_if { 3 } else { 2 }) as u8;
                if is_if && v == 2 && nb < 2 {
                    branches.push(vec![]);
                }
                Shape::Broken(v)
            }
        } else {
            Shape::Chain
        };
        self.in_macro -= 1;
        let qualified = self.pct(50);
        if is_if { Item::CfgIf { shape, branches, qualified } } else { Item::CfgMatch { shape, branches, qualified } }
    }

    fn rand_items(&mut self, depth: usize, n: Option<usize>) -> Vec<Item> {
        let n = n.unwrap_or_else(|| if depth >= 2 { *self.r.pick(&[0usize, 1, 1, 2, 2, 3]) } else { *self.r.pick(&[0usize, 1, 1, 2]) });
        let mut ds = vec![];
        let mut k = 0;
        while k < n {
            if self.pct(self.p.macro_p) {
                // a macro group takes 1..=3 of the remaining declarations
                let take = self.r.range(1, 3).min(n - k);
                k += take;
                let m = self.rand_macro(depth, take, 2);
                ds.push(m);
            } else {
                ds.push(self.rand_decl(depth));
                k += 1;
            }
        }
        // inside a macro body an inline module may hold tokens that are no item (the module then does not parse)
        if self.in_macro > 0 && !ds.is_empty() && self.pct(self.p.junk_p / 2) {
            let v = self.r.below(4) as u8;
            ds.push(Item::Junk(v));
        }
        ds
    }

    /// Creates files for the declarations `items` of a file whose module directory is `d` and whose
    /// relative offset is `rel` (None: mod.rs-like).
    fn gen_items(&mut self, items: &[Item], d: &str, rel: Option<&str>, depth: isize) {
        let items: Vec<Item> = flat(items).into_iter().cloned().collect();
        for it in &items {
            match it {
                Item::Ext { name, attrs } => {
                    if self.pct(self.p.missing_p) {
                        self.faults.push(format!("missing:{}", name));
                        continue;
                    }
                    let pa = attrs.iter().find_map(|a| if let Attr::Path(s) = a { Some(s.clone()) } else { None });
                    if let Some(pa) = pa {
                        let t = match norm(&pjoin(d, &pa)) {
                            Some(t) if t.ends_with(".rs") => t,
                            _ => continue,
                        };
                        if self.tree.contains_key(&t) {
                            self.faults.push("two-routes-to-one-file".into());
                        }
                        if !self.tree.contains_key(&t) && !self.blocked(&t) {
                            let dd = dirname(&t);
                            self.gen_file(&t, &dd, None, depth - 1);
                        }
                    } else {
                        let base = match rel {
                            Some(r) if self.pct(85) => pjoin(d, r),
                            _ => d.to_string(),
                        };
                        let c1 = pjoin(&base, &format!("{}.rs", name));
                        let c2 = pjoin(&base, &format!("{}/mod.rs", name));
                        let (h1, h2) = (self.tree.contains_key(&c1), self.tree.contains_key(&c2));
                        if h1 || h2 {
                            self.faults.push("two-routes-to-one-file".into());
                            if self.pct(self.p.ambiguous_p) && !(h1 && h2) {
                                let other = if h1 { c2 } else { c1 };
                                if !self.blocked(&other) {
                                    self.faults.push(format!("ambiguous:{}", other));
                                    self.tree.insert(other, Node::File(FileNode { skip: false, generated: false, items: vec![] }));
                                }
                            }
                            continue;
                        }
                        if self.pct(60) {
                            if !self.blocked(&c1) {
                                self.gen_file(&c1, &base, Some(name.as_str()), depth - 1);
                            }
                        } else if !self.blocked(&c2) {
                            let dd = pjoin(&base, name);
                            self.gen_file(&c2, &dd, None, depth - 1);
                        }
                    }
                }
                Item::Inl { name, attrs, items, .. } => {
                    let pa = attrs.iter().find_map(|a| if let Attr::Path(s) = a { Some(s.clone()) } else { None });
                    if let Some(pa) = pa {
                        if let Some(nd) = norm(&pjoin(d, &pa)) {
                            self.gen_items(items, &nd, None, depth);
                        }
                    } else {
                        let mut nd = match rel {
                            Some(r) => pjoin(&pjoin(d, r), name),
                            None => pjoin(d, name),
                        };
                        if let Some(r) = rel {
                            if self.pct(self.p.quirk_p) {
                                // the location push_inline_mod_directory's exists() probe falls back to
                                nd = pjoin(d, r);
                                self.faults.push("children-at-the-exists-probe-location".into());
                            }
                        }
                        self.gen_items(items, &nd, None, depth);
                    }
                }
                _ => unreachable!(),
            }
        }
    }

    /// a new file at `t` would need a directory where a file is, or sit where a directory is
    fn blocked(&self, t: &str) -> bool {
        if matches!(self.tree.get(t), Some(Node::Dir)) {
            return true;
        }
        let mut p = dirname(t);
        while !p.is_empty() {
            if matches!(self.tree.get(&p), Some(Node::File(_))) {
                return true;
            }
            p = dirname(&p);
        }
        let pre = format!("{}/", t);
        self.tree.keys().any(|k| k.starts_with(&pre))
    }

    fn gen_file(&mut self, path: &str, d: &str, rel: Option<&str>, depth: isize) {
        let ds = self.rand_items(2, if depth > 0 && self.tree.len() < self.p.budget { None } else { Some(0) });
        let f = FileNode { skip: self.pct(6), generated: self.pct(6), items: ds.clone() };
        self.tree.insert(path.to_string(), Node::File(f));
        self.gen_items(&ds, d, rel, depth);
    }
}

#[derive(Clone, Copy, Debug, PartialEq)]
pub enum Mode {
    /// the binary, root given as an absolute path, cwd elsewhere
    BinAbs,
    /// the binary, root given relative to the cwd (it canonicalises its argument: keys are absolute again)
    BinRel,
    /// `Session::format(Input::File(relative path))` in a child process: keys stay relative
    ApiRel,
}

#[derive(Clone, Debug)]
pub struct CaseSpec {
    pub id: usize,
    pub tree: Tree,
    /// path of the root relative to the base directory
    pub root: String,
    pub sc: bool,
    pub fg: bool,
    pub ignore: Vec<String>,
    /// directory (relative to base) of the rustfmt.toml that carries `ignore`
    pub toml_dir: String,
    pub mode: Mode,
    pub strict_decoys: Vec<String>,
    pub faults: Vec<String>,
    /// spellings (relative to base, with `.`/`..`/missing components) whose `stat` is compared with the model's
    pub stat_spellings: Vec<String>,
    /// (directory relative to base, module name, relative offset) triples for `default_submod_path`
    pub dsp_triples: Vec<(String, String, Option<String>)>,
}

fn gen_case(id: usize, r: &mut Rng) -> CaseSpec {
    let p = Params {
        path_p: *r.pick(&[0usize, 12, 12, 30]),
        cfg_attr_p: *r.pick(&[0usize, 0, 0, 0, 15]),
        macro_p: *r.pick(&[0usize, 10, 25, 40]),
        nested_p: *r.pick(&[0usize, 0, 15]),
        junk_p: *r.pick(&[0usize, 0, 8]),
        shape_p: *r.pick(&[0usize, 0, 15]),
        quirk_p: *r.pick(&[0usize, 0, 15]),
        missing_p: *r.pick(&[0usize, 0, 0, 6]),
        ambiguous_p: *r.pick(&[0usize, 0, 0, 15]),
        budget: *r.pick(&[3usize, 5, 8, 12]),
    };
    let mut g = Gen { r, p, tree: Tree::new(), faults: vec![], in_macro: 0 };
    let crate_dir = (*g.r.pick(&["", "", "src", "p/q"])).to_string();
    let rootname = *g.r.pick(&["lib.rs", "lib.rs", "lib.rs", "main.rs", "main.rs", "a.rs", "mod.rs"]);
    let stem = &rootname[..rootname.len() - 3];
    let root = pjoin(&crate_dir, rootname);
    let owns_dir = g.pct(40);
    if owns_dir {
        g.tree.insert(pjoin(&crate_dir, stem), Node::Dir);
        g.faults.push("root-x.rs-next-to-x/".into());
    }
    let n = g.r.range(1, 3);
    let ds = g.rand_items(2, Some(n));
    let f = FileNode { skip: g.pct(5), generated: g.pct(5), items: ds.clone() };
    g.tree.insert(root.clone(), Node::File(f));
    g.gen_items(&ds, &crate_dir, if owns_dir { Some(stem) } else { None }, 3);
    // soft decoys: names from the module pool at places nobody may look (the model decides)
    for _ in 0..g.r.below(4) {
        let dirs: Vec<String> = std::iter::once(crate_dir.clone()).chain(g.tree.iter().filter(|(_, v)| matches!(v, Node::File(_))).map(|(k, _)| dirname(k))).collect();
        let dd = g.r.pick(&dirs).clone();
        let nm = *g.r.pick(&NAMES);
        let (k, twin) = if g.pct(50) { (pjoin(&dd, &format!("{}.rs", nm)), pjoin(&dd, &format!("{}/mod.rs", nm))) } else { (pjoin(&dd, &format!("{}/mod.rs", nm)), pjoin(&dd, &format!("{}.rs", nm))) };
        // a decoy next to its twin makes every `mod` that finds the twin ambiguous: rarely
        let twin_ok = !g.tree.contains_key(&twin) || g.pct(10);
        if twin_ok && !g.tree.contains_key(&k) && !g.blocked(&k) {
            let n = g.r.below(2);
            let items = g.rand_items(1, Some(n));
            g.tree.insert(k, Node::File(FileNode { skip: false, generated: false, items }));
        }
    }
    // empty directories with module names (`a/../b.rs` needs `a/`; `#[path = "a"] mod m;` then hits a directory)
    for _ in 0..g.r.below(2) {
        let k = pjoin(&crate_dir, *g.r.pick(&["a", "b", "x"]));
        if !g.tree.contains_key(&k) && !g.blocked(&k) && !g.tree.keys().any(|x| x.starts_with(&format!("{}/", k))) {
            g.tree.insert(k, Node::Dir);
        }
    }
    // strict decoys: at least one per tree
    let mut strict = vec![];
    for _ in 0..g.r.range(1, 2) {
        let dirs: Vec<String> = std::iter::once(crate_dir.clone()).chain(g.tree.iter().filter(|(_, v)| matches!(v, Node::File(_))).map(|(k, _)| dirname(k))).collect();
        let dd = g.r.pick(&dirs).clone();
        let k = pjoin(&dd, &format!("{}{}", g.r.pick(&DECOY_NAMES), g.r.pick(&[".rs", "/mod.rs"])));
        if !g.tree.contains_key(&k) && !g.blocked(&k) {
            g.tree.insert(k.clone(), Node::File(FileNode { skip: false, generated: false, items: vec![] }));
            strict.push(k);
        }
    }
    // explicit directory entries only for empty directories
    let dirs: Vec<String> = g.tree.iter().filter(|(_, v)| matches!(v, Node::Dir)).map(|(k, _)| k.clone()).collect();
    for k in dirs {
        if g.tree.keys().any(|x| x.starts_with(&format!("{}/", k))) {
            g.tree.remove(&k);
        }
    }
    let sc = g.pct(10);
    let fg = g.pct(50);
    let mut ignore = vec![];
    if g.pct(25) {
        ignore.push((*g.r.pick(&IGNORES)).to_string());
        if g.pct(20) {
            ignore.push((*g.r.pick(&IGNORES)).to_string());
        }
    }
    let toml_dir = if g.pct(50) { crate_dir.clone() } else { String::new() };
    let mode = *g.r.pick(&[Mode::BinAbs, Mode::BinAbs, Mode::BinRel, Mode::BinRel, Mode::ApiRel]);
    let faults = g.faults.clone();
    let mut stat_spellings = vec![];
    for _ in 0..2 {
        let keys: Vec<&String> = g.tree.keys().collect();
        let k = (*g.r.pick(&keys)).clone();
        let mut comps: Vec<String> = k.split('/').map(|s| s.to_string()).collect();
        let pos = g.r.below(comps.len() + 1);
        let ins = (*g.r.pick(&["..", "a", "x", "b.rs"])).to_string();
        comps.insert(pos, ins);
        if g.r.chance(1, 2) {
            comps.push("..".into());
        }
        stat_spellings.push(comps.join("/"));
    }
    let mut dsp_triples = vec![];
    for _ in 0..2 {
        let mut dirs: Vec<String> = g.tree.keys().map(|k| dirname(k)).collect();
        dirs.push(crate_dir.clone());
        dirs.push("nowhere".into());
        let d = g.r.pick(&dirs).clone();
        let name = (*g.r.pick(&NAMES)).to_string();
        let rel = if g.pct(50) { Some((*g.r.pick(&["a", "b", "lib", "x"])).to_string()) } else { None };
        dsp_triples.push((d, name, rel));
    }
    let tree = g.tree;
    CaseSpec { id, tree, root, sc, fg, ignore, toml_dir, mode, strict_decoys: strict, faults, stat_spellings, dsp_triples }
}

// ---------------------------------------------------------------------------------------- running

#[derive(Clone, Debug, Default)]
pub struct RunOut {
    /// `err:<class>` when a "failed to resolve mod" message was printed
    pub err: Option<String>,
    pub code: Option<i32>,
    pub timed_out: bool,
    /// the paths of the "Formatting …" lines, as printed
    pub listed: Vec<String>,
    /// files (relative to base) whose bytes changed
    pub changed: Vec<String>,
    /// files that appeared
    pub created: Vec<String>,
    /// `--emit json` pre-pass (binary modes): names listed, and files it changed (must be none)
    pub json_names: Option<Vec<String>>,
    pub json_changed: Vec<String>,
    pub stderr: String,
    /// `stat` of the case's probe spellings (relative to base), taken from the OS while the tree was on disk
    pub stats: Vec<(String, &'static str)>,
    /// in-process hooks on the tree on disk (absolute modes): `ModResolver::visit_crate` key set (no filters),
    /// `Input::to_directory_ownership`, `ParseSess::default_submod_path` on the case's probe triples
    pub hook_filemap: Option<String>,
    pub hook_own: Option<String>,
    pub hook_dsp: Vec<((String, String, Option<String>), String)>,
}

fn rustfmt_bin() -> PathBuf {
    if let Some(p) = std::env::var_os("RUSTFMT_BIN") {
        return PathBuf::from(p);
    }
    let exe = std::env::current_exe().unwrap();
    // <verif>/.build/target/debug/rfverif -> <verif>/.build/repo-target/debug/rustfmt
    exe.parent().unwrap().parent().unwrap().parent().unwrap().join("repo-target/debug/rustfmt")
}

fn snapshot(base: &Path) -> BTreeMap<String, Vec<u8>> {
    fn walk(base: &Path, d: &Path, out: &mut BTreeMap<String, Vec<u8>>) {
        if let Ok(rd) = std::fs::read_dir(d) {
            for e in rd.flatten() {
                let p = e.path();
                if p.is_dir() {
                    walk(base, &p, out);
                } else if let Ok(b) = std::fs::read(&p) {
                    out.insert(p.strip_prefix(base).unwrap().to_string_lossy().into_owned(), b);
                }
            }
        }
    }
    let mut m = BTreeMap::new();
    walk(base, base, &mut m);
    m
}

fn diff_snap(a: &BTreeMap<String, Vec<u8>>, b: &BTreeMap<String, Vec<u8>>) -> (Vec<String>, Vec<String>) {
    let mut changed = vec![];
    let mut created = vec![];
    for (k, v) in b {
        match a.get(k) {
            Some(o) if o != v => changed.push(k.clone()),
            None => created.push(k.clone()),
            _ => {}
        }
    }
    for k in a.keys() {
        if !b.contains_key(k) {
            changed.push(format!("{} (deleted)", k));
        }
    }
    (changed, created)
}

pub fn materialise(base: &Path, tree: &Tree) {
    for (k, v) in tree {
        let full = base.join(k);
        match v {
            Node::Dir => {
                std::fs::create_dir_all(&full).ok();
            }
            Node::File(f) => {
                if let Some(p) = full.parent() {
                    std::fs::create_dir_all(p).ok();
                }
                std::fs::write(&full, render_file(f)).expect("write tree file");
            }
        }
    }
}

/// `owned:<name>` of the hooks in the driver's encoding (`owned:<hex>`)
fn own_enc(o: &str) -> String {
    match o.strip_prefix("owned:") {
        Some("-") => "owned:-".into(),
        Some(n) => format!("owned:{}", enc_str(n)),
        None => o.to_string(),
    }
}

fn classify_err(stderr: &str) -> Option<String> {
    if !stderr.contains("failed to resolve mod") {
        return None;
    }
    Some(
        if stderr.contains("does not exist") {
            "err:missing"
        } else if stderr.contains("found at both") {
            "err:ambiguous"
        } else if stderr.contains("cannot parse") {
            "err:parse"
        } else {
            "err:?"
        }
        .to_string(),
    )
}

fn listed_of(stdout: &[u8]) -> Vec<String> {
    String::from_utf8_lossy(stdout).lines().filter_map(|l| l.strip_prefix("Formatting ").map(|s| s.to_string())).collect()
}

/// Writes the tree under `base`, runs the implementation, records what changed. `base` is removed afterwards.
pub fn run_case(c: &CaseSpec, base: &Path, keep: bool) -> RunOut {
    let _ = std::fs::remove_dir_all(base);
    std::fs::create_dir_all(base).expect("create case dir");
    materialise(base, &c.tree);
    // a rustfmt.toml in the base directory always: no configuration from outside the tree is picked up
    std::fs::write(base.join("rustfmt.toml"), "").ok();
    if !c.ignore.is_empty() {
        let body = format!("ignore = [{}]\n", c.ignore.iter().map(|s| format!("\"{}\"", s)).collect::<Vec<_>>().join(", "));
        std::fs::write(base.join(&c.toml_dir).join("rustfmt.toml"), body).ok();
    }
    let before = snapshot(base);
    let mut stats = vec![];
    for sp in &c.stat_spellings {
        let st = match std::fs::metadata(base.join(sp)) {
            Ok(m) if m.is_dir() => "dir",
            Ok(_) => "file",
            Err(_) => "none",
        };
        stats.push((sp.clone(), st));
    }
    let cfg = format!("skip_children={},format_generated_files={}", c.sc, c.fg);
    let timeout = Duration::from_secs(30);
    let mut ro = RunOut::default();
    ro.stats = stats;
    let lib = toolchain_lib();
    let res = match c.mode {
        Mode::BinAbs | Mode::BinRel => {
            let mk = |emit_json: bool| {
                let mut cmd = Command::new(rustfmt_bin());
                cmd.env("LD_LIBRARY_PATH", &lib);
                if emit_json {
                    cmd.arg("--emit").arg("json");
                } else {
                    cmd.arg("-v");
                }
                cmd.arg("--config").arg(&cfg);
                if c.mode == Mode::BinAbs {
                    cmd.current_dir(base.parent().unwrap()).arg(base.join(&c.root));
                } else {
                    cmd.current_dir(base).arg(&c.root);
                }
                cmd
            };
            // pre-pass: --emit json writes nothing and names every file with a difference
            let j = run_cmd(&mut mk(true), b"", timeout);
            if !j.timed_out {
                let after_json = snapshot(base);
                let (ch, cr) = diff_snap(&before, &after_json);
                ro.json_changed = ch.into_iter().chain(cr).collect();
                if let Ok(Value::Array(a)) = serde_json::from_slice::<Value>(&j.stdout) {
                    ro.json_names = Some(a.iter().filter_map(|e| e.get("name").and_then(|n| n.as_str()).map(|s| s.to_string())).collect());
                }
            }
            // the in-process hooks run the same resolver as the binary: only after the binary survived the tree
            // (a resolver that recurses without bound must kill a child process, not the harness)
            if j.code.is_some() && !j.timed_out {
                let rootp = base.join(&c.root);
                let sc = c.sc;
                let fm = std::panic::catch_unwind(|| hm::file_map_keys(&rootp, !sc));
                ro.hook_filemap = Some(match fm {
                    Ok(Ok(keys)) => enc_set(keys.iter().map(|k| enc_path(k)).collect()),
                    Ok(Err(e)) if e == "root" => "err:root".into(),
                    Ok(Err(e)) => classify_err(&e).unwrap_or_else(|| format!("err:?{}", e)),
                    Err(_) => "panic".into(),
                });
                ro.hook_own = Some(hm::to_directory_ownership(&rootp));
                for (d, name, rel) in &c.dsp_triples {
                    let dir = base.join(d);
                    let ans = match std::panic::catch_unwind(|| hm::default_submod_path(&dir, name, rel.as_deref())) {
                        Ok(Ok((p, own))) => format!("{}:{}", enc_path(&p.to_string_lossy()), own_enc(&own)),
                        Ok(Err(e)) => format!("err:{}", e),
                        Err(_) => "panic".into(),
                    };
                    ro.hook_dsp.push(((d.clone(), name.clone(), rel.clone()), ans));
                }
            }
            if j.code.is_none() {
                // killed by a signal (or timed out) already in the pre-pass: that is the result
                j
            } else {
                run_cmd(&mut mk(false), b"", timeout)
            }
        }
        Mode::ApiRel => {
            let mut cmd = Command::new(std::env::current_exe().unwrap());
            cmd.env("LD_LIBRARY_PATH", &lib).current_dir(base).arg("c13api").arg(&c.root).arg((c.sc as u8).to_string()).arg((c.fg as u8).to_string());
            run_cmd(&mut cmd, b"", timeout)
        }
    };
    let after = snapshot(base);
    let (changed, created) = diff_snap(&before, &after);
    ro.changed = changed;
    ro.created = created;
    ro.code = res.code;
    ro.timed_out = res.timed_out;
    ro.err = classify_err(&res.stderr);
    ro.listed = listed_of(&res.stdout);
    ro.stderr = res.stderr.chars().take(600).collect();
    // canonical form of what was listed (needs the tree on disk)
    ro.listed.sort();
    if !keep {
        let _ = std::fs::remove_dir_all(base);
    }
    ro
}

/// The file (relative to base) a listed spelling denotes; resolved lexically against the generated tree, which has
/// no symbolic links (a `..` after a missing directory cannot occur in a key of the map: the file was read).
fn canon_listed(spelled: &str, base: &str, relative_mode: bool) -> Option<String> {
    let full = if relative_mode { pjoin(base, spelled) } else { spelled.to_string() };
    let b = format!("{}/", base.trim_end_matches('/'));
    // normalise the absolute path lexically, then strip the base
    let mut st: Vec<&str> = vec![];
    for c in full.split('/') {
        match c {
            "" | "." => {}
            ".." => {
                st.pop();
            }
            c => st.push(c),
        }
    }
    let abs = format!("/{}", st.join("/"));
    abs.strip_prefix(&b).map(|s| s.to_string())
}

/// The child process for `Mode::ApiRel`: `rfverif c13api <root> <skip_children 0|1> <format_generated 0|1>`,
/// run with the case's base directory as cwd. Mirrors `format()` / `format_and_emit_report` of src/bin/main.rs
/// minus the canonicalisation of the argument.
pub fn api_main(args: &[String]) -> i32 {
    use rustfmt_nightly::{load_config, CliOptions, Config, Edition, Input, Session, StyleEdition, Verbosity, Version};
    struct Opts {
        sc: bool,
        fg: bool,
    }
    impl CliOptions for Opts {
        fn apply_to(self, config: &mut Config) {
            config.set().skip_children(self.sc);
            config.set().format_generated_files(self.fg);
            config.set().verbose(Verbosity::Verbose);
        }
        fn config_path(&self) -> Option<&Path> {
            None
        }
        fn edition(&self) -> Option<Edition> {
            None
        }
        fn style_edition(&self) -> Option<StyleEdition> {
            None
        }
        fn version(&self) -> Option<Version> {
            None
        }
    }
    if args.len() < 3 {
        return 2;
    }
    let root = PathBuf::from(&args[0]);
    let opts = Opts { sc: args[1] == "1", fg: args[2] == "1" };
    let (config, _) = match load_config(Some(root.parent().unwrap_or(Path::new(""))), Some(opts)) {
        Ok(x) => x,
        Err(e) => {
            eprintln!("config: {}", e);
            return 2;
        }
    };
    let mut out = std::io::stdout();
    let mut session = Session::new(config, Some(&mut out));
    let mut code = 0;
    match session.format(Input::File(root)) {
        Ok(report) => {
            if report.has_warnings() {
                eprintln!("{}", rustfmt_nightly::FormatReportFormatterBuilder::new(&report).build());
            }
        }
        Err(msg) => {
            eprintln!("Error writing files: {msg}");
            code = 1;
        }
    }
    if session.has_operational_errors() || session.has_parsing_errors() {
        code = 1;
    }
    code
}

// ---------------------------------------------------------------------------------- the main loop

fn ignored_by(patterns: &[String], comps: &[String]) -> bool {
    // unanchored single-component gitignore patterns, `matched_path_or_any_parents`: the path or any of its
    // parents has the pattern as its last component
    comps.iter().any(|c| patterns.iter().any(|p| p == c))
}

struct Prepared {
    spec: CaseSpec,
    base: PathBuf,
    /// "" (ApiRel) or the absolute base directory
    prefix: String,
    fs: String,
    root_enc: String,
    hyps: String,
    ign: String,
    model: String,
    spec_ans: String,
}

fn describe(c: &CaseSpec) -> Value {
    let files: BTreeMap<String, Value> = c
        .tree
        .iter()
        .map(|(k, v)| {
            (
                k.clone(),
                match v {
                    Node::Dir => json!("<dir>"),
                    Node::File(f) => json!(render_file(f)),
                },
            )
        })
        .collect();
    json!({"root": c.root, "mode": format!("{:?}", c.mode), "skip_children": c.sc, "format_generated_files": c.fg, "ignore": c.ignore, "rustfmt_toml_dir": c.toml_dir, "files": files})
}

fn dec_set(s: &str, prefix: &str) -> String {
    if s == "_" || s.starts_with("err") || s.starts_with('!') {
        return s.to_string();
    }
    let pre = format!("{}/", prefix);
    s.split(',')
        .map(|p| {
            let c = dec_path(p).unwrap_or_default();
            let mut t = c.join("/");
            if t.starts_with("//") {
                t = t[1..].to_string();
            }
            if !prefix.is_empty() { t.strip_prefix(&pre).map(|x| x.to_string()).unwrap_or(t) } else { t }
        })
        .collect::<Vec<_>>()
        .join(" ")
}

pub fn run(tier: &str, seed: u64, out: &Path) -> i32 {
    let mut o = Outcome::new("C13", tier, seed);
    let thorough = tier == "thorough";
    let mut rng = Rng::new(seed ^ 0xc13);
    let ncases: usize = std::env::var("C13_CASES").ok().and_then(|s| s.parse().ok()).unwrap_or(if thorough { 30000 } else { 4000 });
    let work = out.parent().unwrap_or(Path::new("work")).join("c13");
    let _ = std::fs::remove_dir_all(&work);
    std::fs::create_dir_all(&work).expect("work dir");
    let work = std::fs::canonicalize(&work).expect("canonical work dir");
    if !rustfmt_bin().exists() {
        o.direct_failures.push(json!({"sig": "c13:no-binary", "what": format!("rustfmt binary not found at {:?}", rustfmt_bin())}));
        return o.finish(out, jobs());
    }

    let pwork = work.parent().unwrap().join("c13p");
    let _ = std::fs::remove_dir_all(&pwork);
    std::fs::create_dir_all(&pwork).expect("probe dir");
    let probe_thread = {
        let pwork = pwork.clone();
        std::thread::spawn(move || probes(&pwork))
    };

    // 1. trees
    let mut prepared: Vec<Prepared> = (0..ncases)
        .map(|id| {
            let mut r = rng.fork();
            let spec = gen_case(id, &mut r);
            let base = work.join(id.to_string()).join("w");
            let prefix = if spec.mode == Mode::ApiRel { String::new() } else { base.to_string_lossy().into_owned() };
            let fs = enc_fs(&spec.tree, &prefix);
            let root_enc = enc_path(&pjoin(&prefix, &spec.root));
            Prepared { spec, base, prefix, fs, root_enc, hyps: String::new(), ign: "_".into(), model: String::new(), spec_ans: String::new() }
        })
        .collect();

    // 2. helper queries: hypotheses of the refinement theorem, and the key set (the `ignore` predicate is an input of
    //    the model: it is evaluated here on the spellings the map has)
    let mut reqs = vec![];
    for p in &prepared {
        reqs.push(format!("mod.hyps {} {}", p.fs, p.root_enc));
        reqs.push(format!("mod.filemap {} {} {}", p.fs, p.root_enc, (!p.spec.sc) as u8));
    }
    if std::env::var("C13_DUMP").is_ok() {
        std::fs::write(out.join("helper_requests.txt"), reqs.join("\n")).ok();
    }
    let t0 = std::time::Instant::now();
    let ans = run_model(&reqs, jobs());
    eprintln!("c13: {} trees; hyps+filemap {:?}", prepared.len(), t0.elapsed());
    for (i, p) in prepared.iter_mut().enumerate() {
        p.hyps = ans[2 * i].clone();
        let fm = &ans[2 * i + 1];
        let mut keys: Vec<String> = if fm.starts_with("err") || fm == "_" || fm.starts_with('!') { vec![] } else { fm.split(',').map(|s| s.to_string()).collect() };
        keys.push(p.root_enc.clone());
        let ign: Vec<String> = keys.into_iter().filter(|k| dec_path(k).map(|c| ignored_by(&p.spec.ignore, &c)).unwrap_or(false)).collect();
        p.ign = enc_set(ign);
    }
    let mut reqs = vec![];
    for p in &prepared {
        let tail = format!("{} {} {} {} {}", p.fs, p.root_enc, p.spec.sc as u8, p.spec.fg as u8, p.ign);
        reqs.push(format!("mod.resolvec {}", tail));
        reqs.push(format!("mod.specc {}", tail));
    }
    let ans = run_model(&reqs, jobs());
    eprintln!("c13: +resolvec/specc {:?}", t0.elapsed());
    for (i, p) in prepared.iter_mut().enumerate() {
        p.model = ans[2 * i].clone();
        p.spec_ans = ans[2 * i + 1].clone();
    }

    // 3. the implementation (not on trees where the model predicts non-termination: the `..`-spelled cycle, F13d)
    let keep = std::env::var("C13_KEEP").is_ok();
    let runs: Vec<Option<RunOut>> = par_map(&prepared, |p| if p.model == "err:fuel" { None } else { Some(run_case(&p.spec, &p.base, keep)) });
    eprintln!("c13: +implementation runs {:?}", t0.elapsed());
    if !keep {
        let _ = std::fs::remove_dir_all(&work);
    }

    // 4. comparisons
    let mut direct = 0u64;
    let fail = |o: &mut Outcome, sig: &str, what: String, p: &Prepared, r: &RunOut| {
        o.direct_failures.push(json!({"sig": sig, "what": what, "case": describe(&p.spec), "listed": r.listed, "changed": r.changed, "exit": r.code, "stderr": r.stderr,
            "model": dec_set(&p.model, &p.prefix), "spec": dec_set(&p.spec_ans, &p.prefix), "hyps": p.hyps}));
    };
    for (p, r) in prepared.iter().zip(runs.iter()) {
        let c = &p.spec;
        o.count(&format!("mode:{:?}", c.mode));
        o.count(&format!("files:{}", match c.tree.values().filter(|v| matches!(v, Node::File(_))).count() { 0..=3 => "1-3", 4..=6 => "4-6", 7..=10 => "7-10", _ => "11+" }));
        let depth = c.tree.keys().map(|k| k.matches('/').count()).max().unwrap_or(0);
        o.count(&format!("dir-depth:{}", depth.min(5)));
        let all_items: Vec<&FileNode> = c.tree.values().filter_map(|v| if let Node::File(f) = v { Some(f) } else { None }).collect();
        if all_items.iter().any(|f| count_macros(&f.items) > 0) {
            o.count("has:cfg_if/cfg_match");
        }
        if all_items.iter().any(|f| has_cfg_attr(&f.items)) {
            o.count("has:cfg_attr(path)");
        }
        match all_items.iter().map(|f| inline_depth(&f.items)).max().unwrap_or(0) {
            0 => {}
            d => o.count(&format!("inline-nesting:{}", d)),
        }
        if c.sc {
            o.count("cfg:skip_children");
        }
        if !c.ignore.is_empty() {
            o.count(if p.ign == "_" { "cfg:ignore(no key matches)" } else { "cfg:ignore(matches a key)" });
        }
        if !c.fg {
            o.count("cfg:format_generated_files=false");
        }
        let shapes: BTreeSet<&str> = c.faults.iter().map(|f| f.split(':').next().unwrap()).collect();
        for f in shapes {
            o.count(&format!("shape:{}", f));
        }
        let mut ms = MacroStats::default();
        for f in &all_items {
            macro_stats(&f.items, false, &mut ms);
        }
        for (on, what) in [
            (ms.nested_with_mod, "macro:mod-in-a-call-directly-in-a-block(never resolved, F13h shape)"),
            (ms.junk, "macro:block-with-tokens-that-are-no-item(call given up, F13i shape)"),
            (ms.loose, "macro:skeleton-only-rustfmt-accepts"),
            (ms.broken, "macro:skeleton-rejected"),
            (ms.same_mod_twice, "macro:same-mod-in-two-blocks"),
            (ms.inline_in_block, "macro:inline-module-in-a-block"),
            (ms.attr_in_block, "macro:#[path]-or-skip-on-a-mod-in-a-block"),
            (ms.three_blocks, "macro:three-or-more-blocks"),
            (ms.mod_after_first_block, "macro:mod-in-a-later-block"),
        ] {
            if on {
                o.count(what);
            }
        }
        if all_items.iter().any(|f| f.skip) {
            o.count("shape:file-with-#![rustfmt::skip]");
        }
        if all_items.iter().any(|f| f.generated) {
            o.count("shape:file-with-@generated");
        }
        let hyps_ok = p.hyps == "plain:1,closed:1,unique:1,probe:1,macros:1";
        o.count(if hyps_ok { "hyps:all" } else { "hyps:not-established" });
        if !hyps_ok {
            for part in p.hyps.split(',') {
                if part.ends_with(":0") {
                    o.count(&format!("hyps:{}", part));
                }
            }
        }
        o.count(&format!("model:{}", if p.model.starts_with("err") { p.model.as_str() } else { "ok" }));
        o.count(&format!("spec:{}", if p.spec_ans.starts_with("err") { p.spec_ans.as_str() } else { "ok" }));
        if !p.model.starts_with("err") && !p.spec_ans.starts_with("err") && p.model != p.spec_ans {
            o.count("model-set != spec-set (outside the proved fragment)");
        }
        let r = match r {
            None => {
                o.count("excluded:model-predicts-nontermination(F13d shape)");
                continue;
            }
            Some(r) => r,
        };
        if r.timed_out {
            o.count("timeout");
            continue;
        }
        let rel_mode = c.mode == Mode::ApiRel;
        let base_s = p.base.to_string_lossy().into_owned();
        // what the implementation did, in the model's terms
        let impl_ans = match &r.err {
            Some(e) => e.clone(),
            None => enc_set(r.listed.iter().map(|s| enc_path(s)).collect()),
        };
        let n_children = r.listed.len().saturating_sub(1);
        let nontrivial = r.err.is_some() || n_children > 0;
        o.count(&format!("impl:{}", match &r.err { Some(e) => e.clone(), None => format!("ok:{}-files", match r.listed.len() { 0 => "0", 1 => "1", 2..=3 => "2-3", 4..=6 => "4-6", _ => "7+" }) }));
        let tail = format!("{} {} {} {} {}", p.fs, p.root_enc, c.sc as u8, c.fg as u8, p.ign);
        let desc = format!("case {} root {} mode {:?}", c.id, c.root, c.mode);
        o.push("corr", "mod.resolvec", format!("mod.resolvec {}", tail), impl_ans.clone(), desc.clone(), nontrivial);
        if hyps_ok {
            // the specification has no verdict on a module cycle (rustc: "circular modules"): mod.oracle answers ok there
            let vacuous = p.spec_ans == "err:circular" || p.spec_ans == "err:fuel";
            if vacuous {
                o.count("oracle:no-verdict(spec says circular)");
            }
            o.push("oracle", "mod.oracle", format!("mod.oracle {} {}", tail, impl_ans), "ok".into(), desc.clone(), nontrivial && !vacuous);
        }

        // ---- oracles that need no model
        direct += 1;
        let plain = !all_items.iter().any(|f| has_cfg_attr(&f.items));
        let canon: Vec<Option<String>> = r.listed.iter().map(|s| canon_listed(s, &base_s, rel_mode)).collect();
        // D1 strict decoys
        for d in &c.strict_decoys {
            if r.changed.contains(d) {
                fail(&mut o, "c13:decoy-formatted", format!("the file {} has a name no module declares and no attribute mentions, and was rewritten", d), p, r);
            }
        }
        // D2 error => exit 1, nothing written
        if r.err.is_some() {
            if r.code != Some(1) {
                fail(&mut o, "c13:error-exit-code", format!("module resolution error with exit code {:?}", r.code), p, r);
            }
            if !r.changed.is_empty() || !r.created.is_empty() {
                fail(&mut o, "c13:error-but-files-written", "a module resolution error was reported and files were rewritten all the same".into(), p, r);
            }
        } else if r.code != Some(0) {
            fail(&mut o, "c13:unexpected-exit", format!("exit code {:?} without a module resolution error", r.code), p, r);
            continue;
        }
        if !r.created.is_empty() {
            fail(&mut o, "c13:file-created", format!("files appeared: {:?}", r.created), p, r);
        }
        // D4 listed = changed
        if r.err.is_none() {
            let listed_set: BTreeSet<String> = canon.iter().flatten().cloned().collect();
            let changed_set: BTreeSet<String> = r.changed.iter().cloned().collect();
            if canon.iter().any(|x| x.is_none()) || listed_set != changed_set {
                fail(&mut o, "c13:listed-vs-changed", format!("files listed as formatted {:?} vs files whose bytes changed {:?}", listed_set, changed_set), p, r);
            }
            // D5 once (the model predicts the two-spellings shape F13e: excluded there)
            let model_alias = {
                let ks: Vec<Option<String>> = if p.model.starts_with("err") || p.model == "_" { vec![] } else { p.model.split(',').map(|k| dec_path(k).and_then(|c| { let mut t = c.join("/"); if t.starts_with("//") { t = t[1..].to_string(); } canon_listed(&t, &base_s, rel_mode) })).collect() };
                let s: BTreeSet<&Option<String>> = ks.iter().collect();
                s.len() != ks.len()
            };
            if listed_set.len() != r.listed.len() {
                if model_alias {
                    o.count("excluded-from-once:two-spellings-of-one-file(F13e shape)");
                } else {
                    fail(&mut o, "c13:formatted-twice", "one file is listed under two names".into(), p, r);
                }
            }
        }
        // D6/D9/D10/D8 exclusions
        for ch in &r.changed {
            let node = match c.tree.get(ch) { Some(Node::File(f)) => f, _ => continue };
            if plain && node.skip {
                fail(&mut o, "c13:skipped-file-rewritten", format!("{} starts with #![rustfmt::skip] and was rewritten", ch), p, r);
            }
            if plain && !c.fg && node.generated {
                fail(&mut o, "c13:generated-file-rewritten", format!("{} carries @generated, format_generated_files=false, and it was rewritten", ch), p, r);
            }
            if c.sc && ch != &c.root {
                fail(&mut o, "c13:skip-children-child-rewritten", format!("skip_children is set and {} was rewritten", ch), p, r);
            }
            let comps: Vec<String> = ch.split('/').map(|s| s.to_string()).collect();
            // relative to the rustfmt.toml that carries the list
            let rel: Vec<String> = if c.toml_dir.is_empty() { comps.clone() } else { let n = c.toml_dir.split('/').count(); if ch.starts_with(&format!("{}/", c.toml_dir)) { comps[n..].to_vec() } else { comps.clone() } };
            if ignored_by(&c.ignore, &rel) {
                fail(&mut o, "c13:ignored-file-rewritten", format!("{} matches ignore = {:?} and was rewritten", ch, c.ignore), p, r);
            }
        }
        // D7 the --emit json pre-pass
        if !r.json_changed.is_empty() {
            fail(&mut o, "c13:emit-json-wrote-files", format!("--emit json changed {:?}", r.json_changed), p, r);
        }
        if let (Some(j), None) = (&r.json_names, &r.err) {
            let mut j = j.clone();
            j.sort();
            if j != r.listed {
                fail(&mut o, "c13:json-vs-verbose", format!("--emit json names {:?} differ from the files -v lists", j), p, r);
            } else {
                o.count("json-prepass:agrees");
            }
        }
        // the resolver alone (no filter of format_project), the input's ownership, default_submod_path: in-process hooks
        if let Some(fm) = &r.hook_filemap {
            o.push("corr", "mod.filemapc", format!("mod.filemapc {} {} {}", p.fs, p.root_enc, (!c.sc) as u8), fm.clone(), desc.clone(), fm.contains(',') || fm.starts_with("err"));
        }
        if let Some(ow) = &r.hook_own {
            o.push("corr", "mod.ownership", format!("mod.ownership {} {}", p.fs, p.root_enc), own_enc(ow), desc.clone(), ow != "none");
        }
        for ((d, name, rel), ans) in &r.hook_dsp {
            let req = format!("mod.default_submod_path {} {} {} {}", p.fs, enc_path(&pjoin(&base_s, d)), enc_str(name), rel.as_deref().map(enc_str).unwrap_or_else(|| "-".into()));
            o.push("corr", "mod.default_submod_path", req, ans.clone(), desc.clone(), !ans.starts_with("err:notfound"));
        }
        // mod.parse_macro: parse_cfg_if / parse_cfg_match alone (in-process hook on the text of one call) against
        // parseMacroBody; at most three calls per tree
        let mut n_mac = 0;
        for f in &all_items {
            for it in f.items.iter().filter(|it| matches!(it, Item::CfgIf { .. } | Item::CfgMatch { .. })) {
                if n_mac >= 3 {
                    break;
                }
                n_mac += 1;
                let mut text = String::new();
                render_items(std::slice::from_ref(it), "", &mut text);
                let ans = match std::panic::catch_unwind(|| hcfg::macro_mods(&text)) {
                    Ok(Ok(v)) if v.len() == 1 => {
                        let m = &v[0];
                        let mods = match &m.mods {
                            Err(_) => "err".to_string(),
                            Ok(ms) if ms.is_empty() => "_".to_string(),
                            Ok(ms) => ms.iter().map(|x| if let Some(n) = x.strip_suffix("{}") { format!("i{}", enc_str(n)) } else { format!("e{}", enc_str(x.trim_end_matches(';'))) }).collect::<Vec<_>>().join(","),
                        };
                        format!("{}:{}", m.kind, mods)
                    }
                    Ok(Ok(v)) => format!("!{}-calls", v.len()),
                    Ok(Err(e)) => format!("!{}", e),
                    Err(_) => "panic".into(),
                };
                let mut toks = vec!["1".to_string()];
                enc_item(it, &mut toks);
                let nontriv = ans.ends_with(":err") || ans.contains(',');
                o.push("corr", "mod.parse_macro", format!("mod.parse_macro {}", toks.join(",")), ans, desc.clone(), nontriv);
            }
        }
        // mod.stat: the model's file system against the OS, on spellings with `.` / `..` (absolute keys only)
        if !rel_mode {
            for (sp, st) in &r.stats {
                let spelled = format!("{}/{}", base_s, sp);
                o.push("corr", "mod.stat", format!("mod.stat {} {}", p.fs, enc_path(&spelled)), (*st).into(), desc.clone(), sp.split('/').any(|c| c == ".."));
            }
        }
        if o.samples.len() < 4 && nontrivial {
            o.sample(json!({"case": describe(c), "formatted": r.listed, "error": r.err, "model": dec_set(&p.model, &p.prefix), "spec": dec_set(&p.spec_ans, &p.prefix), "hyps": p.hyps}));
        }
    }
    o.direct_evals = direct;
    o.direct_distinct = direct;
    o.count_n("direct-oracle-cases", direct);

    // 5. enumerated probes of known-dirty shapes (started at the beginning, on their own thread: the stack overflow
    //    of F13d takes the debug binary about 20 s)
    o.probes.extend(probe_thread.join().unwrap_or_default());
    let _ = std::fs::remove_dir_all(&work);
    let _ = std::fs::remove_dir_all(&pwork);
    o.notes.push("a case = one generated tree + configuration + way of naming the root, formatted by the real code; non-trivial = a child file was formatted or a resolution error was reported; mod.oracle is only asked where mod.hyps establishes the hypotheses of formatProject_matches_spec_partial".into());
    if std::env::var("C13_DUMP").is_ok() {
        std::fs::write(out.join("requests.txt"), o.cases.iter().map(|c| c.request.clone()).collect::<Vec<_>>().join("\n")).ok();
    }
    o.finish(out, jobs())
}

// ----------------------------------------------------------------------------------------- probes

fn ext(name: &str, attrs: Vec<Attr>) -> Item {
    Item::Ext { name: name.into(), attrs }
}
fn file(items: Vec<Item>) -> Node {
    Node::File(FileNode { skip: false, generated: false, items })
}
fn skipped_file(items: Vec<Item>) -> Node {
    Node::File(FileNode { skip: true, generated: false, items })
}

fn probe_case(tree: Vec<(&str, Node)>, root: &str) -> CaseSpec {
    CaseSpec { id: 0, tree: tree.into_iter().map(|(k, v)| (k.to_string(), v)).collect(), root: root.into(), sc: false, fg: true, ignore: vec![], toml_dir: String::new(), mode: Mode::BinRel, strict_decoys: vec![], faults: vec![], stat_spellings: vec![], dsp_triples: vec![] }
}

fn probes(work: &Path) -> Vec<Value> {
    let mut out: Vec<Value> = vec![];
    let detail = |c: &CaseSpec, r: &RunOut| json!({"case": describe(c), "listed": r.listed, "changed": r.changed, "exit": r.code, "stderr": r.stderr});
    let pdir = |n: &str| work.join(format!("probe-{}", n)).join("w");

    // F13a  cfg_attr(path) + a skipped file: the skipped file is overwritten with the declaring file's text
    let c = probe_case(
        vec![
            ("lib.rs", file(vec![ext("a", vec![]), ext("a", vec![Attr::Cfg("b.rs".into())])])),
            ("a.rs", skipped_file(vec![])),
            ("b.rs", file(vec![])),
        ],
        "lib.rs",
    );
    let base = pdir("a");
    let r = run_case(&c, &base, true);
    let a_after = std::fs::read_to_string(base.join("a.rs")).unwrap_or_default();
    let lib_before = match &c.tree["lib.rs"] { Node::File(f) => render_file(f), _ => String::new() };
    let fails = r.changed.contains(&"a.rs".to_string());
    out.push(json!({"id": "F13a", "fails": fails,
        "what": format!("lib.rs: `mod a; #[cfg_attr(any(), path = \"b.rs\")] mod a;`, a.rs starts with #![rustfmt::skip], b.rs exists: a.rs {} (exit {:?}); its new text {} the unformatted text of lib.rs",
            if fails { "was REWRITTEN" } else { "is untouched" }, r.code, if a_after == lib_before { "is byte for byte" } else { "is not" }),
        "detail": {"run": detail(&c, &r), "a.rs after": a_after}}));
    let _ = std::fs::remove_dir_all(&base);

    // F13b  the exists() probe of push_inline_mod_directory
    let c = probe_case(
        vec![
            ("lib.rs", file(vec![ext("x", vec![])])),
            ("x.rs", file(vec![Item::Inl { name: "z".into(), attrs: vec![], inner_skip: false, items: vec![ext("w", vec![])] }])),
            ("x/w.rs", file(vec![])),
        ],
        "lib.rs",
    );
    let control_tree = c.tree.clone();
    let r = run_case(&c, &pdir("b"), false);
    let fails = r.err.is_none() && r.changed.contains(&"x/w.rs".to_string());
    out.push(json!({"id": "F13b", "fails": fails,
        "what": format!("lib.rs: `mod x;`, x.rs: `mod z {{ mod w; }}`, x/w.rs present, no x/z/: rustc looks for x/z/w.rs (E0583 file not found); rustfmt {} (exit {:?})", if fails { "formats x/w.rs" } else { "does not format x/w.rs" }, r.code),
        "detail": detail(&c, &r)}));

    // F13c  one file under two ownerships
    let c = probe_case(
        vec![
            ("lib.rs", file(vec![ext("a", vec![Attr::Path("foo.rs".into())]), ext("foo", vec![])])),
            ("foo.rs", file(vec![ext("child", vec![])])),
            ("child.rs", file(vec![])),
            ("foo/child.rs", file(vec![])),
        ],
        "lib.rs",
    );
    let r = run_case(&c, &pdir("c"), false);
    let fails = r.err.is_none() && r.code == Some(0) && !r.changed.contains(&"foo/child.rs".to_string());
    out.push(json!({"id": "F13c", "fails": fails,
        "what": format!("lib.rs: `#[path = \"foo.rs\"] mod a; mod foo;`, foo.rs: `mod child;`, child.rs and foo/child.rs present: rustc compiles both (foo.rs is mod.rs-like as `a`, and owns foo/ as `foo`); rustfmt {} foo/child.rs (exit {:?})", if fails { "never formats" } else { "formats" }, r.code),
        "detail": detail(&c, &r)}));

    // F13d  a cycle spelled through `..` (run with a 2 MiB stack so that the overflow is reached in well under a
    //       second; with the default 8 MiB the debug binary needs 10-20 s. Control: the F13b tree under the same limit)
    let c = probe_case(
        vec![
            ("a.rs", file(vec![ext("b", vec![])])),
            ("b/mod.rs", file(vec![ext("a", vec![])])),
            ("b/a.rs", file(vec![ext("a", vec![Attr::Path("../a.rs".into())])])),
        ],
        "a.rs",
    );
    let small_stack = |base: &Path, root: &str| {
        let mut cmd = Command::new("sh");
        cmd.env("LD_LIBRARY_PATH", toolchain_lib()).current_dir(base).arg("-c").arg(format!("ulimit -s 2048; exec \"{}\" -v {}", rustfmt_bin().display(), root));
        run_cmd(&mut cmd, b"", Duration::from_secs(120))
    };
    let base = pdir("d");
    let _ = std::fs::remove_dir_all(&base);
    std::fs::create_dir_all(&base).ok();
    materialise(&base, &c.tree);
    std::fs::write(base.join("rustfmt.toml"), "").ok();
    let before = snapshot(&base);
    let res = small_stack(&base, "a.rs");
    let (changed, _) = diff_snap(&before, &snapshot(&base));
    let cbase = pdir("d-control");
    let _ = std::fs::remove_dir_all(&cbase);
    std::fs::create_dir_all(&cbase).ok();
    materialise(&cbase, &control_tree);
    std::fs::write(cbase.join("rustfmt.toml"), "").ok();
    let control = small_stack(&cbase, "lib.rs");
    let overflow = control.code == Some(0) && !res.timed_out && (res.stderr.contains("overflowed its stack") || res.code.is_none());
    out.push(json!({"id": "F13d", "fails": overflow,
        "what": format!("a.rs: `mod b;`, b/mod.rs: `mod a;`, b/a.rs: `#[path = \"../a.rs\"] mod a;`, run on a.rs: every round reaches a.rs under a longer spelling (b/../a.rs, b/../b/../a.rs, ..) which is_file_parsed does not recognise; {} (exit {:?}, timed out {}, files changed {:?}; 2 MiB stack, under which a three-file control tree formats with exit {:?})", if overflow { "the process dies of a stack overflow" } else { "no stack overflow observed" }, res.code, res.timed_out, changed, control.code),
        "detail": {"case": describe(&c), "stderr": res.stderr.chars().take(200).collect::<String>(), "listed": listed_of(&res.stdout)}}));
    let _ = std::fs::remove_dir_all(&base);
    let _ = std::fs::remove_dir_all(&cbase);

    // F13e  two spellings of one file
    let c = probe_case(
        vec![
            ("lib.rs", file(vec![ext("a", vec![]), ext("b", vec![Attr::Path("sub/../a.rs".into())])])),
            ("a.rs", file(vec![])),
            ("sub", Node::Dir),
        ],
        "lib.rs",
    );
    let base = pdir("e");
    let r = run_case(&c, &base, false);
    let canon: Vec<Option<String>> = r.listed.iter().map(|s| canon_listed(s, &base.to_string_lossy(), false)).collect();
    let twice = canon.iter().filter(|x| x.as_deref() == Some("a.rs")).count();
    out.push(json!({"id": "F13e", "fails": twice > 1,
        "what": format!("lib.rs: `mod a; #[path = \"sub/../a.rs\"] mod b;`: a.rs is formatted {} time(s) in one run (file_map is keyed by spelling)", twice),
        "detail": detail(&c, &r)}));

    // N13f  `mod lib;` inside lib.rs (not a violation of the statement as written: reported as a note)
    let c = probe_case(vec![("lib.rs", file(vec![ext("lib", vec![])]))], "lib.rs");
    let r = run_case(&c, &pdir("f"), false);
    out.push(json!({"id": "N13f", "fails": false,
        "what": format!("lib.rs: `mod lib;` (rustc: error, circular modules): rustfmt exit {:?}, error {:?}, formats {:?} once; the statement of C13 demands an error only for an ambiguous or missing module, so this is recorded, not counted", r.code, r.err, r.changed),
        "detail": detail(&c, &r)}));

    // F13g  a `#[path] mod` inside a function body
    let mut c = probe_case(vec![("lib.rs", file(vec![])), ("inner.rs", file(vec![]))], "lib.rs");
    let base = pdir("g");
    let _ = std::fs::remove_dir_all(&base);
    std::fs::create_dir_all(&base).ok();
    // hand-written text: the generator never puts a `mod` into a function body
    c.tree.clear();
    std::fs::write(base.join("lib.rs"), "fn  r( ){\n    #[path = \"inner.rs\"]\n    mod inner;\n}\n").ok();
    std::fs::write(base.join("inner.rs"), "fn  i( ){}\n").ok();
    std::fs::write(base.join("rustfmt.toml"), "").ok();
    let before = snapshot(&base);
    let mut cmd = Command::new(rustfmt_bin());
    cmd.env("LD_LIBRARY_PATH", toolchain_lib()).current_dir(&base).arg("-v").arg("lib.rs");
    let res = run_cmd(&mut cmd, b"", Duration::from_secs(30));
    let (changed, _) = diff_snap(&before, &snapshot(&base));
    let fails = res.code == Some(0) && changed.contains(&"lib.rs".to_string()) && !changed.contains(&"inner.rs".to_string());
    out.push(json!({"id": "F13g", "fails": fails,
        "what": format!("lib.rs: `fn r() {{ #[path = \"inner.rs\"] mod inner; }}`: rustc compiles inner.rs as part of the crate; rustfmt (exit {:?}) rewrote {:?}: inner.rs is {}", res.code, changed, if fails { "never formatted (the resolver only walks items, not bodies)" } else { "formatted" }),
        "detail": {"listed": listed_of(&res.stdout), "changed": changed}}));
    let _ = std::fs::remove_dir_all(&base);

    // F13h  a `cfg_if!` directly in a block of a `cfg_if!`
    let chain_if = |branches: Vec<Vec<Item>>| Item::CfgIf { shape: Shape::Chain, branches, qualified: false };
    let c = probe_case(
        vec![("lib.rs", file(vec![chain_if(vec![vec![chain_if(vec![vec![ext("x", vec![])]]), ext("y", vec![])]])])), ("x.rs", file(vec![])), ("y.rs", file(vec![]))],
        "lib.rs",
    );
    let r = run_case(&c, &pdir("h"), false);
    let fails = r.err.is_none() && r.code == Some(0) && r.changed.contains(&"y.rs".to_string()) && !r.changed.contains(&"x.rs".to_string());
    out.push(json!({"id": "F13h", "fails": fails,
        "what": format!("lib.rs: `cfg_if! {{ if #[cfg(unix)] {{ cfg_if! {{ if #[cfg(unix)] {{ mod x; }} }} mod y; }} }}`: after expansion rustc has both modules; rustfmt (exit {:?}) rewrote {:?}: x.rs is {} (parse_cfg_if keeps items of kind Mod only, the inner call is an item of kind MacCall)", r.code, r.changed, if fails { "never formatted" } else { "formatted" }),
        "detail": detail(&c, &r)}));

    // F13i  one block that does not parse takes the `mod`s of the other blocks with it
    let c = probe_case(
        vec![("lib.rs", file(vec![chain_if(vec![vec![ext("x", vec![])], vec![Item::Junk(0)]]), ext("y", vec![])])), ("x.rs", file(vec![])), ("y.rs", file(vec![]))],
        "lib.rs",
    );
    let r = run_case(&c, &pdir("i"), false);
    let fails = r.err.is_none() && r.code == Some(0) && r.changed.contains(&"y.rs".to_string()) && !r.changed.contains(&"x.rs".to_string());
    out.push(json!({"id": "F13i", "fails": fails,
        "what": format!("lib.rs: `cfg_if! {{ if #[cfg(unix)] {{ mod x; }} else {{ this is junk }} }} mod y;`: for rustc the `else` block is a token tree that is parsed only when selected, on unix the crate compiles and has x.rs; rustfmt (exit {:?}) rewrote {:?}: x.rs is {} (parse_cfg_if returns Err at the first block that does not parse and drops what it had collected)", r.code, r.changed, if fails { "never formatted" } else { "formatted" }),
        "detail": detail(&c, &r)}));

    // F13j  (fixed) a token on which parse_item returns Ok(None) made parse_cfg_if / parse_cfg_match spin forever
    for (k, text) in [("cfg_if", "cfg_if! {\n    if #[cfg(unix)] {\n        mod x;;\n    }\n}\n"), ("cfg_match", "cfg_match! {\n    cfg(unix) => {\n        1\n        mod x;\n    }\n}\n")] {
        let base = pdir(&format!("j-{}", k));
        let _ = std::fs::remove_dir_all(&base);
        std::fs::create_dir_all(&base).ok();
        std::fs::write(base.join("lib.rs"), format!("fn  r( ){{}}\n{}", text)).ok();
        std::fs::write(base.join("x.rs"), "fn  i( ){}\n").ok();
        std::fs::write(base.join("rustfmt.toml"), "").ok();
        let before = snapshot(&base);
        let mut cmd = Command::new(rustfmt_bin());
        cmd.env("LD_LIBRARY_PATH", toolchain_lib()).current_dir(&base).arg("-v").arg("lib.rs");
        let res = run_cmd(&mut cmd, b"", Duration::from_secs(20));
        let (changed, _) = diff_snap(&before, &snapshot(&base));
        out.push(json!({"id": format!("F13j-{}", k), "fails": res.timed_out,
            "what": format!("lib.rs: a `{}!` block with a token that cannot start an item (`;` after `mod x;`, a literal): rustfmt {} (exit {:?}, rewrote {:?})", k, if res.timed_out { "does not terminate (killed after 20 s)" } else { "terminates" }, res.code, changed),
            "detail": {"lib.rs": text, "listed": listed_of(&res.stdout), "changed": changed}}));
        let _ = std::fs::remove_dir_all(&base);
    }
    out
}
