import RF.Model.Proto
import RF.Model.Backup
import RF.Model.Emit
import RF.Driver.Diff
/-!
Line-protocol operations for the emit layer (C06) and the backup write protocol (C20).

  bk.ops <kind>                              -> ops       the GENERATED `fsOps kind`
  bk.check <ops>                             -> ok | bad:<state>      `checkProtocol` / `protocolViolation`
  bk.states <ops>                            -> states    `protocolStates` (exploration order, no duplicates)
  bk.safe <orig> <fmt> <file> <bk>           -> ok | bad  `safeB` on observed contents
  bk.observed <ops> <orig> <fmt> <file> <tmp> <bk>  -> ok | bad   `observedOk`: is the observed directory
                                                one of the states reachable by crash/fault while `ops` run?
  bk.run <ops> <orig> <fmt> <tmp> <bk>       -> <file>:<tmp>:<bk> | fail   `run` from file ↦ orig
  emit.kind <mode> <backup>                  -> kind      the GENERATED `createEmitter`
  emit.exit <check> <stdin> <flags>          -> 0 | 1     `exitFormat` / `exitFormatString`
  emit.cli <nightly> <check> <emit> <backup> <l> <quiet> <verbose> <inlineEmit> <inlineBackup>
           <stdin> <baseMode> <baseBackup>   -> <mode>:<backup>:<kind>:<printNames>:<quiet> | err:<word>
  emit.run <kind> <l> <quiet> <orig> <fmt> <script>  -> <ops>|<out>|<hasDiff>
  emit.cfg <the first 9 arguments of emit.cli> <baseMode> <baseBackup>
                                             -> <mode>:<backup> | err:<word>   what `--print-config current`
                                                shows after `from_matches` + `apply_to`
  emit.e2e <the 12 arguments of emit.cli> <orig> <fmt> <script>
                                             -> <ops>|<out>|<exit> | err:<word>   one whole process on one
                                                file without faults: `fromMatches`, `applyTo` / `stdinResolve`,
                                                `createEmitter`, `emit`, `exitCode` with `diff := hasDiff`

ops      `_` or items joined by `,`: `w:<p>` write, `r:<src>:<dst>` rename, `d:<p>` remove_file,
         `c:<src>:<dst>` copy; `<p>` is `file` | `tmp` | `bk`        e.g. `w:tmp,r:file:bk,r:tmp:file`
state    `<file>:<tmp>:<bk>`, each `absent` | `orig` | `fmt` | `part` | `any`;  states: joined by `,`
contents (orig, fmt, file, tmp, bk)  hex bytes, `-` = empty file, `none` = no such file
mode     files | stdout | coverage | json | modifiedLines | checkstyle | diff
kind     filesWithBackup | files | stdout | json | modifiedLines | checkstyle | diff
bool     0 | 1;  optional values use `none`
flags    7 characters 0/1: operational parsing formatting macro_format_failure check_errors diff unformatted
emit     `--emit` argument as hex string, or `none`
err word verboseAndQuiet | emitAndCheck | badEmit | unstableEmit | stdinBadEmit
out      nothing | text:<header 0|1>:<hex> | name | hunks:<mismatches> | newline | modified:<chunks>
         | json:none | json:<json blocks> | checkstyle:<errors>     (sub-encodings of RF/Driver/Diff.lean;
         orig/fmt of emit.run are hex strings, script as in diff.make)
-/
namespace RF.Driver.Backup
open RF.Proto RF.Gen.Emitters RF.Backup RF.Emit

def encP : P → String
  | .file => "file" | .tmp => "tmp" | .bk => "bk"

def decP : String → Option P
  | "file" => some .file | "tmp" => some .tmp | "bk" => some .bk | _ => none

def encOp : FsOp → String
  | .write d => s!"w:{encP d}"
  | .rename s d => s!"r:{encP s}:{encP d}"
  | .remove p => s!"d:{encP p}"
  | .copy s d => s!"c:{encP s}:{encP d}"

def decOp (s : String) : Option FsOp :=
  match s.splitOn ":" with
  | ["w", d] => do pure (.write (← decP d))
  | ["r", a, b] => do pure (.rename (← decP a) (← decP b))
  | ["d", p] => do pure (.remove (← decP p))
  | ["c", a, b] => do pure (.copy (← decP a) (← decP b))
  | _ => none

def encOps (ops : List FsOp) : String :=
  if ops.isEmpty then "_" else String.intercalate "," (ops.map encOp)

def decOps (s : String) : Option (List FsOp) :=
  if s == "_" then some [] else (s.splitOn ",").mapM decOp

def encA : A → String
  | .absent => "absent" | .orig => "orig" | .fmt => "fmt" | .part => "part" | .any => "any"

def encAFs (a : AFs) : String := s!"{encA a.file}:{encA a.tmp}:{encA a.bk}"

def decBool : String → Option Bool
  | "0" => some false | "1" => some true | _ => none

def encBool (b : Bool) : String := if b then "1" else "0"

def decOpt {α} (f : String → Option α) (s : String) : Option (Option α) :=
  if s == "none" then some none else (f s).map some

def encContent : Option (List UInt8) → String
  | none => "none"
  | some bs => encBytes bs

def decContent (s : String) : Option (Option (List UInt8)) := decOpt decBytes s

def encKind : EmitterKind → String
  | .filesWithBackup => "filesWithBackup" | .files => "files" | .stdout => "stdout"
  | .json => "json" | .modifiedLines => "modifiedLines" | .checkstyle => "checkstyle"
  | .diff => "diff"

def decKind : String → Option EmitterKind
  | "filesWithBackup" => some .filesWithBackup | "files" => some .files | "stdout" => some .stdout
  | "json" => some .json | "modifiedLines" => some .modifiedLines
  | "checkstyle" => some .checkstyle | "diff" => some .diff | _ => none

def encMode : EmitMode → String
  | .files => "files" | .stdout => "stdout" | .coverage => "coverage" | .json => "json"
  | .modifiedLines => "modifiedLines" | .checkstyle => "checkstyle" | .diff => "diff"

def decMode : String → Option EmitMode
  | "files" => some .files | "stdout" => some .stdout | "coverage" => some .coverage
  | "json" => some .json | "modifiedLines" => some .modifiedLines
  | "checkstyle" => some .checkstyle | "diff" => some .diff | _ => none

def decFlags (s : String) : Option Flags :=
  match s.toList.map (fun c => decBool (String.singleton c)) with
  | [some a, some b, some c, some d, some e, some f, some g] => some ⟨a, b, c, d, e, f, g⟩
  | _ => none

def encErr : CliError → String
  | .verboseAndQuiet => "verboseAndQuiet" | .emitAndCheck => "emitAndCheck"
  | .badEmit => "badEmit" | .unstableEmit => "unstableEmit" | .stdinBadEmit => "stdinBadEmit"

def encResolved (r : Resolved) : String :=
  s!"{encMode r.emitMode}:{encBool r.makeBackup}:{encKind r.kind}:{encBool r.cfg.printNames}:{encBool r.cfg.quiet}"

def encOut : Out String → String
  | .nothing => "nothing"
  | .formatted h t => s!"text:{encBool h}:{encChars t}"
  | .fileName => "name"
  | .hunks ms => s!"hunks:{RF.Driver.Diff.encMismatches ms}"
  | .newlineStyle => "newline"
  | .modified cs => s!"modified:{RF.Driver.Diff.encChunks cs}"
  | .json none => "json:none"
  | .json (some bs) => "json:" ++ RF.Driver.Diff.joinOr (bs.map fun b =>
      s!"{b.originalBeginLine}:{b.originalEndLine}:{b.expectedBeginLine}:{b.expectedEndLine}:{encList b.original}:{encList b.expected}")
  | .checkstyle es => "checkstyle:" ++ RF.Driver.Diff.joinOr (es.map fun (n, s) => s!"{n}:{encStr s}")

def okBad (b : Bool) : String := if b then "ok" else "bad"

def handle (op : String) (args : List String) : Option String :=
  match op, args with
  | "bk.ops", [k] => do
    let k ← decKind k
    pure (encOps (fsOps k))
  | "bk.check", [ops] => do
    let ops ← decOps ops
    match protocolViolation ops with
    | none => pure (okBad (checkProtocol ops))
    | some a => pure s!"bad:{encAFs a}"
  | "bk.states", [ops] => do
    let ops ← decOps ops
    pure (String.intercalate "," ((protocolStates ops).map encAFs))
  | "bk.safe", [o, f, file, bk] => do
    let o ← decBytes o
    let f ← decBytes f
    let file ← decContent file
    let bk ← decContent bk
    pure (okBad (safeB o f file bk))
  | "bk.observed", [ops, o, f, file, tmp, bk] => do
    let ops ← decOps ops
    let o ← decBytes o
    let f ← decBytes f
    let file ← decContent file
    let tmp ← decContent tmp
    let bk ← decContent bk
    pure (okBad (observedOk ops o f file tmp bk))
  | "bk.run", [ops, o, f, tmp, bk] => do
    let ops ← decOps ops
    let o ← decBytes o
    let f ← decBytes f
    let tmp ← decContent tmp
    let bk ← decContent bk
    let fs : Fs P UInt8 := fun | .file => some o | .tmp => tmp | .bk => bk
    match run id f ops fs with
    | none => pure "fail"
    | some s => pure s!"{encContent (s .file)}:{encContent (s .tmp)}:{encContent (s .bk)}"
  | "emit.kind", [m, b] => do
    let m ← decMode m
    let b ← decBool b
    pure (encKind (createEmitter m b))
  | "emit.exit", [check, stdin, flags] => do
    let check ← decBool check
    let stdin ← decBool stdin
    let f ← decFlags flags
    pure (toString (if stdin then exitFormatString f else exitFormat check f))
  | "emit.cli", [nightly, check, emit, backup, l, quiet, verbose, ie, ib, stdin, bm, bb] => do
    let nightly ← decBool nightly
    let check ← decBool check
    let emit ← decOpt decChars emit
    let backup ← decBool backup
    let l ← decBool l
    let quiet ← decBool quiet
    let verbose ← decBool verbose
    let ie ← decOpt decMode ie
    let ib ← decOpt decBool ib
    let stdin ← decBool stdin
    let bm ← decMode bm
    let bb ← decBool bb
    match fromMatches nightly check emit backup l quiet verbose ie ib with
    | .error e => pure s!"err:{encErr e}"
    | .ok c =>
      let base : Base := ⟨bm, bb, false⟩
      if stdin then
        match stdinResolve c base with
        | .error e => pure s!"err:{encErr e}"
        | .ok r => pure (encResolved r)
      else pure (encResolved (applyTo c base))
  | "emit.cfg", [nightly, check, emit, backup, l, quiet, verbose, ie, ib, bm, bb] => do
    let nightly ← decBool nightly
    let check ← decBool check
    let emit ← decOpt decChars emit
    let backup ← decBool backup
    let l ← decBool l
    let quiet ← decBool quiet
    let verbose ← decBool verbose
    let ie ← decOpt decMode ie
    let ib ← decOpt decBool ib
    let bm ← decMode bm
    let bb ← decBool bb
    match fromMatches nightly check emit backup l quiet verbose ie ib with
    | .error e => pure s!"err:{encErr e}"
    | .ok c =>
      let r := applyTo c ⟨bm, bb, false⟩
      pure s!"{encMode r.emitMode}:{encBool r.makeBackup}"
  | "emit.e2e", [nightly, check, emit, backup, l, quiet, verbose, ie, ib, stdin, bm, bb, o, f, sc] => do
    let nightly ← decBool nightly
    let check ← decBool check
    let emit ← decOpt decChars emit
    let backup ← decBool backup
    let l ← decBool l
    let quiet ← decBool quiet
    let verbose ← decBool verbose
    let ie ← decOpt decMode ie
    let ib ← decOpt decBool ib
    let stdin ← decBool stdin
    let bm ← decMode bm
    let bb ← decBool bb
    let o ← decChars o
    let f ← decChars f
    let sc ← RF.Driver.Diff.decScript sc
    match fromMatches nightly check emit backup l quiet verbose ie ib with
    | .error e => pure s!"err:{encErr e}"
    | .ok c =>
      let base : Base := ⟨bm, bb, false⟩
      let res : Except CliError Resolved := if stdin then stdinResolve c base else .ok (applyTo c base)
      match res with
      | .error e => pure s!"err:{encErr e}"
      | .ok r =>
        let rr := RF.Emit.emit r.kind r.cfg ⟨o, f, sc⟩
        let flags : Flags := ⟨false, false, false, false, false, rr.hasDiff, false⟩
        pure s!"{encOps rr.ops}|{encOut rr.out}|{exitCode stdin c base flags}"
  | "emit.run", [k, l, q, o, f, sc] => do
    let k ← decKind k
    let l ← decBool l
    let q ← decBool q
    let o ← decChars o
    let f ← decChars f
    let sc ← RF.Driver.Diff.decScript sc
    let r := emit k ⟨l, q⟩ ⟨o, f, sc⟩
    pure s!"{encOps r.ops}|{encOut r.out}|{encBool r.hasDiff}"
  | _, _ => none

end RF.Driver.Backup
